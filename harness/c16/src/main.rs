//! C16 — tuple-key encodings sort byte-wise exactly as their tuples, and decode back.
//!
//! Two formats are checked: the field-numbered format of crate `tuple_key` (elements
//! unit/u32/u64/i32/i64/String, each ascending or descending) and the compact format of crate
//! `tuple_key2` (unit/u8/u16/u32/u64/i8/i16/i32/i64/string/bytes, ascending only — the crate has
//! no notion of a direction).
//!
//! Oracles (all computed here from the source tuples, never from the crates):
//!   order      cmp(enc(a), enc(b)) == cmp_tuple(a, b), element by element, reversed for
//!              descending elements;
//!   extension  enc(t) < enc(t ++ u) and, for t' > t, enc(t ++ u) < enc(t') (and < enc(t' ++ u'));
//!   roundtrip  parsing with the same type sequence returns the tuple;
//!   decode     arbitrary / damaged bytes give `Err` or a value, never a panic — for the hand-driven
//!              parsers and for the derived `TryFrom<TupleKey>` (part tk1-derive-decode);
//!   api        keys extended through `TupleKey::append` / `TupleKeyBuilder::{extend, tuple_key}`
//!              are byte-identical to the from-scratch encodings the laws above are judged on.
//!
//! Known finding R-N (tuple_key, descending strings): `reverse_encoding` inverts the seven data
//! bits of every byte but keeps the continuation bit, so when two strings' forward encodings
//! first differ in a byte that differs *only in the continuation bit* (the shorter string is a
//! prefix of the longer one and the longer one continues with zero bits up to the 7-bit chunk
//! boundary) the descending encodings sort the wrong way round.  `rn_trigger` recomputes that
//! condition with an independent 7-bit chunker; such pairs are excluded (and counted) unless the
//! context is strict (replay).

use std::cmp::Ordering;

use proptest::collection::vec;
use proptest::prelude::*;
use prototk::FieldNumber;
use serde::{Deserialize, Serialize};

use tuple_key_derive::TypedTupleKey;
use vcore::gens::sel;
use vcore::{Check, Ctx, Outcome, Part, Property, Tier, ViolationRec, WorkerReport};

////////////////////////////////////////////// model ///////////////////////////////////////////////

#[derive(Clone, Copy, Debug, PartialEq, Eq)]
enum Fmt {
    Tk1,
    Tk2,
}

impl Fmt {
    fn krate(self) -> &'static str {
        match self {
            Fmt::Tk1 => "tuple_key",
            Fmt::Tk2 => "tuple_key2",
        }
    }
    fn short(self) -> &'static str {
        match self {
            Fmt::Tk1 => "tk1",
            Fmt::Tk2 => "tk2",
        }
    }
}

#[derive(Clone, Copy, Debug, PartialEq, Eq, Serialize, Deserialize)]
enum Ty {
    Unit,
    U32,
    U64,
    I32,
    I64,
    Str,
    Bytes,
    // narrow integers: tuple_key2 only (builders `u8/u16/i8/i16` and the parsers of the same names)
    U8,
    U16,
    I8,
    I16,
}

impl Ty {
    fn name(self) -> &'static str {
        match self {
            Ty::Unit => "unit",
            Ty::U32 => "u32",
            Ty::U64 => "u64",
            Ty::I32 => "i32",
            Ty::I64 => "i64",
            Ty::Str => "string",
            Ty::Bytes => "bytes",
            Ty::U8 => "u8",
            Ty::U16 => "u16",
            Ty::I8 => "i8",
            Ty::I16 => "i16",
        }
    }
    fn narrow(self) -> bool {
        matches!(self, Ty::U8 | Ty::U16 | Ty::I8 | Ty::I16)
    }
}

#[derive(Clone, Debug, PartialEq, Eq, Serialize, Deserialize)]
enum Val {
    Unit,
    U32(u32),
    U64(u64),
    I32(i32),
    I64(i64),
    Str(String),
    Bytes(Vec<u8>),
    U8(u8),
    U16(u16),
    I8(i8),
    I16(i16),
}

impl Val {
    fn ty(&self) -> Ty {
        match self {
            Val::Unit => Ty::Unit,
            Val::U32(_) => Ty::U32,
            Val::U64(_) => Ty::U64,
            Val::I32(_) => Ty::I32,
            Val::I64(_) => Ty::I64,
            Val::Str(_) => Ty::Str,
            Val::Bytes(_) => Ty::Bytes,
            Val::U8(_) => Ty::U8,
            Val::U16(_) => Ty::U16,
            Val::I8(_) => Ty::I8,
            Val::I16(_) => Ty::I16,
        }
    }
    fn int(&self) -> Option<i128> {
        match self {
            Val::U32(x) => Some(*x as i128),
            Val::U64(x) => Some(*x as i128),
            Val::I32(x) => Some(*x as i128),
            Val::I64(x) => Some(*x as i128),
            Val::U8(x) => Some(*x as i128),
            Val::U16(x) => Some(*x as i128),
            Val::I8(x) => Some(*x as i128),
            Val::I16(x) => Some(*x as i128),
            _ => None,
        }
    }
    fn seq(&self) -> Option<&[u8]> {
        match self {
            Val::Str(s) => Some(s.as_bytes()),
            Val::Bytes(b) => Some(b),
            _ => None,
        }
    }
}

/// One column of a schema: element type, direction and (tuple_key only) field number.
#[derive(Clone, Copy, Debug, PartialEq, Eq, Serialize, Deserialize)]
struct Col {
    ty: Ty,
    desc: bool,
    field: u32,
}

fn dir_name(desc: bool) -> &'static str {
    if desc { "desc" } else { "asc" }
}

/// Natural order of two values of the same type.
fn cmp_val(a: &Val, b: &Val) -> Ordering {
    match (a, b) {
        (Val::Unit, Val::Unit) => Ordering::Equal,
        (Val::U32(x), Val::U32(y)) => x.cmp(y),
        (Val::U64(x), Val::U64(y)) => x.cmp(y),
        (Val::I32(x), Val::I32(y)) => x.cmp(y),
        (Val::I64(x), Val::I64(y)) => x.cmp(y),
        (Val::Str(x), Val::Str(y)) => x.as_bytes().cmp(y.as_bytes()),
        (Val::Bytes(x), Val::Bytes(y)) => x.cmp(y),
        (Val::U8(x), Val::U8(y)) => x.cmp(y),
        (Val::U16(x), Val::U16(y)) => x.cmp(y),
        (Val::I8(x), Val::I8(y)) => x.cmp(y),
        (Val::I16(x), Val::I16(y)) => x.cmp(y),
        _ => unreachable!("conformance is checked before comparing"),
    }
}

/// Element-by-element comparison with direction reversal; also the index of the first difference.
fn cmp_tuple(schema: &[Col], a: &[Val], b: &[Val]) -> (Ordering, Option<usize>) {
    for (i, (x, y)) in a.iter().zip(b.iter()).enumerate() {
        let c = cmp_val(x, y);
        if c != Ordering::Equal {
            return (if schema[i].desc { c.reverse() } else { c }, Some(i));
        }
    }
    (a.len().cmp(&b.len()), None)
}

fn conforms(fmt: Fmt, schema: &[Col], t: &[Val]) -> bool {
    if t.len() > schema.len() {
        return false;
    }
    for c in schema {
        match fmt {
            Fmt::Tk1 => {
                if c.ty == Ty::Bytes || c.ty.narrow() || FieldNumber::new(c.field).is_err() {
                    return false;
                }
            }
            Fmt::Tk2 => {
                if c.desc {
                    return false;
                }
            }
        }
    }
    schema.iter().zip(t.iter()).all(|(c, v)| c.ty == v.ty())
}

fn hex(b: &[u8]) -> String {
    let s: String = b.iter().take(96).map(|x| format!("{x:02x}")).collect();
    if b.len() > 96 { format!("{s}…({}B)", b.len()) } else { s }
}

fn show(t: &[Val]) -> String {
    vcore::truncate(&format!("{t:?}"), 400)
}

fn show_schema(fmt: Fmt, s: &[Col]) -> String {
    let parts: Vec<String> = s
        .iter()
        .map(|c| match fmt {
            Fmt::Tk1 => format!("#{}:{}:{}", c.field, c.ty.name(), dir_name(c.desc)),
            Fmt::Tk2 => c.ty.name().to_string(),
        })
        .collect();
    format!("[{}]", parts.join(", "))
}

///////////////////////////////////////////// encoders /////////////////////////////////////////////

fn tk1_dir(desc: bool) -> tuple_key::Direction {
    if desc { tuple_key::Direction::Reverse } else { tuple_key::Direction::Forward }
}

fn tk1_kdt(ty: Ty) -> tuple_key::KeyDataType {
    match ty {
        Ty::Unit => tuple_key::KeyDataType::unit,
        Ty::U32 => tuple_key::KeyDataType::fixed32,
        Ty::U64 => tuple_key::KeyDataType::fixed64,
        Ty::I32 => tuple_key::KeyDataType::sfixed32,
        Ty::I64 => tuple_key::KeyDataType::sfixed64,
        Ty::Str | Ty::Bytes => tuple_key::KeyDataType::string,
        Ty::U8 | Ty::U16 | Ty::I8 | Ty::I16 => unreachable!("tuple_key has no narrow integer elements"),
    }
}

/// Extend `k` in place with the elements `t` of the columns `schema` (the element-wise extension
/// API of tuple_key: `extend` / `extend_with_key` on an existing key).
fn tk1_extend(k: &mut tuple_key::TupleKey, schema: &[Col], t: &[Val]) {
    for (c, v) in schema.iter().zip(t.iter()) {
        let f = FieldNumber::must(c.field);
        let d = tk1_dir(c.desc);
        match v {
            // `extend` is the documented way to append a (forward) unit element.
            Val::Unit if !c.desc => k.extend(f),
            Val::Unit => k.extend_with_key(f, (), d),
            Val::U32(x) => k.extend_with_key(f, *x, d),
            Val::U64(x) => k.extend_with_key(f, *x, d),
            Val::I32(x) => k.extend_with_key(f, *x, d),
            Val::I64(x) => k.extend_with_key(f, *x, d),
            Val::Str(x) => k.extend_with_key(f, x.clone(), d),
            Val::Bytes(_) => unreachable!("tuple_key has no bytes element"),
            Val::U8(_) | Val::U16(_) | Val::I8(_) | Val::I16(_) => unreachable!("tuple_key has no narrow integer elements"),
        }
    }
}

fn tk1_encode(schema: &[Col], t: &[Val]) -> tuple_key::TupleKey {
    let mut k = tuple_key::TupleKey::default();
    tk1_extend(&mut k, schema, t);
    k
}

/// Parse `key` with the type sequence of `schema`.  Returns the values parsed so far and the
/// first error.  With `check_peek`, `peek_next` must announce exactly the schema's column.
fn tk1_decode(schema: &[Col], key: &tuple_key::TupleKey, check_peek: bool) -> (Vec<Val>, Result<(), String>) {
    let mut p = tuple_key::TupleKeyParser::new(key);
    let mut out = vec![];
    for c in schema {
        let f = FieldNumber::must(c.field);
        let d = tk1_dir(c.desc);
        let peek = p.peek_next();
        if check_peek {
            match peek {
                Ok(Some((pf, pk, pd))) => {
                    if pf != f || pk != tk1_kdt(c.ty) || pd != d {
                        return (out, Err(format!("peek_next announced ({pf}, {pk:?}, {pd:?}) for column #{}:{}:{}", c.field, c.ty.name(), dir_name(c.desc))));
                    }
                }
                Ok(None) => return (out, Err("peek_next: no more elements".into())),
                Err(e) => return (out, Err(format!("peek_next: {e}"))),
            }
        }
        let r: Result<Val, &'static str> = match c.ty {
            Ty::Unit => p.parse_next(f, d).map(|_| Val::Unit),
            Ty::U32 => p.parse_next_with_key::<u32>(f, d).map(Val::U32),
            Ty::U64 => p.parse_next_with_key::<u64>(f, d).map(Val::U64),
            Ty::I32 => p.parse_next_with_key::<i32>(f, d).map(Val::I32),
            Ty::I64 => p.parse_next_with_key::<i64>(f, d).map(Val::I64),
            Ty::Str | Ty::Bytes => p.parse_next_with_key::<String>(f, d).map(Val::Str),
            Ty::U8 | Ty::U16 | Ty::I8 | Ty::I16 => unreachable!("tuple_key has no narrow integer elements"),
        };
        match r {
            Ok(v) => out.push(v),
            Err(e) => return (out, Err(e.to_string())),
        }
    }
    match p.peek_next() {
        Ok(None) => (out, Ok(())),
        Ok(Some(_)) => (out, Err("trailing elements".into())),
        Err(e) => (out, Err(format!("trailing: {e}"))),
    }
}

/// Append the elements `t` to a tuple_key2 builder.
fn tk2_push(mut b: tuple_key2::TupleKeyBuilder, t: &[Val]) -> tuple_key2::TupleKeyBuilder {
    for v in t {
        b = match v {
            Val::Unit => b.unit(),
            Val::U32(x) => b.u32(*x),
            Val::U64(x) => b.u64(*x),
            Val::I32(x) => b.i32(*x),
            Val::I64(x) => b.i64(*x),
            Val::Str(x) => b.string(x),
            Val::Bytes(x) => b.bytes(x),
            Val::U8(x) => b.u8(*x),
            Val::U16(x) => b.u16(*x),
            Val::I8(x) => b.i8(*x),
            Val::I16(x) => b.i16(*x),
        };
    }
    b
}

fn tk2_encode(t: &[Val]) -> Vec<u8> {
    tk2_push(tuple_key2::TupleKey::builder(), t).build().into_bytes()
}

/// Parse `bytes` with the type sequence of `schema`: values parsed, result (including `finish`),
/// and the number of bytes consumed by the successfully parsed elements.
fn tk2_decode(schema: &[Col], bytes: &[u8]) -> (Vec<Val>, Result<(), tuple_key2::Error>, usize) {
    let key = tuple_key2::TupleKey::from_bytes(bytes.to_vec());
    let mut p = key.parser();
    let mut out = vec![];
    let mut consumed = 0;
    for c in schema {
        let r = match c.ty {
            Ty::Unit => p.unit().map(|_| Val::Unit),
            Ty::U32 => p.u32().map(Val::U32),
            Ty::U64 => p.u64().map(Val::U64),
            Ty::I32 => p.i32().map(Val::I32),
            Ty::I64 => p.i64().map(Val::I64),
            Ty::Str => p.string().map(Val::Str),
            Ty::Bytes => p.bytes().map(Val::Bytes),
            Ty::U8 => p.u8().map(Val::U8),
            Ty::U16 => p.u16().map(Val::U16),
            Ty::I8 => p.i8().map(Val::I8),
            Ty::I16 => p.i16().map(Val::I16),
        };
        match r {
            Ok(v) => {
                out.push(v);
                consumed = p.offset();
            }
            Err(e) => {
                // a parser that reported an error is still an object the caller holds: asking it
                // where it stands must not panic (C16: arbitrary bytes yield an error, not a panic)
                let _ = p.offset();
                let _ = p.remaining();
                let _ = p.is_empty();
                let _ = p.finish();
                return (out, Err(e), consumed);
            }
        }
    }
    let _ = p.remaining();
    let _ = p.is_empty();
    let r = p.finish();
    (out, r, consumed)
}

fn encode(fmt: Fmt, schema: &[Col], t: &[Val]) -> Vec<u8> {
    match fmt {
        Fmt::Tk1 => tk1_encode(schema, t).as_bytes().to_vec(),
        Fmt::Tk2 => tk2_encode(t),
    }
}

////////////////////////////////////// R-N trigger predicate ///////////////////////////////////////

/// Independent re-implementation of the 7-bit chunking of `tuple_key` strings: the bits of the
/// string, most significant first, cut into groups of seven (the last group zero padded); every
/// group but the last carries a set low (continuation) bit.  The empty string is one zero byte.
fn chunks7(bytes: &[u8]) -> Vec<u8> {
    if bytes.is_empty() {
        return vec![0];
    }
    let mut bits: Vec<u8> = Vec::with_capacity(bytes.len() * 8 + 7);
    for b in bytes {
        for i in (0..8).rev() {
            bits.push((b >> i) & 1);
        }
    }
    while bits.len() % 7 != 0 {
        bits.push(0);
    }
    let n = bits.len() / 7;
    (0..n)
        .map(|g| {
            let mut x = 0u8;
            for i in 0..7 {
                x = (x << 1) | bits[7 * g + i];
            }
            (x << 1) | u8::from(g + 1 < n)
        })
        .collect()
}

/// R-N trigger: the first differing byte of the two *forward* encodings differs only in the low
/// (continuation) bit.
fn rn_trigger(a: &[u8], b: &[u8]) -> bool {
    let (x, y) = (chunks7(a), chunks7(b));
    for (p, q) in x.iter().zip(y.iter()) {
        if p != q {
            return p ^ q == 1;
        }
    }
    false
}

/// The same condition stated on the strings: one is a proper prefix of the other and the longer
/// one continues with zero bits up to the end of the shorter one's last 7-bit group (all seven
/// bits for the empty string; no bits at all when the shorter length is a multiple of 7).
fn rn_trigger_alt(a: &[u8], b: &[u8]) -> bool {
    let (s, l) = match a.len().cmp(&b.len()) {
        Ordering::Less => (a, b),
        Ordering::Greater => (b, a),
        Ordering::Equal => return false,
    };
    if !l.starts_with(s) {
        return false;
    }
    let pad = if s.is_empty() { 7 } else { (7 - (8 * s.len()) % 7) % 7 };
    (0..pad).all(|i| {
        let pos = 8 * s.len() + i;
        (l[pos / 8] >> (7 - pos % 8)) & 1 == 0
    })
}

//////////////////////////////////////////// generators ////////////////////////////////////////////

fn int_range(ty: Ty) -> (i128, i128) {
    match ty {
        Ty::U32 => (0, u32::MAX as i128),
        Ty::U64 => (0, u64::MAX as i128),
        Ty::I32 => (i32::MIN as i128, i32::MAX as i128),
        Ty::I64 => (i64::MIN as i128, i64::MAX as i128),
        Ty::U8 => (0, u8::MAX as i128),
        Ty::U16 => (0, u16::MAX as i128),
        Ty::I8 => (i8::MIN as i128, i8::MAX as i128),
        Ty::I16 => (i16::MIN as i128, i16::MAX as i128),
        _ => (0, 0),
    }
}

fn int_val(ty: Ty, x: i128) -> Val {
    match ty {
        Ty::U32 => Val::U32(x as u32),
        Ty::U64 => Val::U64(x as u64),
        Ty::I32 => Val::I32(x as i32),
        Ty::I64 => Val::I64(x as i64),
        Ty::U8 => Val::U8(x as u8),
        Ty::U16 => Val::U16(x as u16),
        Ty::I8 => Val::I8(x as i8),
        Ty::I16 => Val::I16(x as i16),
        _ => Val::Unit,
    }
}

/// 0, ±1, ±2, ±2^(7k)+{-1,0,1}, ±2^(8k)+{-1,0,1}, MIN, MIN+1, MAX-1, MAX — restricted to the type.
fn boundaries(ty: Ty) -> Vec<i128> {
    let (lo, hi) = int_range(ty);
    let mut v: Vec<i128> = vec![0, 1, 2, -1, -2, lo, lo + 1, hi - 1, hi];
    let mut exps: Vec<u32> = (1..=9).map(|k| 7 * k).collect();
    exps.extend((1..=8).map(|k| 8 * k));
    exps.extend([15, 31, 63]);
    for e in exps {
        let p = 1i128 << e;
        for d in -1..=1 {
            v.push(p + d);
            v.push(-p + d);
        }
    }
    v.retain(|x| *x >= lo && *x <= hi);
    v.sort();
    v.dedup();
    v
}

fn int_strategy(ty: Ty) -> BoxedStrategy<i128> {
    let (lo, hi) = int_range(ty);
    let b = boundaries(ty);
    prop_oneof![
        5 => any::<u16>().prop_map(move |i| b[sel(i, b.len())]),
        2 => lo..=hi,
        2 => (any::<u64>(), 0u32..64, any::<bool>()).prop_map(move |(x, sh, neg)| {
            let m = (x >> sh) as i128;
            (if neg { -m - 1 } else { m }).clamp(lo, hi)
        }),
        1 => (-300i128..=300).prop_map(move |v| v.clamp(lo, hi)),
    ]
    .boxed()
}

/// A pair of integers of one type, correlated by construction.
fn int_pair(ty: Ty) -> BoxedStrategy<(Val, Val)> {
    let (lo, hi) = int_range(ty);
    let width = match ty {
        Ty::U8 | Ty::I8 => 8,
        Ty::U16 | Ty::I16 => 16,
        Ty::U32 | Ty::I32 => 32,
        _ => 64,
    };
    (int_strategy(ty), int_strategy(ty), 0u8..12, 0u32..64)
        .prop_map(move |(x, z, rel, bit)| {
            let y = match rel {
                0 => x,
                1 | 2 => x + 1,
                3 | 4 => x - 1,
                5 => x + 2,
                6 => -x,
                7 => -x - 1,
                8 => lo + (((x - lo) as u128) ^ (1u128 << (bit % width))) as i128,
                _ => z,
            };
            (int_val(ty, x), int_val(ty, y.clamp(lo, hi)))
        })
        .boxed()
}

fn char_unit() -> BoxedStrategy<char> {
    prop_oneof![
        3 => Just('\0'),
        2 => Just('\u{1}'),
        1 => Just('\u{2}'),
        3 => prop::char::range('a', 'c'),
        1 => Just('\u{7f}'),
        1 => Just('\u{80}'),
        1 => Just('\u{ff}'),
        1 => Just('\u{7ff}'),
        1 => Just('\u{800}'),
        1 => Just('\u{ffff}'),
        1 => Just('\u{10000}'),
        1 => Just('\u{10ffff}'),
        2 => any::<char>(),
        2 => prop::char::range(' ', '~'),
    ]
    .boxed()
}

fn byte_unit() -> BoxedStrategy<u8> {
    prop_oneof![
        4 => Just(0u8),
        2 => Just(1u8),
        4 => Just(0xffu8),
        1 => Just(0xfeu8),
        1 => Just(0x7fu8),
        1 => Just(0x80u8),
        2 => b'a'..=b'c',
        3 => any::<u8>(),
    ]
    .boxed()
}

/// A pair of sequences correlated by construction: equal, one a prefix of the other, differing in
/// the last unit only, differing after a common prefix, or independent.
fn seq_pair<T: Clone + std::fmt::Debug + 'static>(unit: BoxedStrategy<T>) -> BoxedStrategy<(Vec<T>, Vec<T>)> {
    let base = prop_oneof![
        10 => vec(unit.clone(), 0..=16),
        1 => vec(unit.clone(), 17..=70),
    ];
    (
        base,
        vec(unit.clone(), 0..=3),
        vec(unit.clone(), 0..=3),
        unit.clone(),
        unit.clone(),
        0u8..12,
        vec(unit.clone(), 0..=12),
        any::<bool>(),
    )
        .prop_map(|(base, ra, rb, c1, c2, rel, indep, swap)| {
            let cat = |parts: &[&[T]]| -> Vec<T> { parts.iter().flat_map(|p| p.iter().cloned()).collect() };
            let one = |c: &T| vec![c.clone()];
            let (a, b) = match rel {
                0 => (base.clone(), base.clone()),
                1 | 2 => (base.clone(), cat(&[&base, &one(&c1), &ra])),
                3 => (base.clone(), cat(&[&base, &ra])),
                4 | 5 => (cat(&[&base, &one(&c1)]), cat(&[&base, &one(&c2)])),
                6 => (cat(&[&base, &one(&c1), &ra]), cat(&[&base, &one(&c2), &rb])),
                7 => (cat(&[&base, &ra]), cat(&[&base, &rb])),
                8 => (cat(&[&base, &one(&c1)]), cat(&[&base, &one(&c1), &one(&c2)])),
                9 => (Vec::new(), cat(&[&one(&c1), &ra])),
                _ => (base, indep),
            };
            if swap { (b, a) } else { (a, b) }
        })
        .boxed()
}

fn val_pair(ty: Ty) -> BoxedStrategy<(Val, Val)> {
    match ty {
        Ty::Unit => Just((Val::Unit, Val::Unit)).boxed(),
        Ty::U32 | Ty::U64 | Ty::I32 | Ty::I64 | Ty::U8 | Ty::U16 | Ty::I8 | Ty::I16 => int_pair(ty),
        Ty::Str => seq_pair(char_unit())
            .prop_map(|(a, b)| (Val::Str(a.into_iter().collect()), Val::Str(b.into_iter().collect())))
            .boxed(),
        Ty::Bytes => seq_pair(byte_unit()).prop_map(|(a, b)| (Val::Bytes(a), Val::Bytes(b))).boxed(),
    }
}

fn field_strategy() -> BoxedStrategy<u32> {
    const EDGES: [u32; 14] = [7, 8, 15, 16, 1023, 1024, 18999, 20000, (1 << 17) - 1, 1 << 17, (1 << 24) - 1, 1 << 24, (1 << 29) - 2, (1 << 29) - 1];
    prop_oneof![
        5 => 1u32..8,
        3 => any::<u16>().prop_map(|i| EDGES[sel(i, EDGES.len())]),
        1 => 1u32..19000,
        1 => 20000u32..(1 << 29),
    ]
    .boxed()
}

fn ty_strategy(fmt: Fmt) -> BoxedStrategy<Ty> {
    match fmt {
        Fmt::Tk1 => prop_oneof![
            1 => Just(Ty::Unit),
            2 => Just(Ty::U32),
            2 => Just(Ty::U64),
            2 => Just(Ty::I32),
            2 => Just(Ty::I64),
            5 => Just(Ty::Str),
        ]
        .boxed(),
        Fmt::Tk2 => prop_oneof![
            1 => Just(Ty::Unit),
            2 => Just(Ty::U32),
            2 => Just(Ty::U64),
            2 => Just(Ty::I32),
            2 => Just(Ty::I64),
            3 => Just(Ty::Str),
            4 => Just(Ty::Bytes),
            1 => Just(Ty::U8),
            1 => Just(Ty::U16),
            1 => Just(Ty::I8),
            1 => Just(Ty::I16),
        ]
        .boxed(),
    }
}

fn col_strategy(fmt: Fmt) -> BoxedStrategy<Col> {
    match fmt {
        Fmt::Tk1 => (ty_strategy(fmt), any::<bool>(), field_strategy()).prop_map(|(ty, desc, field)| Col { ty, desc, field }).boxed(),
        Fmt::Tk2 => ty_strategy(fmt).prop_map(|ty| Col { ty, desc: false, field: 0 }).boxed(),
    }
}

fn schema_strategy(fmt: Fmt, min: usize, max: usize) -> BoxedStrategy<Vec<Col>> {
    vec(col_strategy(fmt), min..=max).boxed()
}

/// Schema followed by one correlated pair per column.
fn schema_and_pairs(schema: BoxedStrategy<Vec<Col>>) -> BoxedStrategy<(Vec<Col>, Vec<(Val, Val)>)> {
    schema
        .prop_flat_map(|schema| {
            let pairs: Vec<BoxedStrategy<(Val, Val)>> = schema.iter().map(|c| val_pair(c.ty)).collect();
            (Just(schema), pairs)
        })
        .boxed()
}

/// `a` takes the first component everywhere; `b` shares `a`'s first `p` elements and takes the
/// second (correlated) component afterwards.
fn split_pairs(pairs: &[(Val, Val)], p: usize) -> (Vec<Val>, Vec<Val>) {
    let a: Vec<Val> = pairs.iter().map(|x| x.0.clone()).collect();
    let b: Vec<Val> = pairs.iter().enumerate().map(|(i, x)| if i < p { x.0.clone() } else { x.1.clone() }).collect();
    (a, b)
}

///////////////////////////////////////////// labelling ////////////////////////////////////////////

fn bitlen(x: i128) -> u32 {
    // number of significant bits of the magnitude as the compact encoding sees it
    let m = if x < 0 { !x } else { x } as u128;
    128 - m.leading_zeros()
}

/// Labels describing the first differing element pair.
fn label_diff(o: &mut Outcome, c: &Col, x: &Val, y: &Val) {
    o.label(format!("diff:{}:{}", c.ty.name(), dir_name(c.desc)));
    if let (Some(p), Some(q)) = (x.int(), y.int()) {
        let (lo, hi) = int_range(c.ty);
        if (p - q).abs() == 1 {
            o.label("int:adjacent");
        }
        if (p < 0) != (q < 0) {
            o.label("int:sign-straddle");
        }
        if bitlen(p).div_ceil(8) != bitlen(q).div_ceil(8) {
            o.label("int:byte-length-straddle");
        }
        if bitlen(p).div_ceil(7) != bitlen(q).div_ceil(7) {
            o.label("int:7bit-length-straddle");
        }
        if [p, q].iter().any(|v| *v == lo || *v == hi) {
            o.label("int:min-or-max");
        }
    }
    if let (Some(p), Some(q)) = (x.seq(), y.seq()) {
        let common = p.iter().zip(q.iter()).take_while(|(a, b)| a == b).count();
        if p.is_empty() || q.is_empty() {
            o.label("seq:empty-vs-nonempty");
        }
        if common == p.len().min(q.len()) {
            o.label("seq:prefix-pair");
            if common % 7 == 0 || common % 7 == 6 {
                o.label("seq:prefix-pair-len-7k-or-7k-1");
            }
        } else if common > 0 {
            o.label("seq:common-prefix-then-differ");
        }
        if p.len() == q.len() && common + 1 == p.len() {
            o.label("seq:differ-in-last-byte-only");
        }
        if p.contains(&0) || q.contains(&0) {
            o.label("seq:has-nul");
        }
        if p.contains(&0xff) || q.contains(&0xff) {
            o.label("seq:has-0xff");
        }
    }
}

/// The non-trivial rule for comparisons.
fn interesting_diff(d: usize, x: &Val, y: &Val) -> bool {
    if d >= 1 {
        return true;
    }
    if let (Some(p), Some(q)) = (x.int(), y.int()) {
        return (p - q).abs() <= 2 || (p < 0) != (q < 0) || bitlen(p).div_ceil(7) != bitlen(q).div_ceil(7) || bitlen(p).div_ceil(8) != bitlen(q).div_ceil(8);
    }
    if let (Some(p), Some(q)) = (x.seq(), y.seq()) {
        let common = p.iter().zip(q.iter()).take_while(|(a, b)| a == b).count();
        return common > 0 || p.is_empty() || q.is_empty();
    }
    false
}

/////////////////////////////////////////// order checking /////////////////////////////////////////

/// Judge `cmp(ea, eb)` against the order of the equal-length tuples `a`, `b` (whose encodings, or
/// the encodings of extensions of them, `ea`/`eb` are).  `a != b` element-wise is not required.
/// Returns `false` when the case must not be examined further (failed or excluded).
#[allow(clippy::too_many_arguments)]
fn judge_order(fmt: Fmt, ctx: &Ctx, kind: &str, what: &str, schema: &[Col], a: &[Val], b: &[Val], ea: &[u8], eb: &[u8], o: &mut Outcome) -> bool {
    let (want, d) = cmp_tuple(schema, a, b);
    let got = ea.cmp(eb);
    if let Some(d) = d {
        let c = &schema[d];
        if fmt == Fmt::Tk1 && c.ty == Ty::Str && c.desc {
            let (x, y) = (a[d].seq().unwrap(), b[d].seq().unwrap());
            let trig = rn_trigger(x, y);
            if trig != rn_trigger_alt(x, y) {
                o.fail("harness:rn-predicate-mismatch", format!("the two statements of the R-N trigger disagree on {:?} / {:?}", a[d], b[d]));
                return false;
            }
            if trig {
                if !ctx.strict {
                    if !o.excluded.iter().any(|e| e == "R-N") {
                        o.excluded.push("R-N".into());
                    }
                    o.label(if got != want { "R-N:excluded-pair-sorts-wrong" } else { "R-N:excluded-pair-sorts-right" });
                    return false;
                }
                if got != want {
                    o.fail(
                        format!("{kind}:tuple_key:desc-string"),
                        format!(
                            "{what}: descending strings {:?} vs {:?} (column {d} of {}): tuples compare {want:?} but encodings compare {got:?}; a={} b={} enc(a)={} enc(b)={}",
                            a[d], b[d], show_schema(fmt, schema), show(a), show(b), hex(ea), hex(eb)
                        ),
                    );
                    return false;
                }
                return true;
            }
            o.label("desc-string-outside-R-N-trigger:asserted");
        }
    }
    if got != want {
        let sig = match d {
            Some(d) => format!("{kind}:{}:{}:{}", fmt.krate(), schema[d].ty.name(), dir_name(schema[d].desc)),
            None => format!("{kind}:{}:equal-tuples", fmt.krate()),
        };
        o.fail(
            sig,
            format!(
                "{what}: schema {} a={} b={}: tuples compare {want:?} (first difference at element {d:?}) but encodings compare {got:?}; enc(a)={} enc(b)={}",
                show_schema(fmt, schema), show(a), show(b), hex(ea), hex(eb)
            ),
        );
        return false;
    }
    true
}

///////////////////////////////////////////// order part ///////////////////////////////////////////

#[derive(Clone, Debug, Serialize, Deserialize)]
struct PairCase {
    schema: Vec<Col>,
    a: Vec<Val>,
    b: Vec<Val>,
}

struct Order {
    fmt: Fmt,
    /// Concentrate on descending tuple_key strings (validation of the R-N trigger predicate).
    desc_string_focus: bool,
}

impl Property for Order {
    type Case = PairCase;
    fn name(&self) -> String {
        if self.desc_string_focus { "tk1-order-desc-string".into() } else { format!("{}-order", self.fmt.short()) }
    }
    fn cases(&self, tier: Tier) -> u64 {
        if self.desc_string_focus { tier.pick(10_000, 250_000) } else { tier.pick(20_000, 500_000) }
    }
    fn strategy(&self, _: &Ctx) -> BoxedStrategy<PairCase> {
        let fmt = self.fmt;
        if self.desc_string_focus {
            // [0..2 arbitrary columns] ++ [descending string] ++ [0..2 arbitrary columns]; the tuples
            // share everything before the string column.
            let schema = (schema_strategy(fmt, 0, 2), field_strategy(), schema_strategy(fmt, 0, 2)).prop_map(|(mut pre, field, post)| {
                let at = pre.len();
                pre.push(Col { ty: Ty::Str, desc: true, field });
                pre.extend(post);
                (pre, at)
            });
            return schema
                .prop_flat_map(|(schema, at)| {
                    let pairs: Vec<BoxedStrategy<(Val, Val)>> = schema.iter().map(|c| val_pair(c.ty)).collect();
                    (Just(schema), pairs, Just(at))
                })
                .prop_map(|(schema, pairs, at)| {
                    let (a, b) = split_pairs(&pairs, at);
                    PairCase { schema, a, b }
                })
                .boxed();
        }
        (schema_and_pairs(schema_strategy(fmt, 1, 5)), any::<u16>())
            .prop_map(|((schema, pairs), p)| {
                // equal tuples only for the topmost selector values
                let p = sel(p, 16 * schema.len() + 1) / 16;
                let (a, b) = split_pairs(&pairs, p);
                PairCase { schema, a, b }
            })
            .boxed()
    }
    fn run(&self, ctx: &Ctx, c: &PairCase) -> Outcome {
        let mut o = Outcome::pass();
        let fmt = self.fmt;
        if !conforms(fmt, &c.schema, &c.a) || !conforms(fmt, &c.schema, &c.b) || c.a.len() != c.schema.len() || c.b.len() != c.schema.len() {
            o.inconclusive = true;
            o.label("malformed-case");
            return o;
        }
        let (_, d) = cmp_tuple(&c.schema, &c.a, &c.b);
        match d {
            Some(d) => {
                label_diff(&mut o, &c.schema[d], &c.a[d], &c.b[d]);
                o.label(format!("shared-prefix-elements:{}", d.min(3)));
                o.nontrivial = interesting_diff(d, &c.a[d], &c.b[d]);
            }
            None => o.label("equal-tuples"),
        }
        let ea = encode(fmt, &c.schema, &c.a);
        let eb = encode(fmt, &c.schema, &c.b);
        if !judge_order(fmt, ctx, "order", "enc(a) vs enc(b)", &c.schema, &c.a, &c.b, &ea, &eb, &mut o) {
            return o;
        }
        // the comparison exposed by the key type itself agrees with the byte comparison
        if fmt == Fmt::Tk1 {
            let (ka, kb) = (tk1_encode(&c.schema, &c.a), tk1_encode(&c.schema, &c.b));
            if ka.cmp(&kb) != ea.cmp(&eb) {
                o.fail("order:tuple_key:key-ord-differs-from-bytes", format!("TupleKey::cmp disagrees with the byte comparison for a={} b={}", show(&c.a), show(&c.b)));
            }
        } else {
            let (ka, kb) = (tuple_key2::TupleKey::from_bytes(ea.clone()), tuple_key2::TupleKey::from_bytes(eb.clone()));
            if ka.cmp(&kb) != ea.cmp(&eb) {
                o.fail("order:tuple_key2:key-ord-differs-from-bytes", format!("TupleKey::cmp disagrees with the byte comparison for a={} b={}", show(&c.a), show(&c.b)));
            }
        }
        o
    }
}

/// `enc(full[..m])` obtained by EXTENDING the already-built key of `full[..n]` through the crates'
/// own extension APIs instead of encoding the longer tuple from scratch:
///   tuple_key   `TupleKey::append` (whole suffix, and one element at a time, also onto a key
///               re-wrapped with `From<&[u8]>`), and `extend` / `extend_with_key` on the existing key;
///   tuple_key2  `TupleKeyBuilder::{extend, tuple_key}`, `TupleKey::builder_with_capacity` /
///               `TupleKeyBuilder::with_capacity`, `finish`, `as_bytes`, `From<TupleKeyBuilder>`,
///               `From<Vec<u8>>` + `TupleKey::append`.
/// Every variant must be byte-identical to `want` (the from-scratch encoding the order and
/// extension oracles are evaluated on), so keys made by these calls obey the same laws.  Returns
/// the key built by the first variant, or `None` after recording a failure.
fn extend_via_apis(fmt: Fmt, s: &[Col], full: &[Val], n: usize, m: usize, want: &[u8], o: &mut Outcome) -> Option<Vec<u8>> {
    let mut built: Vec<(&'static str, Vec<u8>)> = vec![];
    match fmt {
        Fmt::Tk1 => {
            let prefix = tk1_encode(&s[..n], &full[..n]);
            // whole suffix appended in one call
            let mut k = prefix.clone();
            let mut suffix = tk1_encode(&s[n..m], &full[n..m]);
            k.append(&mut suffix);
            // API behaviour the property does not name (whether `append` drains the other key, what
            // `len()` reports): observed and labelled, never a failure
            if !suffix.is_empty() {
                o.label("observed:tuple_key-append-leaves-other-key-non-empty");
            }
            if k.len() != k.as_bytes().len() {
                o.label("observed:tuple_key-len-differs-from-as_bytes");
            }
            built.push(("append", k.as_bytes().to_vec()));
            // one element per append, onto a key re-wrapped from its bytes
            let mut k = tuple_key::TupleKey::from(prefix.as_bytes());
            for i in n..m {
                let mut one = tk1_encode(&s[i..i + 1], &full[i..i + 1]);
                k.append(&mut one);
            }
            built.push(("append-elementwise", k.as_bytes().to_vec()));
            // extend / extend_with_key on the existing key
            let mut k = prefix.clone();
            tk1_extend(&mut k, &s[n..m], &full[n..m]);
            built.push(("extend-with-key", k.as_bytes().to_vec()));
            // appending nothing changes nothing
            let mut k2 = k.clone();
            k2.append(&mut tuple_key::TupleKey::default());
            built.push(("append-empty", k2.as_bytes().to_vec()));
        }
        Fmt::Tk2 => {
            let prefix = tuple_key2::TupleKey::from_bytes(tk2_encode(&full[..n]));
            let suffix = tuple_key2::TupleKey::from_bytes(tk2_encode(&full[n..m]));
            let b = tk2_push(tuple_key2::TupleKey::builder().extend(&prefix), &full[n..m]);
            if b.as_bytes() != want {
                built.push(("builder-extend:as_bytes", b.as_bytes().to_vec()));
            }
            built.push(("builder-extend", b.finish().into_bytes()));
            built.push(("builder-tuple_key", tuple_key2::TupleKey::builder().tuple_key(&prefix).tuple_key(&suffix).build().into_bytes()));
            let b = tk2_push(tuple_key2::TupleKey::builder_with_capacity(want.len()).tuple_key(&prefix), &full[n..m]);
            built.push(("builder_with_capacity+From<TupleKeyBuilder>", tuple_key2::TupleKey::from(b).into_bytes()));
            let b = tuple_key2::TupleKeyBuilder::with_capacity(1).extend(&tuple_key2::TupleKey::default()).extend(&prefix).extend(&suffix);
            built.push(("with_capacity+extend-extend", b.build().into_bytes()));
            let mut k = tuple_key2::TupleKey::from(prefix.as_bytes().to_vec());
            k.append(&suffix);
            if k.len() != k.as_bytes().len() || k.is_empty() != k.as_bytes().is_empty() {
                o.label("observed:tuple_key2-len-or-is_empty-differs-from-as_bytes");
            }
            built.push(("From<Vec<u8>>+append", k.into_bytes()));
        }
    }
    for (name, got) in built.iter() {
        if got != want {
            o.fail(
                format!("extension:{}:api-{name}-differs", fmt.krate()),
                format!(
                    "schema {} t={} extended by u={} through {name}: built {} but the from-scratch encoding of t++u is {}",
                    show_schema(fmt, &s[..m]), show(&full[..n]), show(&full[n..m]), hex(got), hex(want)
                ),
            );
            return None;
        }
    }
    Some(built.swap_remove(0).1)
}

/////////////////////////////////////////// extension part /////////////////////////////////////////

/// `t = a[..n]`, `u = a[n..]`, `t' = b[..n]`, `u' = b[n..]`.
#[derive(Clone, Debug, Serialize, Deserialize)]
struct ExtCase {
    schema: Vec<Col>,
    n: usize,
    a: Vec<Val>,
    b: Vec<Val>,
}

struct Extension {
    fmt: Fmt,
}

impl Property for Extension {
    type Case = ExtCase;
    fn name(&self) -> String {
        format!("{}-extension", self.fmt.short())
    }
    fn cases(&self, tier: Tier) -> u64 {
        tier.pick(15_000, 375_000)
    }
    fn strategy(&self, _: &Ctx) -> BoxedStrategy<ExtCase> {
        (schema_and_pairs(schema_strategy(self.fmt, 2, 6)), any::<u16>(), any::<u16>())
            .prop_map(|((schema, pairs), n, p)| {
                let len = schema.len();
                // t has 1..len-1 elements (so that u is non-empty), rarely 0 or len
                let n = match sel(n, 10 * (len - 1) + 2) {
                    0 => 0,
                    x if x == 10 * (len - 1) + 1 => len,
                    x => 1 + (x - 1) / 10,
                };
                // t and t' share p < n leading elements (p == n: equal, rare)
                let p = if n == 0 { 0 } else { sel(p, 16 * n + 1) / 16 };
                let (a, b) = split_pairs(&pairs, p);
                ExtCase { schema, n, a, b }
            })
            .boxed()
    }
    fn run(&self, ctx: &Ctx, c: &ExtCase) -> Outcome {
        let mut o = Outcome::pass();
        let fmt = self.fmt;
        let len = c.schema.len();
        if !conforms(fmt, &c.schema, &c.a) || !conforms(fmt, &c.schema, &c.b) || c.a.len() != len || c.b.len() != len || c.n > len {
            o.inconclusive = true;
            o.label("malformed-case");
            return o;
        }
        let n = c.n;
        let s = &c.schema;
        // (1) a tuple sorts strictly before each of its proper extensions
        for (full, who) in [(&c.a, "t"), (&c.b, "t'")] {
            let et = encode(fmt, s, &full[..n]);
            for m in n + 1..=len {
                let em = encode(fmt, s, &full[..m]);
                // the same key built through the extension APIs is byte-identical ...
                let Some(em) = extend_via_apis(fmt, s, full, n, m, &em, &mut o) else {
                    return o;
                };
                // ... and (so) obeys the extension law
                if !(et < em) || !em.starts_with(&et) {
                    o.fail(
                        format!("extension:{}:t-not-before-t++u", fmt.krate()),
                        format!("schema {} {who}={} extended to {}: enc(t)={} is not a proper prefix of / does not sort before enc(t++u)={}", show_schema(fmt, s), show(&full[..n]), show(&full[..m]), hex(&et), hex(&em)),
                    );
                    return o;
                }
            }
        }
        if n < len {
            o.label(format!("u-elements:{}", (len - n).min(3)));
            o.label(if n == 0 { "api-extended:from-empty-prefix" } else { "api-extended:from-non-empty-prefix" });
        }
        // (2) every extension of the smaller tuple sorts before the larger tuple and its extensions
        let (ord, d) = cmp_tuple(&s[..n], &c.a[..n], &c.b[..n]);
        let (lo, hi) = match ord {
            Ordering::Less => (&c.a, &c.b),
            Ordering::Greater => (&c.b, &c.a),
            Ordering::Equal => {
                o.label("t-equals-t'");
                if encode(fmt, s, &c.a[..n]) != encode(fmt, s, &c.b[..n]) {
                    o.fail(format!("extension:{}:equal-tuples", fmt.krate()), format!("equal tuples {} encode differently", show(&c.a[..n])));
                }
                return o;
            }
        };
        let d = d.unwrap();
        label_diff(&mut o, &s[d], &lo[d], &hi[d]);
        o.nontrivial = n < len && interesting_diff(d, &lo[d], &hi[d]);
        let ehi = encode(fmt, s, &hi[..n]);
        for m in n..=len {
            // t ++ u[..m-n] built by extending enc(t) through the APIs (identical to the from-scratch
            // encoding, asserted in (1) and again here)
            let elo = encode(fmt, s, &lo[..m]);
            let Some(elo) = extend_via_apis(fmt, s, lo, n, m, &elo, &mut o) else {
                return o;
            };
            let what = format!("t++u ({m} of {len} elements) vs t' ({n} elements)");
            if !judge_order(fmt, ctx, "extension", &what, &s[..n], &lo[..n], &hi[..n], &elo, &ehi, &mut o) {
                return o;
            }
        }
        let (elo, ehi) = (encode(fmt, s, lo), encode(fmt, s, hi));
        judge_order(fmt, ctx, "extension", "t++u vs t'++u'", &s[..n], &lo[..n], &hi[..n], &elo, &ehi, &mut o);
        o
    }
}

/// tuple_key2 integer families: the narrow builders are documented as "using the compact
/// (un)signed integer family", i.e. the encoding of the widened value, and the narrow parsers as
/// "the same errors as u64/i64 and ValueOutOfRange when the decoded value exceeds the type".  For a
/// value `x` of type `ty`: (a) every builder of the family whose type holds `x` produces the same
/// bytes; (b) every parser of the family returns `x` when it fits and `ValueOutOfRange{target}`
/// when it does not, consuming the whole element in the first case; (c) the parsers of the other
/// family answer `InvalidIntegerTag` (documented: "when the next byte is not a(n) (un)signed
/// integer tag").
fn tk2_width_check(ty: Ty, x: i128, o: &mut Outcome) -> bool {
    const UNSIGNED: [Ty; 4] = [Ty::U8, Ty::U16, Ty::U32, Ty::U64];
    const SIGNED: [Ty; 4] = [Ty::I8, Ty::I16, Ty::I32, Ty::I64];
    let (family, other) = if UNSIGNED.contains(&ty) { (UNSIGNED, SIGNED) } else { (SIGNED, UNSIGNED) };
    let enc = tk2_encode(&[int_val(ty, x)]);
    for t in family {
        let (lo, hi) = int_range(t);
        let fits = x >= lo && x <= hi;
        let col = [Col { ty: t, desc: false, field: 0 }];
        let (got, res, consumed) = tk2_decode(&col, &enc);
        if fits {
            let same = tk2_encode(&[int_val(t, x)]);
            if same != enc {
                o.fail(
                    format!("roundtrip:tuple_key2:width:{}-builder-differs-from-{}", t.name(), ty.name()),
                    format!("{x} encodes as {} through the {} builder but as {} through the {} builder", hex(&same), t.name(), hex(&enc), ty.name()),
                );
                return false;
            }
            if res.is_err() || got != [int_val(t, x)] || consumed != enc.len() {
                o.fail(
                    format!("roundtrip:tuple_key2:width:{}-parser-on-{}", t.name(), ty.name()),
                    format!("{x} built as {} ({}) parsed as {} gives {} / {res:?} (consumed {consumed})", ty.name(), hex(&enc), t.name(), show(&got)),
                );
                return false;
            }
            o.label("width:narrower-or-wider-parser-accepts");
        } else {
            let want = tuple_key2::Error::ValueOutOfRange { target: t.name() };
            if !got.is_empty() || res != Err(want.clone()) {
                o.fail(
                    format!("roundtrip:tuple_key2:width:{}-parser-must-reject", t.name()),
                    format!("{x} built as {} ({}) parsed as {} gives {} / {res:?}; documented: {want:?}", ty.name(), hex(&enc), t.name(), show(&got)),
                );
                return false;
            }
            o.label(format!("width:out-of-range-for-{}", t.name()));
        }
    }
    for t in other {
        let col = [Col { ty: t, desc: false, field: 0 }];
        let (got, res, _) = tk2_decode(&col, &enc);
        let want = tuple_key2::Error::InvalidIntegerTag { tag: enc[0] };
        if !got.is_empty() || res != Err(want.clone()) {
            o.fail(
                format!("roundtrip:tuple_key2:width:{}-parser-accepts-other-family", t.name()),
                format!("{x} built as {} ({}) parsed as {} gives {} / {res:?}; documented: {want:?}", ty.name(), hex(&enc), t.name(), show(&got)),
            );
            return false;
        }
    }
    true
}

/////////////////////////////////////////// round-trip part ////////////////////////////////////////

#[derive(Clone, Debug, Serialize, Deserialize)]
struct RtCase {
    schema: Vec<Col>,
    t: Vec<Val>,
}

struct Roundtrip {
    fmt: Fmt,
}

fn long_values(schema: &[Col]) -> Vec<BoxedStrategy<Val>> {
    schema
        .iter()
        .map(|c| match c.ty {
            // occasionally much longer strings than the pair generator makes
            Ty::Str => prop_oneof![
                6 => val_pair(Ty::Str).prop_map(|p| p.1),
                1 => vec(char_unit(), 60..=300).prop_map(|v| Val::Str(v.into_iter().collect())),
            ]
            .boxed(),
            Ty::Bytes => prop_oneof![
                6 => val_pair(Ty::Bytes).prop_map(|p| p.1),
                1 => vec(byte_unit(), 60..=400).prop_map(Val::Bytes),
            ]
            .boxed(),
            ty => val_pair(ty).prop_map(|p| p.1).boxed(),
        })
        .collect()
}

/// A `tuple_key::Schema` that is a chain: level i has exactly one child, column i named `c<i>`.
fn chain_schema(schema: &[Col], i: usize) -> tuple_key::Schema<usize> {
    if i == schema.len() {
        tuple_key::Schema::new(i, std::iter::empty())
    } else {
        let child = chain_schema(schema, i + 1);
        tuple_key::Schema::new(i, std::iter::once(((FieldNumber::must(schema[i].field), format!("c{i}")), child)))
    }
}

impl Property for Roundtrip {
    type Case = RtCase;
    fn name(&self) -> String {
        format!("{}-roundtrip", self.fmt.short())
    }
    fn cases(&self, tier: Tier) -> u64 {
        tier.pick(15_000, 375_000)
    }
    fn strategy(&self, _: &Ctx) -> BoxedStrategy<RtCase> {
        schema_strategy(self.fmt, 0, 6)
            .prop_flat_map(|schema| {
                let vals = long_values(&schema);
                (Just(schema), vals)
            })
            .prop_map(|(schema, t)| RtCase { schema, t })
            .boxed()
    }
    fn run(&self, _: &Ctx, c: &RtCase) -> Outcome {
        let mut o = Outcome::pass();
        let fmt = self.fmt;
        if !conforms(fmt, &c.schema, &c.t) || c.t.len() != c.schema.len() {
            o.inconclusive = true;
            o.label("malformed-case");
            return o;
        }
        o.nontrivial = c.t.len() >= 2 && c.t.iter().any(|v| v.ty() != Ty::Unit);
        for (col, v) in c.schema.iter().zip(c.t.iter()) {
            o.label(format!("elem:{}:{}", col.ty.name(), dir_name(col.desc)));
            if let Some(s) = v.seq() {
                if s.is_empty() {
                    o.label("seq:empty");
                }
                if s.contains(&0) {
                    o.label("seq:has-nul");
                }
                if s.contains(&0xff) {
                    o.label("seq:has-0xff");
                }
                if s.len() >= 60 {
                    o.label("seq:long");
                }
            }
            if let Some(x) = v.int() {
                if boundaries(col.ty).binary_search(&x).is_ok() {
                    o.label("int:boundary");
                }
            }
        }
        match fmt {
            Fmt::Tk1 => {
                let key = tk1_encode(&c.schema, &c.t);
                let (got, res) = tk1_decode(&c.schema, &key, true);
                if let Err(e) = &res {
                    o.fail("roundtrip:tuple_key:parse-error", format!("schema {} t={}: parsing enc(t)={} failed after {} elements: {e}", show_schema(fmt, &c.schema), show(&c.t), hex(key.as_bytes()), got.len()));
                    return o;
                }
                if got != c.t {
                    o.fail("roundtrip:tuple_key:value-differs", format!("schema {} t={} decoded as {} from {}", show_schema(fmt, &c.schema), show(&c.t), show(&got), hex(key.as_bytes())));
                    return o;
                }
                // the same bytes wrapped again parse the same
                let again = tuple_key::TupleKey::from(key.as_bytes());
                if again != key || tk1_decode(&c.schema, &again, true).0 != c.t {
                    o.fail("roundtrip:tuple_key:from-bytes", "TupleKey::from(bytes) differs from the built key".to_string());
                    return o;
                }
                // the element iterator yields tag and value per element and covers the key exactly
                let items: Vec<&[u8]> = key.iter().collect();
                if items.len() != 2 * c.t.len() || items.concat() != key.as_bytes() {
                    o.fail("roundtrip:tuple_key:iterator", format!("TupleKeyIterator yields {} items for {} elements of {}", items.len(), c.t.len(), hex(key.as_bytes())));
                    return o;
                }
                // the schema walker (`Schema::args_for_key / lookup`, `conforms_to`) is API surface
                // the property does not name: compared with the tuple, but only labelled
                let sch = chain_schema(&c.schema, 0);
                let mut want_args: Vec<String> = vec![];
                for (i, v) in c.t.iter().enumerate() {
                    want_args.push(format!("--c{i}"));
                    match v {
                        Val::Unit => {}
                        Val::Str(s) => want_args.push(s.clone()),
                        v => want_args.push(v.int().unwrap().to_string()),
                    }
                }
                match sch.args_for_key(&key) {
                    Ok(args) if args == want_args => o.label("observed:schema-args-agree"),
                    _ => o.label("observed:schema-args-differ-from-the-tuple"),
                }
                if sch.lookup(&key).ok() != Some(&c.t.len()) || !key.conforms_to(&sch) {
                    o.label("observed:schema-lookup-does-not-reach-the-leaf");
                }
            }
            Fmt::Tk2 => {
                let bytes = tk2_encode(&c.t);
                let (got, res, consumed) = tk2_decode(&c.schema, &bytes);
                if let Err(e) = &res {
                    o.fail("roundtrip:tuple_key2:parse-error", format!("schema {} t={}: parsing enc(t)={} failed after {} elements: {e}", show_schema(fmt, &c.schema), show(&c.t), hex(&bytes), got.len()));
                    return o;
                }
                if got != c.t || consumed != bytes.len() {
                    o.fail("roundtrip:tuple_key2:value-differs", format!("schema {} t={} decoded as {} from {}", show_schema(fmt, &c.schema), show(&c.t), show(&got), hex(&bytes)));
                    return o;
                }
                // every integer element: all builders / parsers of its family, and the other family
                for v in c.t.iter() {
                    if let Some(x) = v.int() {
                        if !tk2_width_check(v.ty(), x, &mut o) {
                            return o;
                        }
                    }
                }
                // concatenation of the encodings of a split == the encoding of the whole
                for cut in 0..=c.t.len() {
                    let mut k = tuple_key2::TupleKey::from_bytes(tk2_encode(&c.t[..cut]));
                    k.append(&tuple_key2::TupleKey::from_bytes(tk2_encode(&c.t[cut..])));
                    if k.as_bytes() != &bytes[..] {
                        o.fail("roundtrip:tuple_key2:append", format!("append of the halves split at {cut} differs from the whole for t={}", show(&c.t)));
                        return o;
                    }
                }
            }
        }
        o
    }
}

//////////////////////////////////////// decode-arbitrary part /////////////////////////////////////

#[derive(Clone, Debug, Serialize, Deserialize)]
enum Mutn {
    Flip { pos: u16, bit: u8 },
    Set { pos: u16, byte: u8 },
    Insert { pos: u16, byte: u8 },
    Delete { pos: u16 },
    Truncate { pos: u16 },
    Append { bytes: Vec<u8> },
}

#[derive(Clone, Debug, Serialize, Deserialize)]
struct DecCase {
    schema: Vec<Col>,
    /// a valid tuple of the schema (the bytes start as its encoding unless `raw` is used)
    base: Vec<Val>,
    raw: Option<Vec<u8>>,
    muts: Vec<Mutn>,
}

struct Decode {
    fmt: Fmt,
}

fn apply_muts(mut b: Vec<u8>, muts: &[Mutn]) -> Vec<u8> {
    for m in muts {
        match m {
            Mutn::Flip { pos, bit } if !b.is_empty() => {
                let i = sel(*pos, b.len());
                b[i] ^= 1 << (bit % 8);
            }
            Mutn::Set { pos, byte } if !b.is_empty() => {
                let i = sel(*pos, b.len());
                b[i] = *byte;
            }
            Mutn::Insert { pos, byte } => {
                let i = sel(*pos, b.len() + 1);
                b.insert(i, *byte);
            }
            Mutn::Delete { pos } if !b.is_empty() => {
                let i = sel(*pos, b.len());
                b.remove(i);
            }
            Mutn::Truncate { pos } => {
                let i = sel(*pos, b.len() + 1);
                b.truncate(i);
            }
            Mutn::Append { bytes } => b.extend_from_slice(bytes),
            _ => {}
        }
    }
    b
}

fn special_byte() -> BoxedStrategy<u8> {
    prop_oneof![
        3 => Just(0u8),
        2 => Just(0xffu8),
        1 => Just(0xfeu8),
        1 => Just(1u8),
        4 => 0x10u8..=0x2c,
        4 => any::<u8>(),
    ]
    .boxed()
}

fn mut_strategy() -> BoxedStrategy<Mutn> {
    prop_oneof![
        3 => (any::<u16>(), 0u8..8).prop_map(|(pos, bit)| Mutn::Flip { pos, bit }),
        2 => (any::<u16>(), special_byte()).prop_map(|(pos, byte)| Mutn::Set { pos, byte }),
        2 => (any::<u16>(), special_byte()).prop_map(|(pos, byte)| Mutn::Insert { pos, byte }),
        2 => any::<u16>().prop_map(|pos| Mutn::Delete { pos }),
        2 => any::<u16>().prop_map(|pos| Mutn::Truncate { pos }),
        1 => vec(special_byte(), 1..4).prop_map(|bytes| Mutn::Append { bytes }),
    ]
    .boxed()
}

impl Property for Decode {
    type Case = DecCase;
    fn name(&self) -> String {
        format!("{}-decode-arbitrary", self.fmt.short())
    }
    fn cases(&self, tier: Tier) -> u64 {
        tier.pick(20_000, 500_000)
    }
    fn strategy(&self, _: &Ctx) -> BoxedStrategy<DecCase> {
        schema_strategy(self.fmt, 0, 5)
            .prop_flat_map(|schema| {
                let vals = long_values(&schema);
                (
                    Just(schema),
                    vals,
                    prop::option::weighted(0.3, vec(special_byte(), 0..40)),
                    prop_oneof![1 => Just(vec![]), 6 => vec(mut_strategy(), 1..=3)],
                )
            })
            .prop_map(|(schema, base, raw, muts)| DecCase { schema, base, raw, muts })
            .boxed()
    }
    fn run(&self, _: &Ctx, c: &DecCase) -> Outcome {
        let mut o = Outcome::pass();
        let fmt = self.fmt;
        if !conforms(fmt, &c.schema, &c.base) || c.base.len() != c.schema.len() {
            o.inconclusive = true;
            o.label("malformed-case");
            return o;
        }
        let start = match &c.raw {
            Some(r) => r.clone(),
            None => encode(fmt, &c.schema, &c.base),
        };
        let bytes = apply_muts(start.clone(), &c.muts);
        let untouched = c.raw.is_none() && bytes == start;
        o.label(if c.raw.is_some() { "input:arbitrary-bytes" } else if untouched { "input:valid-encoding" } else { "input:damaged-valid-encoding" });
        match fmt {
            Fmt::Tk1 => {
                let key = tuple_key::TupleKey::from(&bytes[..]);
                let (got, res) = tk1_decode(&c.schema, &key, false);
                o.label(if res.is_ok() { "result:ok".to_string() } else { format!("result:err-after-{}-elements", got.len().min(3)) });
                o.nontrivial = !bytes.is_empty() && (!got.is_empty() || c.raw.is_none());
                if untouched && (res.is_err() || got != c.base) {
                    o.fail("decode:tuple_key:valid-encoding-rejected", format!("valid encoding of {} parsed as {} / {res:?}", show(&c.base), show(&got)));
                    return o;
                }
                // every other public decoder: must return, whatever it returns
                let items: Vec<&[u8]> = key.iter().collect();
                if items.concat() != bytes {
                    o.fail("decode:tuple_key:iterator-loses-bytes", format!("TupleKeyIterator over {} does not cover the input", hex(&bytes)));
                    return o;
                }
                let mut p = tuple_key::TupleKeyParser::new(&key);
                let _ = p.peek_next();
                let _ = p.parse_next(FieldNumber::must(1), tuple_key::Direction::Forward);
                let _ = p.peek_next();
                use tuple_key::Element;
                let _ = <()>::parse_from(&bytes);
                let _ = u32::parse_from(&bytes);
                let _ = u64::parse_from(&bytes);
                let _ = i32::parse_from(&bytes);
                let _ = i64::parse_from(&bytes);
                let _ = String::parse_from(&bytes);
                if !c.schema.is_empty() {
                    let sch = chain_schema(&c.schema, 0);
                    let _ = sch.args_for_key(&key);
                    let _ = sch.lookup(&key);
                    let _ = sch.is_terminal(&key);
                    let _ = key.conforms_to(&sch);
                }
                let _ = tuple_key::TupleKeyIterator::number_of_elements_in_common_prefix(key.iter(), tuple_key::TupleKeyIterator::from(&start[..]));
            }
            Fmt::Tk2 => {
                let (got, res, consumed) = tk2_decode(&c.schema, &bytes);
                o.label(match &res {
                    Ok(()) => "result:ok".to_string(),
                    Err(e) => format!("result:{}", format!("{e:?}").split([' ', '{', '(']).next().unwrap_or("err")),
                });
                o.nontrivial = !bytes.is_empty() && (!got.is_empty() || c.raw.is_none());
                if untouched && (res.is_err() || got != c.base) {
                    o.fail("decode:tuple_key2:valid-encoding-rejected", format!("valid encoding of {} parsed as {} / {res:?}", show(&c.base), show(&got)));
                    return o;
                }
                // The documented format is canonical (shortest integers, one escape, one terminator):
                // whatever the parser accepts re-encodes to exactly the bytes it consumed.  Together
                // with order preservation this is what makes decoded values sort like their keys.
                if consumed > bytes.len() || tk2_encode(&got) != bytes[..consumed] {
                    o.fail(
                        "decode:tuple_key2:accepted-bytes-not-canonical",
                        format!("schema {}: parser accepted {} from the first {consumed} bytes of {}, which re-encode as {}", show_schema(fmt, &c.schema), show(&got), hex(&bytes), hex(&tk2_encode(&got))),
                    );
                    return o;
                }
                let _ = tuple_key2::boundary_candidates(&bytes);
                let _ = tuple_key2::TupleKey::from_bytes(bytes.clone()).boundary_candidates();
            }
        }
        o
    }
}

//////////////////////////////////////////// derive part ///////////////////////////////////////////

#[derive(Clone, Debug, Eq, PartialEq, TypedTupleKey)]
struct D1 {
    #[tuple_key(1)]
    name: String,
    #[tuple_key(2)]
    #[reverse]
    ts: i64,
    #[tuple_key(3)]
    n: u32,
}

#[derive(Clone, Debug, Eq, PartialEq, TypedTupleKey)]
struct D2 {
    #[tuple_key(8)]
    #[reverse]
    s: String,
    #[tuple_key(1024)]
    u: (),
    // attribute order swapped on purpose: `#[reverse]` before `#[tuple_key(n)]`
    #[reverse]
    #[tuple_key(7)]
    x: u64,
    #[tuple_key(3)]
    y: i32,
}

#[derive(Clone, Debug, Eq, PartialEq, TypedTupleKey)]
struct D3 {
    #[tuple_key(20000)]
    #[reverse]
    a: i32,
    #[tuple_key(20000)]
    #[reverse]
    b: u32,
    #[tuple_key(1)]
    c: i64,
    #[tuple_key(1)]
    d: u64,
    #[tuple_key(2)]
    e: String,
}

/// A struct with a descending unit field.
#[derive(Clone, Debug, Eq, PartialEq, TypedTupleKey)]
struct D4 {
    #[tuple_key(5)]
    #[reverse]
    u: (),
    #[tuple_key(6)]
    x: u32,
}

const fn col(ty: Ty, desc: bool, field: u32) -> Col {
    Col { ty, desc, field }
}

const D_SCHEMAS: [&[Col]; 4] = [
    &[col(Ty::Str, false, 1), col(Ty::I64, true, 2), col(Ty::U32, false, 3)],
    &[col(Ty::Str, true, 8), col(Ty::Unit, false, 1024), col(Ty::U64, true, 7), col(Ty::I32, false, 3)],
    &[col(Ty::I32, true, 20000), col(Ty::U32, true, 20000), col(Ty::I64, false, 1), col(Ty::U64, false, 1), col(Ty::Str, false, 2)],
    &[col(Ty::Unit, true, 5), col(Ty::U32, false, 6)],
];

/// Encode through the derived `Into<TupleKey>` and decode through the derived `TryFrom`.
fn derive_roundtrip(which: usize, t: &[Val]) -> Option<(Vec<u8>, Result<Vec<Val>, String>)> {
    fn rt<T: tuple_key::TypedTupleKey + Clone>(x: T, back: impl Fn(T) -> Vec<Val>) -> (Vec<u8>, Result<Vec<Val>, String>)
    where
        <T as TryFrom<tuple_key::TupleKey>>::Error: std::fmt::Debug,
    {
        let key: tuple_key::TupleKey = x.into();
        let bytes = key.as_bytes().to_vec();
        (bytes, T::try_from(key).map(back).map_err(|e| format!("{e:?}")))
    }
    Some(match (which, t) {
        (0, [Val::Str(name), Val::I64(ts), Val::U32(n)]) => rt(D1 { name: name.clone(), ts: *ts, n: *n }, |d| vec![Val::Str(d.name), Val::I64(d.ts), Val::U32(d.n)]),
        (1, [Val::Str(s), Val::Unit, Val::U64(x), Val::I32(y)]) => rt(D2 { s: s.clone(), u: (), x: *x, y: *y }, |d| vec![Val::Str(d.s), Val::Unit, Val::U64(d.x), Val::I32(d.y)]),
        (2, [Val::I32(a), Val::U32(b), Val::I64(c), Val::U64(d), Val::Str(e)]) => {
            rt(D3 { a: *a, b: *b, c: *c, d: *d, e: e.clone() }, |d| vec![Val::I32(d.a), Val::U32(d.b), Val::I64(d.c), Val::U64(d.d), Val::Str(d.e)])
        }
        (3, [Val::Unit, Val::U32(x)]) => rt(D4 { u: (), x: *x }, |d| vec![Val::Unit, Val::U32(d.x)]),
        _ => return None,
    })
}

#[derive(Clone, Debug, Serialize, Deserialize)]
struct DeriveCase {
    which: usize,
    a: Vec<Val>,
    b: Vec<Val>,
}

struct Derive;

impl Property for Derive {
    type Case = DeriveCase;
    fn name(&self) -> String {
        "tk1-derive".into()
    }
    fn cases(&self, tier: Tier) -> u64 {
        tier.pick(8_000, 200_000)
    }
    fn strategy(&self, _: &Ctx) -> BoxedStrategy<DeriveCase> {
        (0usize..D_SCHEMAS.len())
            .prop_flat_map(|which| {
                let schema = D_SCHEMAS[which].to_vec();
                (Just(which), schema_and_pairs(Just(schema).boxed()), any::<u16>())
            })
            .prop_map(|(which, (schema, pairs), p)| {
                let p = sel(p, 16 * schema.len() + 1) / 16;
                let (a, b) = split_pairs(&pairs, p);
                DeriveCase { which, a, b }
            })
            .boxed()
    }
    fn run(&self, ctx: &Ctx, c: &DeriveCase) -> Outcome {
        let mut o = Outcome::pass();
        let fmt = Fmt::Tk1;
        let Some(schema) = D_SCHEMAS.get(c.which) else {
            o.inconclusive = true;
            return o;
        };
        let (Some((ea, ra)), Some((eb, rb))) = (derive_roundtrip(c.which, &c.a), derive_roundtrip(c.which, &c.b)) else {
            o.inconclusive = true;
            o.label("malformed-case");
            return o;
        };
        o.label(format!("struct:D{}", c.which + 1));
        o.nontrivial = c.a != c.b;
        // A `#[reverse]` unit field (struct D4) is written with a forward tag by `TupleKey::extend`;
        // the derived TryFrom must parse it back (finding R-N2, repaired upstream).
        let reverse_unit = schema.iter().any(|c| c.ty == Ty::Unit && c.desc);
        if reverse_unit {
            o.label("struct-with-reverse-unit-field");
        }
        for (t, e, r) in [(&c.a, &ea, &ra), (&c.b, &eb, &rb)] {
            match r {
                Ok(back) if back == t => {}
                other => {
                    let sig = if reverse_unit { "roundtrip:tuple_key_derive:reverse-unit" } else { "roundtrip:tuple_key_derive" };
                    o.fail(sig, format!("struct D{} {} -> {} -> {:?}", c.which + 1, show(t), hex(e), other));
                    return o;
                }
            }
        }
        // the derived encoding sorts like the tuple
        let (_, d) = cmp_tuple(schema, &c.a, &c.b);
        if let Some(d) = d {
            label_diff(&mut o, &schema[d], &c.a[d], &c.b[d]);
        }
        judge_order(fmt, ctx, "order", "derived Into<TupleKey>", schema, &c.a, &c.b, &ea, &eb, &mut o);
        o
    }
}


//////////////////////////////////////// derive-decode part ////////////////////////////////////////

/// What the derived `TryFrom<TupleKey>` of struct `which` makes of `bytes`: `Err(text)`, or the
/// accepted value as a tuple, its re-encoding through the derived `Into<TupleKey>`, and what the
/// derived `TryFrom` makes of that re-encoding.
#[allow(clippy::type_complexity)]
fn derive_decode(which: usize, bytes: &[u8]) -> Option<Result<(Vec<Val>, Vec<u8>, Result<Vec<Val>, String>), String>> {
    fn dd<T: tuple_key::TypedTupleKey + Clone>(bytes: &[u8], back: impl Fn(T) -> Vec<Val>) -> Result<(Vec<Val>, Vec<u8>, Result<Vec<Val>, String>), String>
    where
        <T as TryFrom<tuple_key::TupleKey>>::Error: std::fmt::Debug,
    {
        match T::try_from(tuple_key::TupleKey::from(bytes)) {
            Err(e) => Err(format!("{e:?}")),
            Ok(v) => {
                let vals = back(v.clone());
                let again: tuple_key::TupleKey = v.into();
                let b2 = again.as_bytes().to_vec();
                Ok((vals, b2, T::try_from(again).map(&back).map_err(|e| format!("{e:?}"))))
            }
        }
    }
    Some(match which {
        0 => dd(bytes, |d: D1| vec![Val::Str(d.name), Val::I64(d.ts), Val::U32(d.n)]),
        1 => dd(bytes, |d: D2| vec![Val::Str(d.s), Val::Unit, Val::U64(d.x), Val::I32(d.y)]),
        2 => dd(bytes, |d: D3| vec![Val::I32(d.a), Val::U32(d.b), Val::I64(d.c), Val::U64(d.d), Val::Str(d.e)]),
        3 => dd(bytes, |d: D4| vec![Val::Unit, Val::U32(d.x)]),
        _ => return None,
    })
}

/// The columns the derived code reads and writes: as declared, except that unit fields are always
/// tagged Forward (`Into` writes them with `TupleKey::extend`; see R-N2).
fn derive_effective_schema(which: usize) -> Vec<Col> {
    D_SCHEMAS[which].iter().map(|c| if c.ty == Ty::Unit { Col { desc: false, ..*c } } else { *c }).collect()
}

#[derive(Clone, Debug, Serialize, Deserialize)]
struct DeriveDecCase {
    which: usize,
    /// a valid value of struct `which`; the bytes start as its derived encoding unless `raw` is used
    base: Vec<Val>,
    /// further well-formed elements appended after the struct's last field
    tail_schema: Vec<Col>,
    tail: Vec<Val>,
    raw: Option<Vec<u8>>,
    muts: Vec<Mutn>,
}

struct DeriveDecode;

impl Property for DeriveDecode {
    type Case = DeriveDecCase;
    fn name(&self) -> String {
        "tk1-derive-decode".into()
    }
    fn cases(&self, tier: Tier) -> u64 {
        tier.pick(10_000, 250_000)
    }
    fn strategy(&self, _: &Ctx) -> BoxedStrategy<DeriveDecCase> {
        let tail = prop_oneof![
            3 => Just((vec![], vec![])).boxed(),
            1 => schema_strategy(Fmt::Tk1, 1, 2)
                .prop_flat_map(|schema| {
                    let vals = long_values(&schema);
                    (Just(schema), vals)
                })
                .boxed(),
        ];
        ((0usize..D_SCHEMAS.len()), tail)
            .prop_flat_map(|(which, (tail_schema, tail))| {
                (
                    Just(which),
                    long_values(D_SCHEMAS[which]),
                    Just(tail_schema),
                    Just(tail),
                    prop::option::weighted(0.15, vec(special_byte(), 0..40)),
                    prop_oneof![1 => Just(vec![]), 5 => vec(mut_strategy(), 1..=3)],
                )
            })
            .prop_map(|(which, base, tail_schema, tail, raw, muts)| DeriveDecCase { which, base, tail_schema, tail, raw, muts })
            .boxed()
    }
    fn run(&self, _: &Ctx, c: &DeriveDecCase) -> Outcome {
        let mut o = Outcome::pass();
        let fmt = Fmt::Tk1;
        if c.which >= D_SCHEMAS.len() || !conforms(fmt, &c.tail_schema, &c.tail) || c.tail.len() != c.tail_schema.len() {
            o.inconclusive = true;
            o.label("malformed-case");
            return o;
        }
        let Some((valid, _)) = derive_roundtrip(c.which, &c.base) else {
            o.inconclusive = true;
            o.label("malformed-case");
            return o;
        };
        o.label(format!("struct:D{}", c.which + 1));
        let eff = derive_effective_schema(c.which);
        let start = match &c.raw {
            Some(r) => r.clone(),
            None => {
                let mut b = valid.clone();
                b.extend_from_slice(tk1_encode(&c.tail_schema, &c.tail).as_bytes());
                b
            }
        };
        let bytes = apply_muts(start.clone(), &c.muts);
        let undamaged = c.raw.is_none() && bytes == start;
        o.label(match (&c.raw, undamaged, c.tail.is_empty()) {
            (Some(_), _, _) => "input:arbitrary-bytes",
            (None, true, true) => "input:valid-encoding",
            (None, true, false) => "input:valid-encoding-plus-trailing-elements",
            (None, false, true) => "input:damaged-valid-encoding",
            (None, false, false) => "input:damaged-valid-encoding-plus-trailing-elements",
        });
        // the hand-driven parser over the same columns, as the reference for what the bytes hold
        let key = tuple_key::TupleKey::from(&bytes[..]);
        let (got, res) = tk1_decode(&eff, &key, false);
        let all_parsed = got.len() == eff.len();
        o.nontrivial = !bytes.is_empty() && (c.raw.is_none() || !got.is_empty());
        // (a panic inside the derived code is caught by the runner and reported as panic@<site>)
        let Some(derived) = derive_decode(c.which, &bytes) else {
            o.inconclusive = true;
            return o;
        };
        let ctxt = |what: &str| format!("struct D{} on {} ({what}); hand-driven parser over the same columns: {} / {res:?}", c.which + 1, hex(&bytes), show(&got));
        match &derived {
            Ok((vals, again_bytes, again)) => {
                o.label("result:ok");
                if !all_parsed || *vals != got {
                    o.fail(
                        "decode:tuple_key_derive:accepts-what-the-parser-does-not",
                        ctxt(&format!("derived TryFrom returned {}", show(vals))),
                    );
                    return o;
                }
                // the accepted value is a proper value: its own encoding is the from-scratch encoding
                // of its fields and parses back to it
                let scratch = tk1_encode(&eff, vals);
                if again_bytes != scratch.as_bytes() || again.as_ref() != Ok(vals) {
                    o.fail(
                        "decode:tuple_key_derive:accepted-value-does-not-re-encode",
                        ctxt(&format!("accepted {} re-encodes as {} (from scratch: {}) and that parses as {again:?}", show(vals), hex(again_bytes), hex(scratch.as_bytes()))),
                    );
                    return o;
                }
                if res.is_err() {
                    // Nothing documents that the derived TryFrom consumes the whole key (the generated
                    // code never looks past the last field), so this is recorded, not asserted.
                    o.label("ok:trailing-elements-accepted(undocumented,not-asserted)");
                }
                if !bytes.starts_with(again_bytes) {
                    o.label("ok:accepted-input-is-not-the-canonical-encoding");
                }
                if !undamaged {
                    o.label("ok:from-damaged-or-arbitrary-input");
                }
            }
            Err(e) => {
                o.label(format!("result:err-after-{}-elements", got.len().min(4)));
                if all_parsed && res.is_ok() {
                    o.fail(
                        "decode:tuple_key_derive:rejects-a-key-holding-exactly-its-fields",
                        ctxt(&format!("derived TryFrom returned Err({e})")),
                    );
                    return o;
                }
                if all_parsed {
                    o.label("err:only-because-of-trailing-elements");
                }
            }
        }
        if undamaged {
            match &derived {
                Ok((vals, _, _)) if *vals == c.base => {}
                Ok((vals, _, _)) => {
                    o.fail("decode:tuple_key_derive:valid-encoding-decoded-differently", ctxt(&format!("value {} decoded as {}", show(&c.base), show(vals))));
                }
                Err(e) if c.tail.is_empty() => {
                    o.fail("decode:tuple_key_derive:valid-encoding-rejected", ctxt(&format!("value {}: Err({e})", show(&c.base))));
                }
                Err(_) => {}
            }
        }
        o
    }
}


////////////////////////////////// exhaustive R-N characterisation /////////////////////////////////

/// Bounded-exhaustive validation of the R-N trigger predicate: every ordered pair
/// `(p^k ++ x, p^k ++ y)` with `x`, `y` over all strings of length <= 3 from a five-letter
/// alphabet and a common prefix of `k` in 0..=8 copies of one letter (so every alignment of the
/// 7-bit chunking occurs), encoded as one descending `tuple_key` string.  Oracle: a pair outside
/// the trigger must sort correctly (violation otherwise); inside the trigger it is excluded like
/// everywhere else, and whether it really sorts wrong is recorded as a label.
struct RnExhaustive;

#[derive(Clone, Debug, Serialize, Deserialize)]
struct RnCase {
    a: String,
    b: String,
}

const RN_ALPHABET: [char; 5] = ['\0', '\u{1}', '\u{2}', '@', '\u{80}'];

fn rn_strings() -> Vec<String> {
    let mut out = vec![String::new()];
    let mut frontier = vec![String::new()];
    for _ in 0..3 {
        let mut next = vec![];
        for s in frontier.iter() {
            for c in RN_ALPHABET {
                let mut t = s.clone();
                t.push(c);
                next.push(t);
            }
        }
        out.extend(next.iter().cloned());
        frontier = next;
    }
    out
}

impl RnExhaustive {
    fn judge(&self, ctx: &Ctx, c: &RnCase) -> Outcome {
        let mut o = Outcome::pass();
        let schema = [Col { ty: Ty::Str, desc: true, field: 1 }];
        let (a, b) = ([Val::Str(c.a.clone())], [Val::Str(c.b.clone())]);
        let (ea, eb) = (encode(Fmt::Tk1, &schema, &a), encode(Fmt::Tk1, &schema, &b));
        o.nontrivial = c.a != c.b;
        judge_order(Fmt::Tk1, ctx, "order", "exhaustive descending-string pair", &schema, &a, &b, &ea, &eb, &mut o);
        o
    }
}

impl Part for RnExhaustive {
    fn name(&self) -> String {
        "tk1-desc-string-exhaustive".into()
    }
    fn worker(&self, ctx: &Ctx) -> WorkerReport {
        let mut rep = WorkerReport::default();
        let strings = rn_strings();
        let n = strings.len() as u64;
        let prefixes: u64 = 9;
        let total = prefixes * n * n;
        let name = self.name();
        for idx in vcore::my_share(ctx, total) {
            let k = (idx / (n * n)) as usize;
            let (i, j) = (((idx / n) % n) as usize, (idx % n) as usize);
            let pre = "@".repeat(k);
            let c = RnCase { a: format!("{pre}{}", strings[i]), b: format!("{pre}{}", strings[j]) };
            let o = match vcore::guard(|| self.judge(ctx, &c)) {
                Ok(o) => o,
                Err(f) => Outcome { nontrivial: true, failure: Some(f), ..Default::default() },
            };
            rep.record(&name, vcore::case_hash(&c), || serde_json::to_value(&c).unwrap(), &o);
            if let Some(f) = o.failure {
                rep.violations.push(ViolationRec { part: name.clone(), case: serde_json::to_value(&c).unwrap(), signature: f.signature, message: f.message, shrunk: false });
                break;
            }
        }
        rep
    }
    fn replay(&self, ctx: &Ctx, case: &serde_json::Value) -> Outcome {
        match serde_json::from_value::<RnCase>(case.clone()) {
            Ok(c) => match vcore::guard(|| self.judge(ctx, &c)) {
                Ok(o) => o,
                Err(f) => Outcome { nontrivial: true, failure: Some(f), ..Default::default() },
            },
            Err(e) => {
                let mut o = Outcome::pass();
                o.inconclusive = true;
                o.label(format!("replay-parse-error: {e}"));
                o
            }
        }
    }
}

/////////////////////////////////////////////// main ///////////////////////////////////////////////

fn main() {
    let check = Check::new(
        "C16",
        "exploration",
        "proptest-generated schemas (1-6 columns over unit/u32/u64/i32/i64/string[/bytes/u8/u16/i8/i16 for tuple_key2], each ascending or descending for tuple_key, with field numbers at the 1/2/3/4/5-byte tag boundaries) and pairs of tuples correlated by construction: equal prefix of generated length, then one correlated element pair (integers: equal, +-1, +2, negated, one bit flipped, independent, drawn from 0, +-1, +-2, +-2^(7k)+-1, +-2^(8k)+-1, MIN, MAX and random widths; strings/bytes: equal, proper prefix, differing in the last unit, differing after a common prefix, empty vs non-empty, independent, over alphabets rich in NUL, 0x01, 0xff / U+10FFFF), rest correlated again. order: cmp(enc a, enc b) == cmp_tuple(a, b) with per-element direction reversal; extension: enc(t) proper prefix of and before enc(t++u), and enc(t++u[..m]) < enc(t') and < enc(t'++u') for every m when t < t'; every extended key is additionally built by extending enc(t) through the crates' extension APIs (tuple_key: TupleKey::append - whole suffix, element by element, empty suffix - and extend/extend_with_key on the existing key; tuple_key2: TupleKeyBuilder::{extend, tuple_key, with_capacity, as_bytes, finish}, TupleKey::builder_with_capacity, From<TupleKeyBuilder>, From<Vec<u8>> + TupleKey::append) and must be byte-identical to the from-scratch encoding the laws are judged on (whether append drains the other key and what len()/is_empty() report is only labelled); roundtrip: parse with the same type sequence (and peek_next, iterator, derived TryFrom) returns the tuple (Schema::args_for_key / lookup / conforms_to are compared too but only labelled); tuple_key2 additionally has the narrow integer elements u8/u16/i8/i16 in every part, and every integer element is built with every builder and parsed with every parser of its family (value when it fits, ValueOutOfRange{target} when not) and of the other family (InvalidIntegerTag); decode: arbitrary bytes and 1-3 byte-level mutations of valid encodings never panic (tuple_key2: accepted bytes re-encode to themselves); derive-decode: the derived TryFrom<TupleKey> of four structs is fed damaged valid encodings (optionally followed by further well-formed elements) and arbitrary bytes: no panic, Ok exactly when the hand-driven parser reads all the struct's columns and with the same values, the accepted value's own Into<TupleKey> is the from-scratch encoding of its fields and parses back to it. Non-trivial: (order/extension/derive) the tuples differ and either share >= 1 leading element or their first differing elements are strings/bytes with a common prefix or an empty side, or integers at distance <= 2, of opposite sign or of different 7-bit/8-bit length (extension additionally needs a non-empty u); (roundtrip) >= 2 elements, one not unit; (decode, derive-decode) non-empty input that is a damaged valid encoding or of which at least one element was accepted. One further part enumerates exhaustively 219 024 pairs of descending tuple_key strings ('@'^k ++ x, '@'^k ++ y; x, y all strings of length <= 3 over {NUL, U+1, U+2, '@', U+80}; k = 0..8) to validate the R-N trigger predicate at every 7-bit alignment. Distinct by structural hash of the case.",
    )
    .assume("tuples are compared only under one schema: same element types, directions and (tuple_key) field numbers; tuple_key orders different field numbers / types by their tag bytes, which is not part of the property")
    .assume("tuple_key has no bytes element and its integers are fixed-width (5 / 10 bytes), so 'bytes' and variable-length integers are exercised in tuple_key2 only; tuple_key2 has no descending direction, so directions are exercised in tuple_key only")
    .assume("strings compare by their UTF-8 bytes (Rust's str order); tuple_key strings are Rust Strings and therefore cannot contain 0xff bytes — 0xff is exercised through U+10FFFF/other multi-byte characters in tuple_key and through bytes elements in tuple_key2")
    .assume("tuple_key2's u8/u16/u32 and i8/i16/i32 builders are the u64/i64 encodings of the widened value (documented: 'using the compact (un)signed integer family'); tuples are parsed with the method of the type they were built with, and additionally each single integer with every other width (documented ValueOutOfRange / InvalidIntegerTag answers); tuple_key has no narrow integers")
    .assume("API behaviour the property does not name is observed and labelled, never a failure: whether TupleKey::append leaves the appended key empty, what len()/is_empty() report, and what the tuple_key Schema walker (args_for_key, lookup, conforms_to) answers; failures are reserved for byte-identity of API-built and from-scratch keys and for the order, extension, round-trip and no-panic laws")
    .assume("nothing documents that a derived TryFrom<TupleKey> consumes the whole key (the generated code stops after the last field), so well-formed or damaged bytes after the last field may be accepted or rejected: counted by label, not asserted; tuple_key parsers may accept non-canonical input (e.g. the unused low bits of a fixed-width integer's last byte), also only labelled")
    .assume("the known finding R-N (tuple_key descending-string pairs whose forward encodings first differ only in the continuation bit) is excluded by construction outside strict mode and counted; nothing else is excluded")
    .assume("decoders may return a value for damaged input; only panics (and, for tuple_key2 whose docs promise canonical encodings, accepted bytes that do not re-encode to themselves) are failures")
    .pbt(Order { fmt: Fmt::Tk1, desc_string_focus: false })
    .pbt(Order { fmt: Fmt::Tk1, desc_string_focus: true })
    .part(RnExhaustive)
    .pbt(Extension { fmt: Fmt::Tk1 })
    .pbt(Roundtrip { fmt: Fmt::Tk1 })
    .pbt(Decode { fmt: Fmt::Tk1 })
    .pbt(Derive)
    .pbt(DeriveDecode)
    .pbt(Order { fmt: Fmt::Tk2, desc_string_focus: false })
    .pbt(Extension { fmt: Fmt::Tk2 })
    .pbt(Roundtrip { fmt: Fmt::Tk2 })
    .pbt(Decode { fmt: Fmt::Tk2 });
    vcore::main_with(vec![check], &[]);
}
