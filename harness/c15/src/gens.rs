//! proptest strategies: values of every family type as dynamic trees, by construction from the
//! schema.  Integers concentrate on power-of-two boundaries, floats on special values, lengths on
//! varint-length boundaries.

use proptest::prelude::*;
use proptest::strategy::Union;

use crate::model::*;
use crate::types::schema;

const MAX_DEPTH: u32 = 3;

/// 2^k - 1, 2^k, 2^k + 1 and their negations, for k below `bits`; plus extremes and uniform.
fn u64_boundary(bits: u32) -> BoxedStrategy<u64> {
    let mask = if bits == 64 { u64::MAX } else { (1u64 << bits) - 1 };
    prop_oneof![
        6 => (0u32..bits, 0u8..3, any::<bool>()).prop_map(move |(k, d, neg)| {
            let base = 1u64 << k;
            let v = match d { 0 => base.wrapping_sub(1), 1 => base, _ => base.wrapping_add(1) };
            let v = if neg { v.wrapping_neg() } else { v };
            v & mask
        }),
        1 => Just(0u64),
        1 => Just(mask),
        1 => Just(mask >> 1),
        1 => Just((mask >> 1) + 1),
        2 => any::<u64>().prop_map(move |v| v & mask),
        1 => 0u64..300,
    ]
    .boxed()
}

fn i64_any() -> BoxedStrategy<i64> {
    u64_boundary(64).prop_map(|v| v as i64).boxed()
}

fn i32_any() -> BoxedStrategy<i32> {
    u64_boundary(32).prop_map(|v| v as u32 as i32).boxed()
}

fn u32_any() -> BoxedStrategy<u32> {
    u64_boundary(32).prop_map(|v| v as u32).boxed()
}

fn f32_bits() -> BoxedStrategy<u32> {
    prop_oneof![
        1 => Just(0.0f32.to_bits()),
        1 => Just((-0.0f32).to_bits()),
        1 => Just(f32::INFINITY.to_bits()),
        1 => Just(f32::NEG_INFINITY.to_bits()),
        1 => Just(f32::NAN.to_bits()),
        // NaNs with payloads, quiet and signalling, both signs
        2 => (any::<bool>(), 1u32..(1 << 23)).prop_map(|(s, m)| ((s as u32) << 31) | 0x7f80_0000 | m),
        // subnormals
        2 => (any::<bool>(), 1u32..(1 << 23)).prop_map(|(s, m)| ((s as u32) << 31) | m),
        1 => Just(1u32),
        1 => Just(f32::MIN_POSITIVE.to_bits()),
        1 => Just(f32::MAX.to_bits()),
        1 => Just(f32::MIN.to_bits()),
        1 => Just(f32::EPSILON.to_bits()),
        1 => Just(1.0f32.to_bits()),
        3 => any::<u32>(),
    ]
    .boxed()
}

fn f64_bits() -> BoxedStrategy<u64> {
    prop_oneof![
        1 => Just(0.0f64.to_bits()),
        1 => Just((-0.0f64).to_bits()),
        1 => Just(f64::INFINITY.to_bits()),
        1 => Just(f64::NEG_INFINITY.to_bits()),
        1 => Just(f64::NAN.to_bits()),
        2 => (any::<bool>(), 1u64..(1 << 52)).prop_map(|(s, m)| ((s as u64) << 63) | 0x7ff0_0000_0000_0000 | m),
        2 => (any::<bool>(), 1u64..(1 << 52)).prop_map(|(s, m)| ((s as u64) << 63) | m),
        1 => Just(1u64),
        1 => Just(f64::MIN_POSITIVE.to_bits()),
        1 => Just(f64::MAX.to_bits()),
        1 => Just(f64::MIN.to_bits()),
        1 => Just(f64::EPSILON.to_bits()),
        1 => Just(std::f64::consts::PI.to_bits()),
        3 => any::<u64>(),
    ]
    .boxed()
}

/// Byte strings whose lengths sit on the 1/2-byte (127/128) and, rarely, 2/3-byte (16383/16384)
/// length-varint boundaries.
fn bytes_any() -> BoxedStrategy<Vec<u8>> {
    prop_oneof![
        3 => Just(vec![]),
        6 => prop::collection::vec(any::<u8>(), 0..12),
        2 => prop::collection::vec(any::<u8>(), 120..136),
        1 => (126usize..130, any::<u8>()).prop_map(|(n, b)| vec![b; n]),
        1 => prop::collection::vec(any::<u8>(), 0..300),
    ]
    .boxed()
}

fn bytes_rare_long() -> BoxedStrategy<Vec<u8>> {
    prop_oneof![
        60 => bytes_any(),
        1 => (16382usize..16387, any::<u8>()).prop_map(|(n, b)| vec![b; n]),
    ]
    .boxed()
}

fn string_any() -> BoxedStrategy<String> {
    let ch = prop_oneof![
        6 => (0x20u8..0x7f).prop_map(|b| b as char),
        1 => Just('\0'),
        1 => Just('\u{7f}'),
        1 => Just('\u{80}'),
        1 => Just('\u{7ff}'),
        1 => Just('\u{800}'),
        1 => Just('\u{ffff}'),
        1 => Just('\u{10000}'),
        1 => Just('\u{10ffff}'),
        1 => Just('\u{1F600}'),
        2 => any::<char>(),
    ];
    prop_oneof![
        2 => Just(String::new()),
        6 => prop::collection::vec(ch.clone(), 0..10).prop_map(|v| v.into_iter().collect::<String>()),
        1 => (125usize..131).prop_map(|n| "x".repeat(n)),
        1 => prop::collection::vec(ch, 30..70).prop_map(|v| v.into_iter().collect::<String>()),
    ]
    .boxed()
}

fn fixed_bytes(n: usize) -> BoxedStrategy<Vec<u8>> {
    prop_oneof![
        1 => Just(vec![0u8; n]),
        1 => Just(vec![0xffu8; n]),
        3 => prop::collection::vec(any::<u8>(), n),
    ]
    .boxed()
}

/// Display texts of `SError` values (built with handled's builder when the pool is created).
pub fn err_text_pool() -> Vec<String> {
    use prototk::SError;
    let mut v = vec![];
    for phase in ["c15", "storage-engine", "x"] {
        for code in ["boom", "not-found"] {
            v.push(SError::new(phase).with_code(code).to_string());
            v.push(SError::new(phase).with_code(code).with_message("something went wrong").to_string());
            v.push(
                SError::new(phase)
                    .with_code(code)
                    .with_atom_field("n", 18446744073709551615u64)
                    .with_string_field("what", "a \"quoted\" string")
                    .to_string(),
            );
        }
    }
    v.push(prototk::success().to_string());
    v.push(prototk::buffer_too_short(128, 127).to_string());
    // a long one: crosses the one-byte length boundary
    v.push(SError::new("c15").with_message(&"m".repeat(140)).to_string());
    // keep only texts that handled itself parses back to the same text, so that equality of
    // error values is not at the mercy of handled's printer (not a C15 concern)
    v.retain(|t| crate::types::serror_from_text(t).map(|e| e.to_string()).as_deref() == Some(t.as_str()));
    assert!(v.len() >= 4, "harness: error text pool collapsed");
    v
}

fn gen_leaf(ty: Ty, depth: u32) -> BoxedStrategy<Leaf> {
    match ty {
        Ty::Int32 | Ty::Sint32 | Ty::Sfixed32 => i32_any().prop_map(Leaf::I32).boxed(),
        Ty::Int64 | Ty::Sint64 | Ty::Sfixed64 => i64_any().prop_map(Leaf::I64).boxed(),
        Ty::Uint32 | Ty::Fixed32 => u32_any().prop_map(Leaf::U32).boxed(),
        Ty::Uint64 | Ty::Fixed64 => u64_boundary(64).prop_map(Leaf::U64).boxed(),
        Ty::Bool => any::<bool>().prop_map(Leaf::Bool).boxed(),
        Ty::Float => f32_bits().prop_map(Leaf::F32).boxed(),
        Ty::Double => f64_bits().prop_map(Leaf::F64).boxed(),
        Ty::Bytes => bytes_any().prop_map(Leaf::Bytes).boxed(),
        Ty::Bytes16 => fixed_bytes(16).prop_map(Leaf::Bytes).boxed(),
        Ty::Bytes32 => fixed_bytes(32).prop_map(Leaf::Bytes).boxed(),
        Ty::Bytes64 => fixed_bytes(64).prop_map(Leaf::Bytes).boxed(),
        Ty::Str => string_any().prop_map(Leaf::Str).boxed(),
        // a path destined for a `string` field: UTF-8 text only (a protobuf string holds UTF-8; arbitrary
        // paths go through `bytes` x `PathBuf`): empty, relative, absolute, doubled / trailing
        // separators, dots, NUL, multi-byte characters, long
        Ty::StrPath => prop_oneof![
            6 => string_any().prop_map(|s| Leaf::Bytes(s.into_bytes())),
            2 => (string_any(), string_any()).prop_map(|(a, b)| Leaf::Bytes(format!("/{a}/{b}").into_bytes())),
            1 => (string_any(), prop::sample::select(vec!["", "/", "//", ".", "..", "./", "../", "a/./b", "a//b/", "/."])).prop_map(|(a, b)| Leaf::Bytes(format!("{b}{a}{b}").into_bytes())),
        ]
        .boxed(),
        Ty::Msg(sub) => gen_msg(sub, depth + 1).prop_map(|d| Leaf::Msg(Box::new(d))).boxed(),
    }
}

fn gen_dval(spec: &FieldSpec, depth: u32) -> BoxedStrategy<DVal> {
    let is_msg = matches!(spec.ty, Ty::Msg(_));
    // the recursion bound: below it, optional / repeated message fields are empty
    if is_msg && depth >= MAX_DEPTH {
        match spec.shape {
            Shape::Opt => return Just(DVal::Opt(None)).boxed(),
            Shape::Rep => return Just(DVal::Rep(vec![])).boxed(),
            Shape::One => {}
        }
    }
    let leaf = gen_leaf(spec.ty, depth);
    match spec.shape {
        Shape::One => leaf.prop_map(DVal::One).boxed(),
        Shape::Opt => prop::option::weighted(0.6, leaf).prop_map(DVal::Opt).boxed(),
        Shape::Rep => {
            let sizes: BoxedStrategy<usize> = if is_msg {
                prop_oneof![3 => Just(0usize), 6 => 1usize..4, 1 => 4usize..7].boxed()
            } else {
                prop_oneof![3 => Just(0usize), 6 => 1usize..5, 2 => 5usize..12, 1 => 40usize..70].boxed()
            };
            sizes
                .prop_flat_map(move |n| prop::collection::vec(leaf.clone(), n))
                .prop_map(DVal::Rep)
                .boxed()
        }
    }
}

fn gen_fields(specs: &[FieldSpec], depth: u32) -> BoxedStrategy<Vec<DVal>> {
    let parts: Vec<BoxedStrategy<DVal>> = specs.iter().map(|s| gen_dval(s, depth)).collect();
    parts.boxed()
}

/// A value of message type `id`.
pub fn gen_msg(id: MsgId, depth: u32) -> BoxedStrategy<DMsg> {
    match schema(id) {
        Schema::Struct(specs) => {
            // the one field of the family that occasionally carries a > 16 KiB payload
            if id == MsgId::Blobs {
                let mut parts: Vec<BoxedStrategy<DVal>> = specs.iter().map(|s| gen_dval(s, depth)).collect();
                parts[5] = bytes_rare_long().prop_map(|b| DVal::One(Leaf::Bytes(b))).boxed();
                return parts.prop_map(DMsg::Struct).boxed();
            }
            gen_fields(&specs, depth).prop_map(DMsg::Struct).boxed()
        }
        Schema::Enum(vars) => {
            let arms: Vec<BoxedStrategy<DMsg>> = vars
                .iter()
                .enumerate()
                .map(|(i, v)| match v {
                    VariantSpec::Unit(_) => Just(DMsg::Enum(i, EnumBody::Unit)).boxed(),
                    VariantSpec::Unnamed(_, ty) => gen_leaf(*ty, depth)
                        .prop_map(move |l| DMsg::Enum(i, EnumBody::Unnamed(l)))
                        .boxed(),
                    VariantSpec::Named(_, specs) => gen_fields(specs, depth)
                        .prop_map(move |vs| DMsg::Enum(i, EnumBody::Named(vs)))
                        .boxed(),
                })
                .collect();
            Union::new(arms).boxed()
        }
        Schema::Result(ok) => {
            let pool = err_text_pool();
            prop_oneof![
                3 => gen_msg(ok, depth + 1).prop_map(|d| DMsg::ResOk(Box::new(d))),
                2 => any::<u16>().prop_map(move |i| DMsg::ResErr(pool[vcore::gens::sel(i, pool.len())].clone())),
            ]
            .boxed()
        }
    }
}

/// Weights of the family's types as top-level values.
pub fn type_weights() -> Vec<(u32, MsgId)> {
    vec![
        (1, MsgId::Empty),
        (2, MsgId::Leaf),
        (4, MsgId::Varints),
        (3, MsgId::Fixeds),
        (1, MsgId::Floats),
        (3, MsgId::Blobs),
        (4, MsgId::Opts),
        (4, MsgId::Reps),
        (4, MsgId::Nest),
        (3, MsgId::Tree),
        (4, MsgId::Choice),
        (4, MsgId::Holder),
        (2, MsgId::ResTop),
        (2, MsgId::WithRes),
        (1, MsgId::Borrowed),
        (3, MsgId::Paths),
        (2, MsgId::Tup),
        (1, MsgId::UnitS),
        (3, MsgId::Wide),
        (3, MsgId::Holder2),
    ]
}

/// (type, value of that type)
pub fn typed_value() -> BoxedStrategy<(MsgId, DMsg)> {
    let arms: Vec<(u32, BoxedStrategy<(MsgId, DMsg)>)> = type_weights()
        .into_iter()
        .map(|(w, id)| (w, gen_msg(id, 0).prop_map(move |d| (id, d)).boxed()))
        .collect();
    Union::new_weighted(arms).boxed()
}
