//! The family of `#[derive(prototk_derive::Message)]` types the check runs against, each with its
//! schema (for the generator and the reference encoder), a lowering from the dynamic tree and a
//! lifting back into it.  Floats are lifted as bit patterns.

use buffertk::{Packable, Unpackable, stack_pack};
use prototk::SError;
use prototk_derive::Message;

use crate::model::*;

pub trait LeafT: Sized {
    fn from_leaf(l: &Leaf) -> Self;
    fn to_leaf(&self) -> Leaf;
}

pub trait FromDVal: Sized {
    fn from_dval(v: &DVal) -> Self;
    fn to_dval(&self) -> DVal;
}

pub trait Fam: Sized {
    fn schema() -> Schema;
    fn lower(d: &DMsg) -> Self;
    fn lift(&self) -> DMsg;
}

macro_rules! leaf_scalar {
    ($rt:ty, $variant:ident) => {
        impl LeafT for $rt {
            fn from_leaf(l: &Leaf) -> Self {
                match l {
                    Leaf::$variant(x) => x.clone(),
                    other => panic!("harness: leaf {other:?} is not a {}", stringify!($variant)),
                }
            }
            fn to_leaf(&self) -> Leaf {
                Leaf::$variant(self.clone())
            }
        }
        impl FromDVal for $rt {
            fn from_dval(v: &DVal) -> Self {
                match v {
                    DVal::One(l) => <$rt as LeafT>::from_leaf(l),
                    other => panic!("harness: {other:?} is not a singular value"),
                }
            }
            fn to_dval(&self) -> DVal {
                DVal::One(self.to_leaf())
            }
        }
    };
}

leaf_scalar!(i32, I32);
leaf_scalar!(i64, I64);
leaf_scalar!(u32, U32);
leaf_scalar!(u64, U64);
leaf_scalar!(bool, Bool);
leaf_scalar!(String, Str);
leaf_scalar!(Vec<u8>, Bytes);

impl LeafT for f32 {
    fn from_leaf(l: &Leaf) -> Self {
        match l {
            Leaf::F32(b) => f32::from_bits(*b),
            other => panic!("harness: leaf {other:?} is not an f32"),
        }
    }
    fn to_leaf(&self) -> Leaf {
        Leaf::F32(self.to_bits())
    }
}

impl LeafT for f64 {
    fn from_leaf(l: &Leaf) -> Self {
        match l {
            Leaf::F64(b) => f64::from_bits(*b),
            other => panic!("harness: leaf {other:?} is not an f64"),
        }
    }
    fn to_leaf(&self) -> Leaf {
        Leaf::F64(self.to_bits())
    }
}

macro_rules! leaf_array {
    ($n:literal) => {
        impl LeafT for [u8; $n] {
            fn from_leaf(l: &Leaf) -> Self {
                match l {
                    Leaf::Bytes(b) => {
                        let mut a = [0u8; $n];
                        a.copy_from_slice(b);
                        a
                    }
                    other => panic!("harness: leaf {other:?} is not bytes"),
                }
            }
            fn to_leaf(&self) -> Leaf {
                Leaf::Bytes(self.to_vec())
            }
        }
    };
}

leaf_array!(16);
leaf_array!(32);
leaf_array!(64);

macro_rules! one_via_leaf {
    ($rt:ty) => {
        impl FromDVal for $rt {
            fn from_dval(v: &DVal) -> Self {
                match v {
                    DVal::One(l) => <$rt as LeafT>::from_leaf(l),
                    other => panic!("harness: {other:?} is not a singular value"),
                }
            }
            fn to_dval(&self) -> DVal {
                DVal::One(self.to_leaf())
            }
        }
    };
}

impl LeafT for usize {
    fn from_leaf(l: &Leaf) -> Self {
        match l {
            Leaf::U64(x) => *x as usize,
            other => panic!("harness: leaf {other:?} is not a u64"),
        }
    }
    fn to_leaf(&self) -> Leaf {
        Leaf::U64(*self as u64)
    }
}

impl LeafT for std::path::PathBuf {
    fn from_leaf(l: &Leaf) -> Self {
        use std::os::unix::ffi::OsStrExt;
        match l {
            Leaf::Bytes(b) => std::path::PathBuf::from(std::ffi::OsStr::from_bytes(b)),
            other => panic!("harness: leaf {other:?} is not bytes"),
        }
    }
    fn to_leaf(&self) -> Leaf {
        use std::os::unix::ffi::OsStrExt;
        Leaf::Bytes(self.as_os_str().as_bytes().to_vec())
    }
}

impl<T: LeafT> FromDVal for Box<T> {
    fn from_dval(v: &DVal) -> Self {
        match v {
            DVal::One(l) => Box::new(T::from_leaf(l)),
            other => panic!("harness: {other:?} is not a singular value"),
        }
    }
    fn to_dval(&self) -> DVal {
        DVal::One((**self).to_leaf())
    }
}

one_via_leaf!(usize);
one_via_leaf!(std::path::PathBuf);
one_via_leaf!(f32);
one_via_leaf!(f64);
one_via_leaf!([u8; 16]);
one_via_leaf!([u8; 32]);
one_via_leaf!([u8; 64]);

impl<T: LeafT> FromDVal for Option<T> {
    fn from_dval(v: &DVal) -> Self {
        match v {
            DVal::Opt(o) => o.as_ref().map(T::from_leaf),
            other => panic!("harness: {other:?} is not an optional value"),
        }
    }
    fn to_dval(&self) -> DVal {
        DVal::Opt(self.as_ref().map(|x| x.to_leaf()))
    }
}

// Repeated fields are implemented per element type: a generic `Vec<T>` impl would overlap with
// `Vec<u8>` (= bytes).
macro_rules! rep_of {
    ($rt:ty) => {
        impl FromDVal for Vec<$rt> {
            fn from_dval(v: &DVal) -> Self {
                match v {
                    DVal::Rep(ls) => ls.iter().map(<$rt as LeafT>::from_leaf).collect(),
                    other => panic!("harness: {other:?} is not a repeated value"),
                }
            }
            fn to_dval(&self) -> DVal {
                DVal::Rep(self.iter().map(|x| x.to_leaf()).collect())
            }
        }
    };
}

rep_of!(i32);
rep_of!(i64);
rep_of!(u32);
rep_of!(u64);
rep_of!(bool);
rep_of!(f32);
rep_of!(f64);
rep_of!(String);
rep_of!(Vec<u8>);
rep_of!([u8; 32]);
rep_of!(std::path::PathBuf);

macro_rules! fam_struct {
    (
        $(#[$meta:meta])*
        $name:ident {
            $( ($num:tt, $pty:ident, $ty:expr, $shape:ident) $f:ident : [$($rt:tt)+] ),* $(,)?
        }
    ) => {
        $(#[$meta])*
        #[derive(Clone, Debug, Message, PartialEq)]
        pub struct $name {
            $( #[prototk($num, $pty)] pub $f: $($rt)+, )*
        }

        impl Fam for $name {
            fn schema() -> Schema {
                Schema::Struct(vec![ $( FieldSpec { num: $num, ty: $ty, shape: Shape::$shape } ),* ])
            }
            #[allow(unused_mut, unused_variables)]
            fn lower(d: &DMsg) -> Self {
                let DMsg::Struct(v) = d else { panic!("harness: {d:?} is not a struct value") };
                let mut it = v.iter();
                $name { $( $f: <$($rt)+ as FromDVal>::from_dval(it.next().expect("harness: arity")), )* }
            }
            fn lift(&self) -> DMsg {
                DMsg::Struct(vec![ $( self.$f.to_dval() ),* ])
            }
        }

        impl LeafT for $name {
            fn from_leaf(l: &Leaf) -> Self {
                match l {
                    Leaf::Msg(d) => Self::lower(d),
                    other => panic!("harness: leaf {other:?} is not a message"),
                }
            }
            fn to_leaf(&self) -> Leaf {
                Leaf::Msg(Box::new(self.lift()))
            }
        }
        one_via_leaf!($name);
        rep_of!($name);
    };
}

// A message without fields: its encoding is empty, as a field it is a bare tag + length 0.
fam_struct! {
    #[derive(Default)]
    Empty {
    }
}

fam_struct! {
    #[derive(Default)]
    Leaf3 {
        (1, uint64, Ty::Uint64, One) a: [u64],
        (2, sint64, Ty::Sint64, One) b: [i64],
        (3, string, Ty::Str, One) s: [String],
    }
}

// Declaration order deliberately differs from field-number order; tags of 1..5 bytes.
fam_struct! {
    #[derive(Default)]
    Varints {
        (3, uint32, Ty::Uint32, One) c: [u32],
        (1, int32, Ty::Int32, One) a: [i32],
        (2, int64, Ty::Int64, One) b: [i64],
        (4, uint64, Ty::Uint64, One) d: [u64],
        (5, sint32, Ty::Sint32, One) e: [i32],
        (6, sint64, Ty::Sint64, One) f: [i64],
        (7, Bool, Ty::Bool, One) g: [bool],
        (15, uint64, Ty::Uint64, One) h: [u64],
        (16, int64, Ty::Int64, One) i: [i64],
        (2047, sint64, Ty::Sint64, One) j: [i64],
        (2048, uint32, Ty::Uint32, One) k: [u32],
        (18999, int32, Ty::Int32, One) l: [i32],
        (20000, Bool, Ty::Bool, One) m: [bool],
        (536870911, uint64, Ty::Uint64, One) n: [u64],
        (262144, sint32, Ty::Sint32, One) o: [i32],
        (8, uint64, Ty::Uint64, One) p: [usize],
    }
}

fam_struct! {
    #[derive(Default)]
    Fixeds {
        (1, fixed32, Ty::Fixed32, One) a: [u32],
        (2, fixed64, Ty::Fixed64, One) b: [u64],
        (3, sfixed32, Ty::Sfixed32, One) c: [i32],
        (4, sfixed64, Ty::Sfixed64, One) d: [i64],
        (5, double, Ty::Double, One) e: [f64],
        (33554432, fixed64, Ty::Fixed64, One) f: [u64],
        (17, sfixed32, Ty::Sfixed32, Opt) g: [Option<i32>],
        (18, double, Ty::Double, Rep) h: [Vec<f64>],
        (19, sint64, Ty::Sint64, One) i: [Box<i64>],
        (20, double, Ty::Double, One) j: [Box<f64>],
    }
}

// `float` fields: one, optional, repeated, with sentinels after them (regression C15-A).
fam_struct! {
    #[derive(Default)]
    Floats {
        (1, float, Ty::Float, One) a: [f32],
        (2, uint64, Ty::Uint64, One) s1: [u64],
        (3, float, Ty::Float, Opt) b: [Option<f32>],
        (4, float, Ty::Float, Rep) c: [Vec<f32>],
        (5, uint64, Ty::Uint64, One) s2: [u64],
    }
}

fam_struct! {
    Blobs {
        (1, bytes, Ty::Bytes, One) a: [Vec<u8>],
        (2, bytes16, Ty::Bytes16, One) b: [[u8; 16]],
        (3, bytes32, Ty::Bytes32, One) c: [[u8; 32]],
        (4, bytes64, Ty::Bytes64, One) d: [[u8; 64]],
        (5, string, Ty::Str, One) e: [String],
        (6, bytes, Ty::Bytes, One) f: [Vec<u8>],
        (7, bytes, Ty::Bytes, One) g: [std::path::PathBuf],
    }
}

impl Default for Blobs {
    fn default() -> Self {
        Blobs {
            a: vec![],
            b: [0; 16],
            c: [0; 32],
            d: [0; 64],
            e: String::new(),
            f: vec![],
            g: std::path::PathBuf::new(),
        }
    }
}

fam_struct! {
    #[derive(Default)]
    Opts {
        (1, int32, Ty::Int32, Opt) a: [Option<i32>],
        (2, sint64, Ty::Sint64, Opt) b: [Option<i64>],
        (3, uint64, Ty::Uint64, Opt) c: [Option<u64>],
        (4, Bool, Ty::Bool, Opt) d: [Option<bool>],
        (5, fixed32, Ty::Fixed32, Opt) e: [Option<u32>],
        (6, sfixed64, Ty::Sfixed64, Opt) f: [Option<i64>],
        (7, double, Ty::Double, Opt) g: [Option<f64>],
        (8, bytes, Ty::Bytes, Opt) h: [Option<Vec<u8>>],
        (9, string, Ty::Str, Opt) i: [Option<String>],
        (10, bytes16, Ty::Bytes16, Opt) j: [Option<[u8; 16]>],
        (11, message, Ty::Msg(MsgId::Leaf), Opt) k: [Option<Leaf3>],
    }
}

fam_struct! {
    #[derive(Default)]
    Reps {
        (1, int32, Ty::Int32, Rep) a: [Vec<i32>],
        (2, sint32, Ty::Sint32, Rep) b: [Vec<i32>],
        (3, uint64, Ty::Uint64, Rep) c: [Vec<u64>],
        (4, Bool, Ty::Bool, Rep) d: [Vec<bool>],
        (5, fixed64, Ty::Fixed64, Rep) e: [Vec<u64>],
        (6, sfixed32, Ty::Sfixed32, Rep) f: [Vec<i32>],
        (7, double, Ty::Double, Rep) g: [Vec<f64>],
        (8, bytes, Ty::Bytes, Rep) h: [Vec<Vec<u8>>],
        (9, string, Ty::Str, Rep) i: [Vec<String>],
        (10, bytes32, Ty::Bytes32, Rep) j: [Vec<[u8; 32]>],
        (11, message, Ty::Msg(MsgId::Leaf), Rep) k: [Vec<Leaf3>],
    }
}

fam_struct! {
    #[derive(Default)]
    Nest {
        (1, message, Ty::Msg(MsgId::Leaf), One) a: [Leaf3],
        (2, message, Ty::Msg(MsgId::Varints), Opt) b: [Option<Varints>],
        (3, message, Ty::Msg(MsgId::Opts), Rep) c: [Vec<Opts>],
        (4, message, Ty::Msg(MsgId::Reps), One) d: [Reps],
        (5, uint64, Ty::Uint64, One) tail: [u64],
        (6, message, Ty::Msg(MsgId::Fixeds), Opt) e: [Option<Fixeds>],
        (7, message, Ty::Msg(MsgId::Empty), One) f: [Empty],
        (8, message, Ty::Msg(MsgId::Empty), Rep) g: [Vec<Empty>],
    }
}

fam_struct! {
    #[derive(Default)]
    Tree {
        (1, message, Ty::Msg(MsgId::Tree), Rep) kids: [Vec<Tree>],
        (2, sint64, Ty::Sint64, One) v: [i64],
        (3, message, Ty::Msg(MsgId::Leaf), Opt) l: [Option<Leaf3>],
    }
}

/// Every kind of enum variant: unit, unnamed with scalar / string / bytes / message payloads,
/// and named with singular, optional and repeated fields.
#[derive(Clone, Debug, Default, Message, PartialEq)]
pub enum Choice {
    #[prototk(1, message)]
    #[default]
    Nop,
    #[prototk(2, uint64)]
    Num(u64),
    #[prototk(3, sint32)]
    Sig(i32),
    #[prototk(4, string)]
    Text(String),
    #[prototk(5, bytes)]
    Raw(Vec<u8>),
    #[prototk(6, message)]
    Sub(Leaf3),
    #[prototk(7, message)]
    Pair {
        #[prototk(1, uint64)]
        x: u64,
        #[prototk(2, message)]
        l: Option<Leaf3>,
        #[prototk(3, sint64)]
        zs: Vec<i64>,
    },
    #[prototk(2048, fixed64)]
    Fx(u64),
    #[prototk(9, double)]
    Dbl(f64),
    #[prototk(10, bytes32)]
    B32([u8; 32]),
    #[prototk(11, message)]
    Deep(Tree),
    #[prototk(14, message)]
    Void(Empty),
}

fn choice_pair_specs() -> Vec<FieldSpec> {
    vec![
        FieldSpec { num: 1, ty: Ty::Uint64, shape: Shape::One },
        FieldSpec { num: 2, ty: Ty::Msg(MsgId::Leaf), shape: Shape::Opt },
        FieldSpec { num: 3, ty: Ty::Sint64, shape: Shape::Rep },
    ]
}

impl Fam for Choice {
    fn schema() -> Schema {
        Schema::Enum(vec![
            VariantSpec::Unit(1),
            VariantSpec::Unnamed(2, Ty::Uint64),
            VariantSpec::Unnamed(3, Ty::Sint32),
            VariantSpec::Unnamed(4, Ty::Str),
            VariantSpec::Unnamed(5, Ty::Bytes),
            VariantSpec::Unnamed(6, Ty::Msg(MsgId::Leaf)),
            VariantSpec::Named(7, choice_pair_specs()),
            VariantSpec::Unnamed(2048, Ty::Fixed64),
            VariantSpec::Unnamed(9, Ty::Double),
            VariantSpec::Unnamed(10, Ty::Bytes32),
            VariantSpec::Unnamed(11, Ty::Msg(MsgId::Tree)),
            VariantSpec::Unnamed(14, Ty::Msg(MsgId::Empty)),
        ])
    }
    fn lower(d: &DMsg) -> Self {
        let DMsg::Enum(i, body) = d else { panic!("harness: {d:?} is not an enum value") };
        match (*i, body) {
            (0, EnumBody::Unit) => Choice::Nop,
            (1, EnumBody::Unnamed(l)) => Choice::Num(LeafT::from_leaf(l)),
            (2, EnumBody::Unnamed(l)) => Choice::Sig(LeafT::from_leaf(l)),
            (3, EnumBody::Unnamed(l)) => Choice::Text(LeafT::from_leaf(l)),
            (4, EnumBody::Unnamed(l)) => Choice::Raw(LeafT::from_leaf(l)),
            (5, EnumBody::Unnamed(l)) => Choice::Sub(LeafT::from_leaf(l)),
            (6, EnumBody::Named(v)) => Choice::Pair {
                x: FromDVal::from_dval(&v[0]),
                l: FromDVal::from_dval(&v[1]),
                zs: FromDVal::from_dval(&v[2]),
            },
            (7, EnumBody::Unnamed(l)) => Choice::Fx(LeafT::from_leaf(l)),
            (8, EnumBody::Unnamed(l)) => Choice::Dbl(LeafT::from_leaf(l)),
            (9, EnumBody::Unnamed(l)) => Choice::B32(LeafT::from_leaf(l)),
            (10, EnumBody::Unnamed(l)) => Choice::Deep(LeafT::from_leaf(l)),
            (11, EnumBody::Unnamed(l)) => Choice::Void(LeafT::from_leaf(l)),
            other => panic!("harness: bad enum value {other:?}"),
        }
    }
    fn lift(&self) -> DMsg {
        match self {
            Choice::Nop => DMsg::Enum(0, EnumBody::Unit),
            Choice::Num(x) => DMsg::Enum(1, EnumBody::Unnamed(x.to_leaf())),
            Choice::Sig(x) => DMsg::Enum(2, EnumBody::Unnamed(x.to_leaf())),
            Choice::Text(x) => DMsg::Enum(3, EnumBody::Unnamed(x.to_leaf())),
            Choice::Raw(x) => DMsg::Enum(4, EnumBody::Unnamed(x.to_leaf())),
            Choice::Sub(x) => DMsg::Enum(5, EnumBody::Unnamed(x.to_leaf())),
            Choice::Pair { x, l, zs } => DMsg::Enum(6, EnumBody::Named(vec![x.to_dval(), l.to_dval(), zs.to_dval()])),
            Choice::Fx(x) => DMsg::Enum(7, EnumBody::Unnamed(x.to_leaf())),
            Choice::Dbl(x) => DMsg::Enum(8, EnumBody::Unnamed(x.to_leaf())),
            Choice::B32(x) => DMsg::Enum(9, EnumBody::Unnamed(x.to_leaf())),
            Choice::Deep(x) => DMsg::Enum(10, EnumBody::Unnamed(x.to_leaf())),
            Choice::Void(x) => DMsg::Enum(11, EnumBody::Unnamed(x.to_leaf())),
        }
    }
}

impl LeafT for Choice {
    fn from_leaf(l: &Leaf) -> Self {
        match l {
            Leaf::Msg(d) => Self::lower(d),
            other => panic!("harness: leaf {other:?} is not a message"),
        }
    }
    fn to_leaf(&self) -> Leaf {
        Leaf::Msg(Box::new(self.lift()))
    }
}
one_via_leaf!(Choice);
rep_of!(Choice);

fam_struct! {
    #[derive(Default)]
    Holder {
        (1, message, Ty::Msg(MsgId::Choice), One) a: [Choice],
        (2, message, Ty::Msg(MsgId::Choice), Opt) b: [Option<Choice>],
        (3, message, Ty::Msg(MsgId::Choice), Rep) c: [Vec<Choice>],
        (4, uint64, Ty::Uint64, One) tail: [u64],
    }
}

pub type ResTop = Result<Leaf3, SError>;

pub fn serror_from_text(text: &str) -> Option<SError> {
    handled::parse(text).ok().map(SError::from)
}

impl Fam for ResTop {
    fn schema() -> Schema {
        Schema::Result(MsgId::Leaf)
    }
    fn lower(d: &DMsg) -> Self {
        match d {
            DMsg::ResOk(d) => Ok(Leaf3::lower(d)),
            DMsg::ResErr(t) => Err(serror_from_text(t).expect("harness: error text does not parse")),
            other => panic!("harness: {other:?} is not a result value"),
        }
    }
    fn lift(&self) -> DMsg {
        match self {
            Ok(x) => DMsg::ResOk(Box::new(x.lift())),
            Err(e) => DMsg::ResErr(e.to_string()),
        }
    }
}

impl LeafT for ResTop {
    fn from_leaf(l: &Leaf) -> Self {
        match l {
            Leaf::Msg(d) => Self::lower(d),
            other => panic!("harness: leaf {other:?} is not a message"),
        }
    }
    fn to_leaf(&self) -> Leaf {
        Leaf::Msg(Box::new(self.lift()))
    }
}
one_via_leaf!(ResTop);

fam_struct! {
    WithRes {
        (1, message, Ty::Msg(MsgId::ResTop), One) r: [Result<Leaf3, SError>],
        (2, uint64, Ty::Uint64, One) after: [u64],
    }
}

impl Default for WithRes {
    fn default() -> Self {
        WithRes {
            r: Err(prototk::success()),
            after: 0,
        }
    }
}

/// Borrowed natives: `&[u8]` and `&str`.
#[derive(Clone, Debug, Default, Message, PartialEq)]
pub struct Borrowed<'a> {
    #[prototk(1, bytes)]
    pub b: &'a [u8],
    #[prototk(2, string)]
    pub s: &'a str,
    #[prototk(3, uint64)]
    pub n: u64,
}

fn borrowed_schema() -> Schema {
    Schema::Struct(vec![
        FieldSpec { num: 1, ty: Ty::Bytes, shape: Shape::One },
        FieldSpec { num: 2, ty: Ty::Str, shape: Shape::One },
        FieldSpec { num: 3, ty: Ty::Uint64, shape: Shape::One },
    ])
}

fn borrowed_lower(d: &DMsg) -> Borrowed<'_> {
    match d {
        DMsg::Struct(v) => match (&v[0], &v[1], &v[2]) {
            (DVal::One(Leaf::Bytes(b)), DVal::One(Leaf::Str(s)), DVal::One(Leaf::U64(n))) => Borrowed { b, s, n: *n },
            other => panic!("harness: bad borrowed value {other:?}"),
        },
        other => panic!("harness: {other:?} is not a struct value"),
    }
}

fn borrowed_lift(b: &Borrowed<'_>) -> DMsg {
    DMsg::Struct(vec![
        DVal::One(Leaf::Bytes(b.b.to_vec())),
        DVal::One(Leaf::Str(b.s.to_string())),
        DVal::One(Leaf::U64(b.n)),
    ])
}

//////////////////////////////////// forms the first family lacked //////////////////////////////////

// `string` x `PathBuf` (prototk/src/field_types.rs: its own pack helper writes the raw OS bytes, its
// unpack goes through `string`), singular / optional / repeated, plus `bytes` x `Option<PathBuf>`.
fam_struct! {
    #[derive(Default)]
    Paths {
        (1, string, Ty::StrPath, One) p: [std::path::PathBuf],
        (2, uint64, Ty::Uint64, One) mid: [u64],
        (3, string, Ty::StrPath, Opt) o: [Option<std::path::PathBuf>],
        (4, string, Ty::StrPath, Rep) r: [Vec<std::path::PathBuf>],
        (5, bytes, Ty::Bytes, Opt) bo: [Option<std::path::PathBuf>],
        (6, uint64, Ty::Uint64, One) tail: [u64],
    }
}

/// Derive on a tuple struct (fields are `ret.0`, `ret.1`, … in the generated code).
#[derive(Clone, Debug, Default, Message, PartialEq)]
pub struct Tup(
    #[prototk(1, uint64)] pub u64,
    #[prototk(2, string)] pub String,
    #[prototk(3, message)] pub Option<Leaf3>,
    #[prototk(4, sint32)] pub Vec<i32>,
    #[prototk(2049, float)] pub f32,
);

fn tup_specs() -> Vec<FieldSpec> {
    vec![
        FieldSpec { num: 1, ty: Ty::Uint64, shape: Shape::One },
        FieldSpec { num: 2, ty: Ty::Str, shape: Shape::One },
        FieldSpec { num: 3, ty: Ty::Msg(MsgId::Leaf), shape: Shape::Opt },
        FieldSpec { num: 4, ty: Ty::Sint32, shape: Shape::Rep },
        FieldSpec { num: 2049, ty: Ty::Float, shape: Shape::One },
    ]
}

impl Fam for Tup {
    fn schema() -> Schema {
        Schema::Struct(tup_specs())
    }
    fn lower(d: &DMsg) -> Self {
        let DMsg::Struct(v) = d else { panic!("harness: {d:?} is not a struct value") };
        assert_eq!(v.len(), 5, "harness: arity");
        Tup(FromDVal::from_dval(&v[0]), FromDVal::from_dval(&v[1]), FromDVal::from_dval(&v[2]), FromDVal::from_dval(&v[3]), FromDVal::from_dval(&v[4]))
    }
    fn lift(&self) -> DMsg {
        DMsg::Struct(vec![self.0.to_dval(), self.1.to_dval(), self.2.to_dval(), self.3.to_dval(), self.4.to_dval()])
    }
}

/// Derive on a unit struct: no fields, encodes to nothing.
#[derive(Clone, Debug, Default, Message, PartialEq)]
pub struct UnitS;

impl Fam for UnitS {
    fn schema() -> Schema {
        Schema::Struct(vec![])
    }
    fn lower(d: &DMsg) -> Self {
        match d {
            DMsg::Struct(v) if v.is_empty() => UnitS,
            other => panic!("harness: {other:?} is not a unit struct value"),
        }
    }
    fn lift(&self) -> DMsg {
        DMsg::Struct(vec![])
    }
}

macro_rules! msg_leaf {
    ($name:ident) => {
        impl LeafT for $name {
            fn from_leaf(l: &Leaf) -> Self {
                match l {
                    Leaf::Msg(d) => Self::lower(d),
                    other => panic!("harness: leaf {other:?} is not a message"),
                }
            }
            fn to_leaf(&self) -> Leaf {
                Leaf::Msg(Box::new(self.lift()))
            }
        }
        one_via_leaf!($name);
        rep_of!($name);
    };
}

msg_leaf!(Tup);
msg_leaf!(UnitS);

/// The named-variant forms `Choice::Pair` lacks: a `[u8; 64]` field (special-cased by the derive
/// because `[u8; 64]` has no `Default`), bytes, string, float, fixed-width, fixed-size bytes, bool,
/// `PathBuf` fields; plus an unnamed `[u8; 64]` / `[u8; 16]` variant and the tuple / unit structs
/// as payloads.
#[derive(Clone, Debug, Default, Message, PartialEq)]
pub enum Wide {
    #[prototk(3, message)]
    #[default]
    Nil,
    #[prototk(1, message)]
    Big {
        #[prototk(1, bytes64)]
        b: [u8; 64],
        #[prototk(2, string)]
        s: String,
        #[prototk(3, float)]
        f: f32,
        #[prototk(4, bytes)]
        raw: Vec<u8>,
        #[prototk(5, fixed32)]
        x: u32,
        #[prototk(6, bytes16)]
        k: [u8; 16],
        #[prototk(7, sfixed64)]
        y: i64,
        #[prototk(8, Bool)]
        t: bool,
        #[prototk(9, string)]
        ss: Vec<String>,
        #[prototk(10, double)]
        d: Option<f64>,
        #[prototk(2050, string)]
        p: std::path::PathBuf,
    },
    #[prototk(2, bytes64)]
    B64([u8; 64]),
    #[prototk(4, message)]
    T(Tup),
    #[prototk(5, message)]
    U(UnitS),
    #[prototk(6, bytes16)]
    B16([u8; 16]),
    #[prototk(7, float)]
    F(f32),
    #[prototk(8, message)]
    Two {
        #[prototk(1, bytes64)]
        first: [u8; 64],
        #[prototk(2, bytes64)]
        second: [u8; 64],
    },
}

fn wide_big_specs() -> Vec<FieldSpec> {
    vec![
        FieldSpec { num: 1, ty: Ty::Bytes64, shape: Shape::One },
        FieldSpec { num: 2, ty: Ty::Str, shape: Shape::One },
        FieldSpec { num: 3, ty: Ty::Float, shape: Shape::One },
        FieldSpec { num: 4, ty: Ty::Bytes, shape: Shape::One },
        FieldSpec { num: 5, ty: Ty::Fixed32, shape: Shape::One },
        FieldSpec { num: 6, ty: Ty::Bytes16, shape: Shape::One },
        FieldSpec { num: 7, ty: Ty::Sfixed64, shape: Shape::One },
        FieldSpec { num: 8, ty: Ty::Bool, shape: Shape::One },
        FieldSpec { num: 9, ty: Ty::Str, shape: Shape::Rep },
        FieldSpec { num: 10, ty: Ty::Double, shape: Shape::Opt },
        FieldSpec { num: 2050, ty: Ty::StrPath, shape: Shape::One },
    ]
}

fn wide_two_specs() -> Vec<FieldSpec> {
    vec![
        FieldSpec { num: 1, ty: Ty::Bytes64, shape: Shape::One },
        FieldSpec { num: 2, ty: Ty::Bytes64, shape: Shape::One },
    ]
}

impl Fam for Wide {
    fn schema() -> Schema {
        Schema::Enum(vec![
            VariantSpec::Unit(3),
            VariantSpec::Named(1, wide_big_specs()),
            VariantSpec::Unnamed(2, Ty::Bytes64),
            VariantSpec::Unnamed(4, Ty::Msg(MsgId::Tup)),
            VariantSpec::Unnamed(5, Ty::Msg(MsgId::UnitS)),
            VariantSpec::Unnamed(6, Ty::Bytes16),
            VariantSpec::Unnamed(7, Ty::Float),
            VariantSpec::Named(8, wide_two_specs()),
        ])
    }
    fn lower(d: &DMsg) -> Self {
        let DMsg::Enum(i, body) = d else { panic!("harness: {d:?} is not an enum value") };
        match (*i, body) {
            (0, EnumBody::Unit) => Wide::Nil,
            (1, EnumBody::Named(v)) => Wide::Big {
                b: FromDVal::from_dval(&v[0]),
                s: FromDVal::from_dval(&v[1]),
                f: FromDVal::from_dval(&v[2]),
                raw: FromDVal::from_dval(&v[3]),
                x: FromDVal::from_dval(&v[4]),
                k: FromDVal::from_dval(&v[5]),
                y: FromDVal::from_dval(&v[6]),
                t: FromDVal::from_dval(&v[7]),
                ss: FromDVal::from_dval(&v[8]),
                d: FromDVal::from_dval(&v[9]),
                p: FromDVal::from_dval(&v[10]),
            },
            (2, EnumBody::Unnamed(l)) => Wide::B64(LeafT::from_leaf(l)),
            (3, EnumBody::Unnamed(l)) => Wide::T(LeafT::from_leaf(l)),
            (4, EnumBody::Unnamed(l)) => Wide::U(LeafT::from_leaf(l)),
            (5, EnumBody::Unnamed(l)) => Wide::B16(LeafT::from_leaf(l)),
            (6, EnumBody::Unnamed(l)) => Wide::F(LeafT::from_leaf(l)),
            (7, EnumBody::Named(v)) => Wide::Two {
                first: FromDVal::from_dval(&v[0]),
                second: FromDVal::from_dval(&v[1]),
            },
            other => panic!("harness: bad enum value {other:?}"),
        }
    }
    fn lift(&self) -> DMsg {
        match self {
            Wide::Nil => DMsg::Enum(0, EnumBody::Unit),
            Wide::Big { b, s, f, raw, x, k, y, t, ss, d, p } => DMsg::Enum(
                1,
                EnumBody::Named(vec![b.to_dval(), s.to_dval(), f.to_dval(), raw.to_dval(), x.to_dval(), k.to_dval(), y.to_dval(), t.to_dval(), ss.to_dval(), d.to_dval(), p.to_dval()]),
            ),
            Wide::B64(x) => DMsg::Enum(2, EnumBody::Unnamed(x.to_leaf())),
            Wide::T(x) => DMsg::Enum(3, EnumBody::Unnamed(x.to_leaf())),
            Wide::U(x) => DMsg::Enum(4, EnumBody::Unnamed(x.to_leaf())),
            Wide::B16(x) => DMsg::Enum(5, EnumBody::Unnamed(x.to_leaf())),
            Wide::F(x) => DMsg::Enum(6, EnumBody::Unnamed(x.to_leaf())),
            Wide::Two { first, second } => DMsg::Enum(7, EnumBody::Named(vec![first.to_dval(), second.to_dval()])),
        }
    }
}

msg_leaf!(Wide);

fam_struct! {
    #[derive(Default)]
    Holder2 {
        (1, message, Ty::Msg(MsgId::Wide), One) w: [Wide],
        (2, message, Ty::Msg(MsgId::Tup), One) t: [Tup],
        (3, message, Ty::Msg(MsgId::UnitS), One) u: [UnitS],
        (4, message, Ty::Msg(MsgId::Paths), Opt) p: [Option<Paths>],
        (5, message, Ty::Msg(MsgId::Wide), Rep) ws: [Vec<Wide>],
        (6, message, Ty::Msg(MsgId::Tup), Rep) ts: [Vec<Tup>],
        (7, message, Ty::Msg(MsgId::UnitS), Opt) uo: [Option<UnitS>],
        (8, uint64, Ty::Uint64, One) tail: [u64],
    }
}

///////////////////////////////////////////// dispatch /////////////////////////////////////////////

pub fn schema(id: MsgId) -> Schema {
    match id {
        MsgId::Empty => Empty::schema(),
        MsgId::Leaf => Leaf3::schema(),
        MsgId::Varints => Varints::schema(),
        MsgId::Fixeds => Fixeds::schema(),
        MsgId::Floats => Floats::schema(),
        MsgId::Blobs => Blobs::schema(),
        MsgId::Opts => Opts::schema(),
        MsgId::Reps => Reps::schema(),
        MsgId::Nest => Nest::schema(),
        MsgId::Tree => Tree::schema(),
        MsgId::Choice => Choice::schema(),
        MsgId::Holder => Holder::schema(),
        MsgId::ResTop => ResTop::schema(),
        MsgId::WithRes => WithRes::schema(),
        MsgId::Borrowed => borrowed_schema(),
        MsgId::Paths => Paths::schema(),
        MsgId::Tup => Tup::schema(),
        MsgId::UnitS => UnitS::schema(),
        MsgId::Wide => Wide::schema(),
        MsgId::Holder2 => Holder2::schema(),
    }
}

/// Everything the implementation produced for one value.
pub struct Encoded {
    pub pack_sz: usize,
    /// `stack_pack(&v).to_vec()`
    pub bytes: Vec<u8>,
    /// `stack_pack(&v).into_slice(<larger buffer>)`
    pub sliced: Vec<u8>,
    /// `stack_pack(&v).append_to_vec(<non-empty vector>)`, the appended part
    pub appended: Vec<u8>,
    /// `v.stream(&mut Vec)`
    pub streamed: Vec<u8>,
    pub stream_ret: usize,
}

fn encode_t<T: Packable>(t: &T) -> Encoded {
    let pack_sz = t.pack_sz();
    let bytes = stack_pack(t).to_vec();
    let mut big = vec![0xa5u8; pack_sz + 9];
    let sliced = stack_pack(t).into_slice(&mut big).to_vec();
    let mut app = vec![0x5au8; 3];
    stack_pack(t).append_to_vec(&mut app);
    let appended = app[3..].to_vec();
    let mut streamed = vec![];
    let stream_ret = t.stream(&mut streamed).expect("write to a Vec cannot fail");
    Encoded {
        pack_sz,
        bytes,
        sliced,
        appended,
        streamed,
        stream_ret,
    }
}

fn enc<T: Fam + Packable>(d: &DMsg) -> Encoded {
    encode_t(&T::lower(d))
}

fn dec<T>(b: &[u8]) -> Result<(DMsg, usize), String>
where
    T: Fam + for<'a> Unpackable<'a>,
{
    match <T as Unpackable>::unpack(b) {
        Ok((t, rem)) => Ok((t.lift(), rem.len())),
        Err(e) => Err(format!("{e:?}")),
    }
}

/// Lower the dynamic value to the typed value of type `id` and pack it every way the API offers.
pub fn encode(id: MsgId, d: &DMsg) -> Encoded {
    match id {
        MsgId::Empty => enc::<Empty>(d),
        MsgId::Leaf => enc::<Leaf3>(d),
        MsgId::Varints => enc::<Varints>(d),
        MsgId::Fixeds => enc::<Fixeds>(d),
        MsgId::Floats => enc::<Floats>(d),
        MsgId::Blobs => enc::<Blobs>(d),
        MsgId::Opts => enc::<Opts>(d),
        MsgId::Reps => enc::<Reps>(d),
        MsgId::Nest => enc::<Nest>(d),
        MsgId::Tree => enc::<Tree>(d),
        MsgId::Choice => enc::<Choice>(d),
        MsgId::Holder => enc::<Holder>(d),
        MsgId::ResTop => enc::<ResTop>(d),
        MsgId::WithRes => enc::<WithRes>(d),
        MsgId::Borrowed => encode_t(&borrowed_lower(d)),
        MsgId::Paths => enc::<Paths>(d),
        MsgId::Tup => enc::<Tup>(d),
        MsgId::UnitS => enc::<UnitS>(d),
        MsgId::Wide => enc::<Wide>(d),
        MsgId::Holder2 => enc::<Holder2>(d),
    }
}

/// `Unpackable::unpack` as type `id`, lifted back into the dynamic tree, plus the length of the
/// returned remainder.
pub fn decode(id: MsgId, b: &[u8]) -> Result<(DMsg, usize), String> {
    match id {
        MsgId::Empty => dec::<Empty>(b),
        MsgId::Leaf => dec::<Leaf3>(b),
        MsgId::Varints => dec::<Varints>(b),
        MsgId::Fixeds => dec::<Fixeds>(b),
        MsgId::Floats => dec::<Floats>(b),
        MsgId::Blobs => dec::<Blobs>(b),
        MsgId::Opts => dec::<Opts>(b),
        MsgId::Reps => dec::<Reps>(b),
        MsgId::Nest => dec::<Nest>(b),
        MsgId::Tree => dec::<Tree>(b),
        MsgId::Choice => dec::<Choice>(b),
        MsgId::Holder => dec::<Holder>(b),
        MsgId::ResTop => dec::<ResTop>(b),
        MsgId::WithRes => dec::<WithRes>(b),
        MsgId::Borrowed => match <Borrowed as Unpackable>::unpack(b) {
            Ok((t, rem)) => Ok((borrowed_lift(&t), rem.len())),
            Err(e) => Err(format!("{e:?}")),
        },
        MsgId::Paths => dec::<Paths>(b),
        MsgId::Tup => dec::<Tup>(b),
        MsgId::UnitS => dec::<UnitS>(b),
        MsgId::Wide => dec::<Wide>(b),
        MsgId::Holder2 => dec::<Holder2>(b),
    }
}
