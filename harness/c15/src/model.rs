//! Dynamic value trees, schemas and the INDEPENDENT reference wire encoder for C15.
//!
//! Nothing in this file calls buffertk / prototk: the encoder below is written from the
//! protocol-buffers encoding document (varint, zig-zag, tag = field << 3 | wire type,
//! little-endian fixed-width, length-delimited).  prototk's legal encoding choices that the
//! reference mirrors: fields are written in declaration order, every non-optional field is always
//! written (also when zero/empty), `Option::None` writes nothing, `Vec` writes one tagged element
//! per item (never packed), a unit enum variant is written as an empty length-delimited field.

use std::collections::BTreeMap;

use serde::{Deserialize, Serialize};

/////////////////////////////////////////////// schema /////////////////////////////////////////////

#[derive(Clone, Copy, Debug, PartialEq, Eq, Hash, PartialOrd, Ord, Serialize, Deserialize)]
pub enum MsgId {
    Empty,
    Leaf,
    Varints,
    Fixeds,
    Floats,
    Blobs,
    Opts,
    Reps,
    Nest,
    Tree,
    Choice,
    Holder,
    ResTop,
    WithRes,
    Borrowed,
    /// `string` x `PathBuf` in every shape (and `bytes` x `Option<PathBuf>`)
    Paths,
    /// derive on a tuple struct
    Tup,
    /// derive on a unit struct
    UnitS,
    /// enum whose named variant has `[u8; 64]`, bytes, string, float, fixed-width and fixed-size
    /// bytes fields; the tuple / unit structs as variant payloads
    Wide,
    /// the four above as singular / optional / repeated message fields
    Holder2,
}

#[allow(dead_code)]
pub const ALL_IDS: [MsgId; 20] = [
    MsgId::Empty,
    MsgId::Leaf,
    MsgId::Varints,
    MsgId::Fixeds,
    MsgId::Floats,
    MsgId::Blobs,
    MsgId::Opts,
    MsgId::Reps,
    MsgId::Nest,
    MsgId::Tree,
    MsgId::Choice,
    MsgId::Holder,
    MsgId::ResTop,
    MsgId::WithRes,
    MsgId::Borrowed,
    MsgId::Paths,
    MsgId::Tup,
    MsgId::UnitS,
    MsgId::Wide,
    MsgId::Holder2,
];

#[derive(Clone, Copy, Debug, PartialEq, Eq)]
pub enum Ty {
    Int32,
    Int64,
    Uint32,
    Uint64,
    Sint32,
    Sint64,
    Bool,
    Fixed32,
    Fixed64,
    Sfixed32,
    Sfixed64,
    Float,
    Double,
    Bytes,
    Bytes16,
    Bytes32,
    Bytes64,
    Str,
    /// a `string` field whose native type is `PathBuf`: the value is the path's raw OS bytes
    /// (`Leaf::Bytes`), written as they are; a protobuf string holds UTF-8, so only UTF-8 paths are
    /// generated for it
    StrPath,
    Msg(MsgId),
}

impl Ty {
    /// Wire type per the protocol-buffers encoding document.
    pub fn wire_type(self) -> u8 {
        match self {
            Ty::Int32 | Ty::Int64 | Ty::Uint32 | Ty::Uint64 | Ty::Sint32 | Ty::Sint64 | Ty::Bool => 0,
            Ty::Fixed64 | Ty::Sfixed64 | Ty::Double => 1,
            Ty::Bytes | Ty::Bytes16 | Ty::Bytes32 | Ty::Bytes64 | Ty::Str | Ty::StrPath | Ty::Msg(_) => 2,
            Ty::Fixed32 | Ty::Sfixed32 | Ty::Float => 5,
        }
    }
}

#[derive(Clone, Copy, Debug, PartialEq, Eq)]
pub enum Shape {
    One,
    Opt,
    Rep,
}

#[derive(Clone, Debug)]
pub struct FieldSpec {
    pub num: u32,
    pub ty: Ty,
    pub shape: Shape,
}

#[derive(Clone, Debug)]
pub enum VariantSpec {
    Unit(u32),
    Unnamed(u32, Ty),
    Named(u32, Vec<FieldSpec>),
}

#[derive(Clone, Debug)]
pub enum Schema {
    Struct(Vec<FieldSpec>),
    Enum(Vec<VariantSpec>),
    /// `Result<T, SError>`: a message with exactly one of field 1 (T) or field 2 (error text).
    Result(MsgId),
}

/// Field numbers no schema of the family uses at any level: the pool of "unknown" fields.
pub const UNKNOWN_NUMS: [u32; 14] = [
    12, 13, 127, 128, 999, 16383, 16384, 18998, 20001, 2097151, 2097152, 268435455, 268435456, 536870910,
];

////////////////////////////////////////////// values //////////////////////////////////////////////

/// One field element.  Floats are kept as bit patterns so NaN payloads survive JSON and compare
/// bitwise; fixed-size byte arrays are `Bytes` of the exact length.
#[derive(Clone, Debug, PartialEq, Eq, Serialize, Deserialize)]
pub enum Leaf {
    I32(i32),
    I64(i64),
    U32(u32),
    U64(u64),
    Bool(bool),
    F32(u32),
    F64(u64),
    Bytes(Vec<u8>),
    Str(String),
    Msg(Box<DMsg>),
}

#[derive(Clone, Debug, PartialEq, Eq, Serialize, Deserialize)]
pub enum DVal {
    One(Leaf),
    Opt(Option<Leaf>),
    Rep(Vec<Leaf>),
}

#[derive(Clone, Debug, PartialEq, Eq, Serialize, Deserialize)]
pub enum EnumBody {
    Unit,
    Unnamed(Leaf),
    Named(Vec<DVal>),
}

#[derive(Clone, Debug, PartialEq, Eq, Serialize, Deserialize)]
pub enum DMsg {
    /// One `DVal` per declared field, in declaration order.
    Struct(Vec<DVal>),
    /// Variant index into the schema's variant list.
    Enum(usize, EnumBody),
    ResOk(Box<DMsg>),
    /// The display text of the `SError`.
    ResErr(String),
}

/////////////////////////////////////////// plain encoders /////////////////////////////////////////

pub fn ref_varint(mut x: u64, out: &mut Vec<u8>) {
    loop {
        let b = (x & 0x7f) as u8;
        x >>= 7;
        if x == 0 {
            out.push(b);
            return;
        }
        out.push(b | 0x80);
    }
}

pub fn ref_varint_len(x: u64) -> usize {
    let bits = 64 - x.leading_zeros() as usize;
    if bits == 0 { 1 } else { bits.div_ceil(7) }
}

/// `len` groups of seven bits, little-endian, continuation bit on all but the last.  `len` may
/// exceed the canonical length (non-canonical encoding) and may exceed ten (over-long).
pub fn ref_varint_padded(x: u64, len: usize, out: &mut Vec<u8>) {
    let len = len.max(ref_varint_len(x));
    for i in 0..len {
        let g = if 7 * i < 64 { ((x >> (7 * i)) & 0x7f) as u8 } else { 0 };
        out.push(if i + 1 < len { g | 0x80 } else { g });
    }
}

pub fn ref_zigzag(x: i64) -> u64 {
    // "Negative values i output -2i-1; positive values of i output 2i."
    if x >= 0 {
        (x as u64).wrapping_mul(2)
    } else {
        ((-(x as i128) * 2 - 1) as u128) as u64
    }
}

pub fn ref_unzigzag(u: u64) -> i64 {
    if u & 1 == 0 { (u >> 1) as i64 } else { (-(((u >> 1) as i128) + 1)) as i64 }
}

////////////////////////////////////////// planned encoder /////////////////////////////////////////

#[derive(Clone, Copy, Debug, PartialEq, Eq)]
pub enum BKind {
    /// Between two fields of a struct body (top level or nested): an unknown field here must be
    /// skipped.
    StructBody,
    /// Between two fields inside the body of a named enum variant.
    NamedBody,
    /// After the single field of an enum / Result that is itself the payload of a message field.
    OneofTail,
    /// Before the single (variant) field of an enum / Result, nested or top level.
    OneofHead,
    /// After the single field of a TOP-LEVEL enum / Result.
    OneofTailTop,
}

#[derive(Clone, Debug)]
pub struct BInfo {
    pub kind: BKind,
    /// nesting depth of the enclosing body (0 = top level)
    pub depth: usize,
    /// (field number, wire type) pairs the enclosing body knows.
    pub known: Vec<(u32, u8)>,
    /// OneofHead only: the enum / Result is the payload of a message field (else: top level).
    pub nested: bool,
}

#[derive(Clone, Copy, Debug, PartialEq, Eq)]
pub enum Role {
    Tag,
    Len,
    Value,
}

#[derive(Clone, Copy, Debug, PartialEq, Eq)]
pub enum Tweak {
    /// Encode with this many extra (zero) groups, capped at ten bytes: non-canonical but in range.
    Pad(u8),
    /// Eleven or more bytes: over-long.
    Overlong(u8),
}

#[derive(Clone, Debug, Default)]
pub struct Plan {
    /// boundary index -> raw bytes inserted there
    pub splices: BTreeMap<usize, Vec<u8>>,
    /// varint index -> how to mis-encode it
    pub tweaks: BTreeMap<usize, Tweak>,
    /// index into `Enc::oneof_boundaries` -> raw bytes inserted there.  (A second list, so that the
    /// indices of `splices` - and with them every saved replay - keep their meaning.)
    pub oneof_splices: BTreeMap<usize, Vec<u8>>,
}

#[derive(Clone, Debug, Default)]
pub struct Stats {
    pub fields: usize,
    pub nested: usize,
    pub max_depth: usize,
    pub rep_nonempty: usize,
    pub rep_multi: usize,
    pub rep_empty: usize,
    pub opt_none: usize,
    pub opt_some: usize,
    pub boundary_ints: usize,
    pub negative_varint: usize,
    pub nan: usize,
    pub float_special: usize,
    pub empty_nested: usize,
    pub len_ge_128: usize,
    pub multibyte_tag: usize,
    pub enum_unit: usize,
    pub enum_named: usize,
    pub enum_unnamed: usize,
    pub result_ok: usize,
    pub result_err: usize,
    pub has_float32: bool,
    pub path_strings: usize,
}

fn is_boundary_u64(x: u64) -> bool {
    x == 0
        || x == u64::MAX
        || x.is_power_of_two()
        || x.wrapping_add(1).is_power_of_two()
        || (x > 1 && (x - 1).is_power_of_two())
}

fn is_boundary_i64(x: i64) -> bool {
    is_boundary_u64(x as u64) || is_boundary_u64(x.unsigned_abs())
}

pub struct Enc<'p> {
    plan: Option<&'p Plan>,
    pub boundaries: Vec<BInfo>,
    /// boundaries around the variant field of enums / Results that `boundaries` does not have:
    /// before it (nested and top level) and after it at top level
    pub oneof_boundaries: Vec<BInfo>,
    pub varints: Vec<Role>,
    pub stats: Stats,
    schema: fn(MsgId) -> Schema,
}

impl<'p> Enc<'p> {
    pub fn new(schema: fn(MsgId) -> Schema, plan: Option<&'p Plan>) -> Self {
        Self {
            plan,
            boundaries: vec![],
            oneof_boundaries: vec![],
            varints: vec![],
            stats: Stats::default(),
            schema,
        }
    }

    fn varint(&mut self, x: u64, role: Role, out: &mut Vec<u8>) {
        let idx = self.varints.len();
        self.varints.push(role);
        match self.plan.and_then(|p| p.tweaks.get(&idx)) {
            None => ref_varint(x, out),
            Some(Tweak::Pad(n)) => ref_varint_padded(x, (ref_varint_len(x) + *n as usize).min(10), out),
            Some(Tweak::Overlong(n)) => ref_varint_padded(x, 11 + *n as usize, out),
        }
    }

    fn boundary(&mut self, kind: BKind, depth: usize, known: &[(u32, u8)], out: &mut Vec<u8>) {
        let idx = self.boundaries.len();
        self.boundaries.push(BInfo {
            kind,
            depth,
            known: known.to_vec(),
            nested: depth > 0,
        });
        if let Some(bytes) = self.plan.and_then(|p| p.splices.get(&idx)) {
            out.extend_from_slice(bytes);
        }
    }

    fn oneof_boundary(&mut self, kind: BKind, depth: usize, nested: bool, known: &[(u32, u8)], out: &mut Vec<u8>) {
        let idx = self.oneof_boundaries.len();
        self.oneof_boundaries.push(BInfo {
            kind,
            depth,
            known: known.to_vec(),
            nested,
        });
        if let Some(bytes) = self.plan.and_then(|p| p.oneof_splices.get(&idx)) {
            out.extend_from_slice(bytes);
        }
    }

    /// After the variant field: the boundary older replays know when nested, the new one at top level.
    fn oneof_tail(&mut self, depth: usize, nested: bool, known: &[(u32, u8)], out: &mut Vec<u8>) {
        if nested {
            self.boundary(BKind::OneofTail, depth, &[], out);
        } else {
            self.oneof_boundary(BKind::OneofTailTop, depth, false, known, out);
        }
    }

    fn tag(&mut self, num: u32, wt: u8, out: &mut Vec<u8>) {
        if num >= 16 {
            self.stats.multibyte_tag += 1;
        }
        self.varint(((num as u64) << 3) | wt as u64, Role::Tag, out);
    }

    fn len_prefixed(&mut self, body: &[u8], out: &mut Vec<u8>) {
        if body.len() >= 128 {
            self.stats.len_ge_128 += 1;
        }
        self.varint(body.len() as u64, Role::Len, out);
        out.extend_from_slice(body);
    }

    /// One complete field: tag and payload.
    fn leaf(&mut self, num: u32, ty: Ty, leaf: &Leaf, depth: usize, out: &mut Vec<u8>) {
        self.stats.fields += 1;
        self.tag(num, ty.wire_type(), out);
        match (ty, leaf) {
            (Ty::Int32, Leaf::I32(x)) => {
                if is_boundary_i64(*x as i64) || *x == i32::MIN || *x == i32::MAX {
                    self.stats.boundary_ints += 1;
                }
                if *x < 0 {
                    self.stats.negative_varint += 1;
                }
                // sign-extended to 64 bits: negative values take ten bytes
                self.varint(*x as i64 as u64, Role::Value, out)
            }
            (Ty::Int64, Leaf::I64(x)) => {
                if is_boundary_i64(*x) {
                    self.stats.boundary_ints += 1;
                }
                if *x < 0 {
                    self.stats.negative_varint += 1;
                }
                self.varint(*x as u64, Role::Value, out)
            }
            (Ty::Uint32, Leaf::U32(x)) => {
                if is_boundary_u64(*x as u64) || *x == u32::MAX {
                    self.stats.boundary_ints += 1;
                }
                self.varint(*x as u64, Role::Value, out)
            }
            (Ty::Uint64, Leaf::U64(x)) => {
                if is_boundary_u64(*x) {
                    self.stats.boundary_ints += 1;
                }
                self.varint(*x, Role::Value, out)
            }
            (Ty::Sint32, Leaf::I32(x)) => {
                if is_boundary_i64(*x as i64) || *x == i32::MIN || *x == i32::MAX {
                    self.stats.boundary_ints += 1;
                }
                self.varint(ref_zigzag(*x as i64), Role::Value, out)
            }
            (Ty::Sint64, Leaf::I64(x)) => {
                if is_boundary_i64(*x) {
                    self.stats.boundary_ints += 1;
                }
                self.varint(ref_zigzag(*x), Role::Value, out)
            }
            (Ty::Bool, Leaf::Bool(b)) => self.varint(*b as u64, Role::Value, out),
            (Ty::Fixed32, Leaf::U32(x)) => {
                if is_boundary_u64(*x as u64) || *x == u32::MAX {
                    self.stats.boundary_ints += 1;
                }
                out.extend_from_slice(&x.to_le_bytes())
            }
            (Ty::Fixed64, Leaf::U64(x)) => {
                if is_boundary_u64(*x) {
                    self.stats.boundary_ints += 1;
                }
                out.extend_from_slice(&x.to_le_bytes())
            }
            (Ty::Sfixed32, Leaf::I32(x)) => {
                if is_boundary_i64(*x as i64) || *x == i32::MIN || *x == i32::MAX {
                    self.stats.boundary_ints += 1;
                }
                out.extend_from_slice(&x.to_le_bytes())
            }
            (Ty::Sfixed64, Leaf::I64(x)) => {
                if is_boundary_i64(*x) {
                    self.stats.boundary_ints += 1;
                }
                out.extend_from_slice(&x.to_le_bytes())
            }
            (Ty::Float, Leaf::F32(bits)) => {
                self.stats.has_float32 = true;
                let f = f32::from_bits(*bits);
                if f.is_nan() {
                    self.stats.nan += 1;
                }
                if !f.is_normal() {
                    self.stats.float_special += 1;
                }
                out.extend_from_slice(&bits.to_le_bytes())
            }
            (Ty::Double, Leaf::F64(bits)) => {
                let f = f64::from_bits(*bits);
                if f.is_nan() {
                    self.stats.nan += 1;
                }
                if !f.is_normal() {
                    self.stats.float_special += 1;
                }
                out.extend_from_slice(&bits.to_le_bytes())
            }
            (Ty::Bytes | Ty::Bytes16 | Ty::Bytes32 | Ty::Bytes64, Leaf::Bytes(b)) => self.len_prefixed(b, out),
            (Ty::Str, Leaf::Str(s)) => self.len_prefixed(s.as_bytes(), out),
            (Ty::StrPath, Leaf::Bytes(b)) => {
                self.stats.path_strings += 1;
                self.len_prefixed(b, out)
            }
            (Ty::Msg(sub), Leaf::Msg(d)) => {
                self.stats.nested += 1;
                let mut body = vec![];
                self.msg(sub, d, true, depth + 1, &mut body);
                if body.is_empty() {
                    self.stats.empty_nested += 1;
                }
                self.len_prefixed(&body, out)
            }
            (ty, leaf) => panic!("harness: value {leaf:?} does not fit field type {ty:?}"),
        }
    }

    fn fields(&mut self, specs: &[FieldSpec], vals: &[DVal], kind: BKind, depth: usize, out: &mut Vec<u8>) {
        assert_eq!(specs.len(), vals.len(), "harness: arity");
        let known: Vec<(u32, u8)> = specs.iter().map(|s| (s.num, s.ty.wire_type())).collect();
        for (spec, val) in specs.iter().zip(vals.iter()) {
            match (spec.shape, val) {
                (Shape::One, DVal::One(l)) => {
                    self.boundary(kind, depth, &known, out);
                    self.leaf(spec.num, spec.ty, l, depth, out);
                }
                (Shape::Opt, DVal::Opt(None)) => self.stats.opt_none += 1,
                (Shape::Opt, DVal::Opt(Some(l))) => {
                    self.stats.opt_some += 1;
                    self.boundary(kind, depth, &known, out);
                    self.leaf(spec.num, spec.ty, l, depth, out);
                }
                (Shape::Rep, DVal::Rep(ls)) => {
                    match ls.len() {
                        0 => self.stats.rep_empty += 1,
                        1 => self.stats.rep_nonempty += 1,
                        _ => {
                            self.stats.rep_nonempty += 1;
                            self.stats.rep_multi += 1;
                        }
                    }
                    for l in ls {
                        self.boundary(kind, depth, &known, out);
                        self.leaf(spec.num, spec.ty, l, depth, out);
                    }
                }
                (s, v) => panic!("harness: value {v:?} does not fit shape {s:?}"),
            }
        }
        self.boundary(kind, depth, &known, out);
    }

    /// The body of a message of type `id`.  `nested` = the body is the payload of a message field.
    pub fn msg(&mut self, id: MsgId, d: &DMsg, nested: bool, depth: usize, out: &mut Vec<u8>) {
        self.stats.max_depth = self.stats.max_depth.max(depth);
        match ((self.schema)(id), d) {
            (Schema::Struct(specs), DMsg::Struct(vals)) => self.fields(&specs, vals, BKind::StructBody, depth, out),
            (Schema::Enum(vars), DMsg::Enum(i, body)) => {
                // what the enum knows: one (number, wire type) per variant
                let known: Vec<(u32, u8)> = vars
                    .iter()
                    .map(|v| match v {
                        VariantSpec::Unit(n) | VariantSpec::Named(n, _) => (*n, 2),
                        VariantSpec::Unnamed(n, ty) => (*n, ty.wire_type()),
                    })
                    .collect();
                self.oneof_boundary(BKind::OneofHead, depth, nested, &known, out);
                match (&vars[*i], body) {
                    (VariantSpec::Unit(n), EnumBody::Unit) => {
                        self.stats.enum_unit += 1;
                        self.stats.fields += 1;
                        self.tag(*n, 2, out);
                        self.len_prefixed(&[], out);
                    }
                    (VariantSpec::Unnamed(n, ty), EnumBody::Unnamed(l)) => {
                        self.stats.enum_unnamed += 1;
                        self.leaf(*n, *ty, l, depth, out);
                    }
                    (VariantSpec::Named(n, specs), EnumBody::Named(vals)) => {
                        self.stats.enum_named += 1;
                        self.stats.fields += 1;
                        self.tag(*n, 2, out);
                        let mut body = vec![];
                        self.fields(specs, vals, BKind::NamedBody, depth + 1, &mut body);
                        self.len_prefixed(&body, out);
                    }
                    (v, b) => panic!("harness: enum body {b:?} does not fit variant {v:?}"),
                }
                self.oneof_tail(depth, nested, &known, out);
            }
            (Schema::Result(ok), DMsg::ResOk(inner)) => {
                self.stats.result_ok += 1;
                self.stats.fields += 1;
                self.oneof_boundary(BKind::OneofHead, depth, nested, &[(1, 2), (2, 2)], out);
                self.tag(1, 2, out);
                let mut body = vec![];
                self.msg(ok, inner, false, depth + 1, &mut body);
                self.len_prefixed(&body, out);
                self.oneof_tail(depth, nested, &[(1, 2), (2, 2)], out);
            }
            (Schema::Result(_), DMsg::ResErr(text)) => {
                self.stats.result_err += 1;
                self.stats.fields += 1;
                self.oneof_boundary(BKind::OneofHead, depth, nested, &[(1, 2), (2, 2)], out);
                self.tag(2, 2, out);
                // an SError packs as a length-prefixed string; as a message field that string is
                // the message body
                let mut body = vec![];
                self.len_prefixed(text.as_bytes(), &mut body);
                self.len_prefixed(&body, out);
                self.oneof_tail(depth, nested, &[(1, 2), (2, 2)], out);
            }
            (s, d) => panic!("harness: value {d:?} does not fit schema {s:?}"),
        }
    }
}

/// The reference encoding of a top-level value, with what the encoder saw on the way.
pub struct RefEncoding {
    pub bytes: Vec<u8>,
    pub boundaries: Vec<BInfo>,
    pub oneof_boundaries: Vec<BInfo>,
    pub varints: Vec<Role>,
    pub stats: Stats,
}

pub fn ref_encode(schema: fn(MsgId) -> Schema, id: MsgId, d: &DMsg, plan: Option<&Plan>) -> RefEncoding {
    let mut enc = Enc::new(schema, plan);
    let mut bytes = vec![];
    enc.msg(id, d, false, 0, &mut bytes);
    RefEncoding {
        bytes,
        boundaries: enc.boundaries,
        oneof_boundaries: enc.oneof_boundaries,
        varints: enc.varints,
        stats: enc.stats,
    }
}

////////////////////////////////////////// reference walker ////////////////////////////////////////

/// An independent wire walker: one field = (field number, wire type, payload extent).
pub struct RawField<'a> {
    pub num: u64,
    pub wt: u8,
    /// payload without the tag: the varint bytes, the 4/8 fixed bytes, or length prefix + content
    pub payload: &'a [u8],
    /// for wire type 2: the content only
    pub content: &'a [u8],
}

/// Decode a varint of at most ten bytes; `None` on truncation / more than ten bytes.
pub fn ref_read_varint(buf: &[u8]) -> Option<(u128, usize)> {
    let mut v: u128 = 0;
    for (i, b) in buf.iter().enumerate().take(10) {
        v |= ((*b & 0x7f) as u128) << (7 * i);
        if b & 0x80 == 0 {
            return Some((v, i + 1));
        }
    }
    None
}

/// Read one field at the start of `buf`; `None` if it is not a well-formed field of wire type
/// 0, 1, 2 or 5.  Returns the field and the number of bytes it occupies.
pub fn ref_read_field(buf: &[u8]) -> Option<(RawField<'_>, usize)> {
    // Ten-byte varints whose tenth byte exceeds 1 are reduced modulo 2^64, as buffertk does (the
    // docs are silent); this keeps the predicate below in step with the decoder.
    let (tag, tl) = ref_read_varint(buf)?;
    let tag = tag as u64;
    let wt = (tag & 7) as u8;
    let num = tag >> 3;
    let rest = &buf[tl..];
    let (plen, content): (usize, &[u8]) = match wt {
        0 => {
            let (_, l) = ref_read_varint(rest)?;
            (l, &rest[..l])
        }
        1 => {
            if rest.len() < 8 {
                return None;
            }
            (8, &rest[..8])
        }
        5 => {
            if rest.len() < 4 {
                return None;
            }
            (4, &rest[..4])
        }
        2 => {
            let (n, l) = ref_read_varint(rest)?;
            let n = n as u64;
            if n > (rest.len() - l) as u64 {
                return None;
            }
            let n = n as usize;
            (l + n, &rest[l..l + n])
        }
        _ => return None,
    };
    Some((
        RawField {
            num,
            wt,
            payload: &rest[..plen],
            content,
        },
        tl + plen,
    ))
}

/// Independent predicate (regression C15-B): does walking `buf` as a message of type `id` reach a
/// message field whose declared type is an enum / Result and whose length-delimited payload has
/// bytes left after its first field?  (prototk used to assert that such a payload is fully consumed; it now skips well-formed fields.)
/// Over-approximates: parse errors in sibling fields do not stop the scan.
pub fn oneof_tail_trigger(schema: fn(MsgId) -> Schema, id: MsgId, buf: &[u8]) -> bool {
    fn is_oneof(schema: fn(MsgId) -> Schema, id: MsgId) -> bool {
        !matches!(schema(id), Schema::Struct(_))
    }
    fn payload_as(schema: fn(MsgId) -> Schema, sub: MsgId, content: &[u8]) -> bool {
        if is_oneof(schema, sub) {
            if let Some((_, used)) = ref_read_field(content) {
                if used < content.len() {
                    return true;
                }
            }
        }
        oneof_tail_trigger(schema, sub, content)
    }
    fn scan_fields(schema: fn(MsgId) -> Schema, specs: &[FieldSpec], buf: &[u8]) -> bool {
        let mut off = 0;
        while off < buf.len() {
            let Some((f, used)) = ref_read_field(&buf[off..]) else {
                return false;
            };
            off += used;
            for s in specs.iter() {
                if s.num as u64 == f.num && f.wt == 2 {
                    if let Ty::Msg(sub) = s.ty {
                        if payload_as(schema, sub, f.content) {
                            return true;
                        }
                    }
                }
            }
        }
        false
    }
    match schema(id) {
        Schema::Struct(specs) => scan_fields(schema, &specs, buf),
        Schema::Enum(vars) => {
            let Some((f, _)) = ref_read_field(buf) else {
                return false;
            };
            for v in vars.iter() {
                match v {
                    VariantSpec::Unnamed(n, Ty::Msg(sub)) if *n as u64 == f.num && f.wt == 2 => {
                        if payload_as(schema, *sub, f.content) {
                            return true;
                        }
                    }
                    VariantSpec::Named(n, specs) if *n as u64 == f.num && f.wt == 2 => {
                        if scan_fields(schema, specs, f.content) {
                            return true;
                        }
                    }
                    _ => {}
                }
            }
            false
        }
        Schema::Result(ok) => {
            let Some((f, _)) = ref_read_field(buf) else {
                return false;
            };
            if f.num == 1 && f.wt == 2 {
                // Result::unpack hands the payload to T::unpack directly (remainder ignored)
                return oneof_tail_trigger(schema, ok, f.content);
            }
            false
        }
    }
}

/// Does the schema (transitively) contain a `float` field?  (regression C15-A)
#[allow(dead_code)]
pub fn has_float(schema: fn(MsgId) -> Schema, id: MsgId) -> bool {
    fn specs_have(schema: fn(MsgId) -> Schema, specs: &[FieldSpec], seen: &mut Vec<MsgId>) -> bool {
        specs.iter().any(|s| match s.ty {
            Ty::Float => true,
            Ty::Msg(sub) => go(schema, sub, seen),
            _ => false,
        })
    }
    fn go(schema: fn(MsgId) -> Schema, id: MsgId, seen: &mut Vec<MsgId>) -> bool {
        if seen.contains(&id) {
            return false;
        }
        seen.push(id);
        match schema(id) {
            Schema::Struct(specs) => specs_have(schema, &specs, seen),
            Schema::Enum(vars) => vars.iter().any(|v| match v {
                VariantSpec::Unit(_) => false,
                VariantSpec::Unnamed(_, Ty::Float) => true,
                VariantSpec::Unnamed(_, Ty::Msg(sub)) => go(schema, *sub, seen),
                VariantSpec::Unnamed(_, _) => false,
                VariantSpec::Named(_, specs) => specs_have(schema, specs, seen),
            }),
            Schema::Result(ok) => go(schema, ok, seen),
        }
    }
    go(schema, id, &mut vec![])
}

/// Every `ResErr` text in the tree.
pub fn err_texts<'a>(d: &'a DMsg, out: &mut Vec<&'a str>) {
    fn leaf<'a>(l: &'a Leaf, out: &mut Vec<&'a str>) {
        if let Leaf::Msg(d) = l {
            err_texts(d, out)
        }
    }
    fn vals<'a>(vs: &'a [DVal], out: &mut Vec<&'a str>) {
        for v in vs {
            match v {
                DVal::One(l) => leaf(l, out),
                DVal::Opt(Some(l)) => leaf(l, out),
                DVal::Opt(None) => {}
                DVal::Rep(ls) => ls.iter().for_each(|l| leaf(l, out)),
            }
        }
    }
    match d {
        DMsg::Struct(vs) => vals(vs, out),
        DMsg::Enum(_, EnumBody::Unit) => {}
        DMsg::Enum(_, EnumBody::Unnamed(l)) => leaf(l, out),
        DMsg::Enum(_, EnumBody::Named(vs)) => vals(vs, out),
        DMsg::ResOk(d) => err_texts(d, out),
        DMsg::ResErr(t) => out.push(t),
    }
}
