//! C15 — the protobuf codec (buffertk + prototk + prototk_derive) round-trips all values and
//! decodes arbitrary bytes safely.
//!
//! Every value is generated once as a dynamic tree (`model::DMsg`) and lowered both to a typed
//! `#[derive(Message)]` value (`types.rs`) and to an independent reference wire encoder
//! (`model.rs`, no buffertk/prototk calls).
//!
//! Three defects this check found are repaired in /repo (C15-A float wire type, C15-B assert on
//! bytes after a nested enum's field, C15-C unknown field in a named variant body rejected); their
//! reproductions live in /verif/regressions/C15 and their triggers are generated and asserted here
//! like everything else.
//!
//! Two observations that were triaged as NOT findings and are therefore not asserted: a derived enum
//! / Result is a oneof whose first tag is its discriminant, so an unknown field in front of the
//! variant field is an unknown variant and may be rejected (only no-panic and value-undisturbed-if-
//! accepted are required there); a `string` field holds UTF-8, so `PathBuf` values of `string` fields
//! are generated as UTF-8 (arbitrary paths go through `bytes` x `PathBuf`).

mod gens;
mod model;
mod types;

use buffertk::{Packable, Unpackable, stack_pack, v64};
use proptest::prelude::*;
use serde::{Deserialize, Serialize};

use model::*;
use types::{decode, encode, schema};
use vcore::gens::sel;
use vcore::{Check, Ctx, Outcome, Property, Tier};

const WIRE_TYPES: [u8; 4] = [0, 1, 2, 5];

fn hex(b: &[u8]) -> String {
    let mut s: String = b.iter().take(96).map(|x| format!("{x:02x}")).collect();
    if b.len() > 96 {
        s.push_str(&format!("…({}B)", b.len()));
    }
    s
}

fn first_diff(a: &[u8], b: &[u8]) -> usize {
    a.iter().zip(b.iter()).position(|(x, y)| x != y).unwrap_or(a.len().min(b.len()))
}

fn show_val(d: &DMsg) -> String {
    vcore::truncate(&format!("{d:?}"), 700)
}

fn stat_labels(o: &mut Outcome, id: MsgId, s: &Stats) {
    o.label(format!("type:{id:?}"));
    let mut l = |c: bool, name: &str| {
        if c {
            o.label(name)
        }
    };
    l(s.boundary_ints > 0, "has-boundary-int");
    l(s.negative_varint > 0, "has-negative-10-byte-varint");
    l(s.nan > 0, "has-nan");
    l(s.float_special > 0, "has-special-float");
    l(s.nested > 0, "has-nested");
    l(s.max_depth >= 2, "depth>=2");
    l(s.max_depth >= 3, "depth>=3");
    l(s.empty_nested > 0, "has-empty-nested-message");
    l(s.rep_empty > 0, "has-empty-repeated");
    l(s.rep_nonempty > 0, "has-nonempty-repeated");
    l(s.rep_multi > 0, "has-repeated>=2");
    l(s.opt_none > 0, "has-none");
    l(s.opt_some > 0, "has-some");
    l(s.len_ge_128 > 0, "has-length>=128");
    l(s.multibyte_tag > 0, "has-multibyte-tag");
    l(s.enum_unit > 0, "has-enum-unit");
    l(s.enum_unnamed > 0, "has-enum-unnamed");
    l(s.enum_named > 0, "has-enum-named");
    l(s.result_ok > 0, "has-result-ok");
    l(s.result_err > 0, "has-result-err");
    l(s.fields == 0, "encodes-to-nothing");
}

fn rich(s: &Stats) -> bool {
    s.fields >= 3 && (s.boundary_ints > 0 || s.float_special > 0 || s.nested > 0 || s.rep_nonempty > 0)
}

///////////////////////////////////////////// round trip ///////////////////////////////////////////

#[derive(Clone, Debug, Serialize, Deserialize)]
struct RtCase {
    ty: MsgId,
    val: DMsg,
}

struct RoundTrip;

impl Property for RoundTrip {
    type Case = RtCase;
    fn name(&self) -> String {
        "roundtrip-typed".into()
    }
    fn cases(&self, tier: Tier) -> u64 {
        tier.pick(25_000, 500_000)
    }
    fn strategy(&self, _: &Ctx) -> BoxedStrategy<RtCase> {
        gens::typed_value().prop_map(|(ty, val)| RtCase { ty, val }).boxed()
    }
    fn run(&self, _: &Ctx, c: &RtCase) -> Outcome {
        let mut o = Outcome::pass();
        let re = ref_encode(schema, c.ty, &c.val, None);
        stat_labels(&mut o, c.ty, &re.stats);
        o.nontrivial = rich(&re.stats);
        if re.stats.has_float32 {
            o.label("has-float32");
        }
        if re.stats.path_strings > 0 {
            o.label("has-string-pathbuf");
        }
        let e = encode(c.ty, &c.val);
        if e.pack_sz != e.bytes.len() {
            o.fail(format!("pack-sz-mismatch"), format!("pack_sz() = {} but {} bytes were written for {:?} {}", e.pack_sz, e.bytes.len(), c.ty, show_val(&c.val)));
            return o;
        }
        if e.sliced != e.bytes || e.appended != e.bytes || e.streamed != e.bytes || e.stream_ret != e.bytes.len() {
            o.fail(
                format!("pack-variants-differ"),
                format!("to_vec {} / into_slice {} / append_to_vec {} / stream {} (returned {}) differ for {:?} {}", hex(&e.bytes), hex(&e.sliced), hex(&e.appended), hex(&e.streamed), e.stream_ret, c.ty, show_val(&c.val)),
            );
            return o;
        }
        if e.bytes != re.bytes {
            let at = first_diff(&e.bytes, &re.bytes);
            o.fail(
                format!("wire-mismatch"),
                format!(
                    "packed bytes differ from the protobuf wire encoding at offset {at}: got {} want {} for {:?} {}; unpack of the packed bytes gives {}",
                    hex(&e.bytes[at.saturating_sub(4)..]),
                    hex(&re.bytes[at.saturating_sub(4)..]),
                    c.ty,
                    show_val(&c.val),
                    vcore::truncate(&format!("{:?}", vcore::guard(|| decode(c.ty, &e.bytes))), 400)
                ),
            );
            return o;
        }
        match decode(c.ty, &e.bytes) {
            Err(err) => o.fail(format!("roundtrip-decode-error"), format!("unpack of the packed bytes {} failed: {err} for {:?} {}", hex(&e.bytes), c.ty, show_val(&c.val))),
            Ok((v, rem)) => {
                if v != c.val {
                    o.fail(format!("roundtrip-mismatch"), format!("unpack(pack(v)) != v: got {} want {} (type {:?}, bytes {})", show_val(&v), show_val(&c.val), c.ty, hex(&e.bytes)));
                } else if rem != 0 {
                    o.fail(format!("roundtrip-remainder"), format!("unpack left {rem} of {} bytes unconsumed for {:?}", e.bytes.len(), c.ty));
                }
            }
        }
        o
    }
}

//////////////////////////////////////// unknown-field splice //////////////////////////////////////

#[derive(Clone, Debug, Serialize, Deserialize)]
struct SpliceSpec {
    /// which field boundary (selector over all boundaries of the encoding, any depth)
    at: u16,
    /// reuse a field number the enclosing message knows, with a different wire type
    same_num: bool,
    num_sel: u16,
    /// index into WIRE_TYPES
    wt_sel: u8,
    value: u64,
    /// extra zero groups on the unknown varint (non-canonical)
    extra: u8,
    blob: Vec<u8>,
    /// 0 = well-formed unknown field; 1..=4 wire types 3,4,6,7; 5..=8 field numbers 0 / reserved
    invalid: u8,
    /// `Some(sel)`: splice at one of the boundaries around the variant field of an enum / Result
    /// (before it at any depth, after it at top level) instead of at boundary `at`, when the value
    /// has such a boundary.  (A separate selector, so that `at` means what it meant in older replays.)
    #[serde(default)]
    oneof: Option<u16>,
}

#[derive(Clone, Debug, Serialize, Deserialize)]
struct SpliceCase {
    ty: MsgId,
    val: DMsg,
    splices: Vec<SpliceSpec>,
}

fn unknown_field_bytes(num: u32, wt: u8, s: &SpliceSpec) -> Vec<u8> {
    let mut out = vec![];
    ref_varint(((num as u64) << 3) | wt as u64, &mut out);
    match wt {
        0 => ref_varint_padded(s.value, (ref_varint_len(s.value) + s.extra as usize).min(10), &mut out),
        1 => out.extend_from_slice(&s.value.to_le_bytes()),
        5 => out.extend_from_slice(&(s.value as u32).to_le_bytes()),
        2 => {
            ref_varint(s.blob.len() as u64, &mut out);
            out.extend_from_slice(&s.blob);
        }
        _ => {}
    }
    out
}

fn splice_spec() -> impl Strategy<Value = SpliceSpec> {
    (
        any::<u16>(),
        prop::bool::weighted(0.3),
        any::<u16>(),
        0u8..4,
        prop_oneof![Just(0u64), Just(u64::MAX), any::<u64>(), 0u64..300],
        prop_oneof![3 => Just(0u8), 1 => 1u8..4],
        prop_oneof![2 => Just(vec![]), 4 => prop::collection::vec(any::<u8>(), 0..10), 1 => prop::collection::vec(any::<u8>(), 126..131)],
        prop_oneof![17 => Just(0u8), 3 => 1u8..9],
        prop::option::weighted(0.35, any::<u16>()),
    )
        .prop_map(|(at, same_num, num_sel, wt_sel, value, extra, blob, invalid, oneof)| SpliceSpec { at, same_num, num_sel, wt_sel, value, extra, blob, invalid, oneof })
}

struct Splice;

impl Property for Splice {
    type Case = SpliceCase;
    fn name(&self) -> String {
        "unknown-field-splice".into()
    }
    fn cases(&self, tier: Tier) -> u64 {
        tier.pick(25_000, 500_000)
    }
    fn strategy(&self, _: &Ctx) -> BoxedStrategy<SpliceCase> {
        (gens::typed_value(), prop::collection::vec(splice_spec(), 1..4))
            .prop_map(|((ty, val), splices)| SpliceCase { ty, val, splices })
            .boxed()
    }
    fn run(&self, _: &Ctx, c: &SpliceCase) -> Outcome {
        let mut o = Outcome::pass();
        let plain = ref_encode(schema, c.ty, &c.val, None);
        o.label(format!("type:{:?}", c.ty));
        if plain.stats.path_strings > 0 {
            o.label("has-string-pathbuf");
        }
        let n = plain.boundaries.len();
        let m = plain.oneof_boundaries.len();
        let mut plan = Plan::default();
        // the same plan without the well-formed splices in front of an enum's variant field
        let mut plan_without_trigger = Plan::default();
        let mut applied = 0usize;
        let mut applied_without_trigger = 0usize;
        let mut any_invalid = false;
        let mut head_trigger = false;
        let mut top_tail_bytes = 0usize;
        let mut what = vec![];
        // where the splices went, as part of the signature (struct body: no suffix)
        let mut territory = "";
        let mut territory_without_trigger = "";
        for s in c.splices.iter() {
            let (b, idx, around_variant) = match s.oneof {
                Some(sel_o) if m > 0 => {
                    let idx = sel(sel_o, m);
                    (&plain.oneof_boundaries[idx], idx, true)
                }
                _ => {
                    if n == 0 {
                        continue;
                    }
                    let idx = sel(s.at, n);
                    (&plain.boundaries[idx], idx, false)
                }
            };
            let (num, wt) = match s.invalid {
                1 => (UNKNOWN_NUMS[sel(s.num_sel, UNKNOWN_NUMS.len())], 3),
                2 => (UNKNOWN_NUMS[sel(s.num_sel, UNKNOWN_NUMS.len())], 4),
                3 => (UNKNOWN_NUMS[sel(s.num_sel, UNKNOWN_NUMS.len())], 6),
                4 => (UNKNOWN_NUMS[sel(s.num_sel, UNKNOWN_NUMS.len())], 7),
                5 => (0, WIRE_TYPES[(s.wt_sel as usize).min(3)]),
                6 => (19000, WIRE_TYPES[(s.wt_sel as usize).min(3)]),
                7 => (19999, WIRE_TYPES[(s.wt_sel as usize).min(3)]),
                8 => (19000 + sel(s.num_sel, 1000) as u32, WIRE_TYPES[(s.wt_sel as usize).min(3)]),
                _ => {
                    if s.same_num && !b.known.is_empty() {
                        let (num, kwt) = b.known[sel(s.num_sel, b.known.len())];
                        let others: Vec<u8> = WIRE_TYPES.iter().copied().filter(|w| *w != kwt).collect();
                        o.label("known-number-other-wire-type");
                        (num, others[sel((s.wt_sel as u16) << 14, others.len())])
                    } else {
                        (UNKNOWN_NUMS[sel(s.num_sel, UNKNOWN_NUMS.len())], WIRE_TYPES[(s.wt_sel as usize).min(3)])
                    }
                }
            };
            if s.invalid != 0 {
                any_invalid = true;
                o.label(match s.invalid {
                    1 | 2 => "invalid:group-wire-type",
                    3 | 4 => "invalid:wire-type-6-7",
                    5 => "invalid:field-number-0",
                    _ => "invalid:reserved-field-number",
                });
            } else {
                o.label(format!("unknown-wire-type-{wt}"));
                if wt == 0 && s.extra > 0 {
                    o.label("unknown-noncanonical-varint");
                }
            }
            o.label(if b.depth == 0 { "at-top-level" } else { "at-nested-level" });
            let bytes = unknown_field_bytes(num, wt, s);
            let mut is_trigger = false;
            match b.kind {
                BKind::StructBody => {}
                BKind::NamedBody => {
                    o.label("in-named-variant-body");
                    territory = ":named-variant-body";
                }
                BKind::OneofTail => {
                    o.label("after-nested-enum-field");
                    territory = ":after-nested-enum-field";
                }
                BKind::OneofHead => {
                    o.label(if b.nested { "before-nested-enum-variant-field" } else { "before-top-level-enum-variant-field" });
                    territory = ":before-enum-variant-field";
                    if s.invalid == 0 {
                        is_trigger = true;
                        head_trigger = true;
                    }
                }
                BKind::OneofTailTop => {
                    o.label("after-top-level-enum-field");
                    territory = ":after-top-level-enum-field";
                    top_tail_bytes += bytes.len();
                }
            }
            if !is_trigger {
                territory_without_trigger = territory;
            }
            what.push(format!("field {num} wire type {wt} ({}) at {} boundary {idx} ({:?}) depth {}", hex(&bytes), if around_variant { "enum" } else { "field" }, b.kind, b.depth));
            for (pl, count, skip) in [(&mut plan, &mut applied, false), (&mut plan_without_trigger, &mut applied_without_trigger, is_trigger)] {
                if skip {
                    continue;
                }
                let map = if around_variant { &mut pl.oneof_splices } else { &mut pl.splices };
                map.entry(idx).or_default().extend_from_slice(&bytes);
                *count += 1;
            }
        }
        if applied == 0 {
            o.label("nothing-spliced");
            return o;
        }
        o.nontrivial = plain.stats.fields >= 2 || m > 0;
        let spliced = ref_encode(schema, c.ty, &c.val, Some(&plan));
        let desc = |enc: &RefEncoding| format!("{} into {:?} {}; bytes {}", what.join(", "), c.ty, show_val(&c.val), hex(&enc.bytes));
        // A derived enum / Result is a oneof: its FIRST tag is the discriminant, so a well-formed
        // unknown field in front of the variant field is indistinguishable from an unknown variant
        // of a newer schema and may be rejected (observed: unknown-discriminant).  Required there, in
        // every mode: no panic (the runner's guard), and Err or a value equal to the un-spliced one
        // (remainder: none, or exactly the bytes spliced after a top-level variant field).  The other
        // splices of the case are then judged in full on an encoding without the head splices.
        if head_trigger {
            match decode(c.ty, &spliced.bytes) {
                Ok((v, rem)) => {
                    if v != c.val {
                        o.fail(format!("unknown-field-disturbs-known{territory}"), format!("decoded {} after splicing {}", show_val(&v), desc(&spliced)));
                        return o;
                    }
                    if rem != 0 && rem != top_tail_bytes {
                        o.fail(format!("unknown-field-remainder{territory}"), format!("{rem} bytes unconsumed ({top_tail_bytes} were spliced after a top-level enum's variant field) after splicing {}", desc(&spliced)));
                        return o;
                    }
                    o.label("oneof-head:accepted");
                }
                Err(e) => o.label(if e.contains("unknown-discriminant") { "oneof-head:rejected-as-unknown-discriminant" } else { "oneof-head:rejected-otherwise" }),
            }
            if applied_without_trigger == 0 {
                return o;
            }
            let rest = ref_encode(schema, c.ty, &c.val, Some(&plan_without_trigger));
            splice_verdict(c, &rest, any_invalid, top_tail_bytes, territory_without_trigger, &desc(&rest), &mut o);
            return o;
        }
        splice_verdict(c, &spliced, any_invalid, top_tail_bytes, territory, &desc(&spliced), &mut o);
        o
    }
}

/// Decode the spliced encoding and judge it: the known fields are undisturbed, nothing is left
/// over (except, for a top-level enum / Result, exactly the bytes spliced after its variant field,
/// which `unpack` hands back as the remainder), well-formed unknown fields are not rejected.
fn splice_verdict(c: &SpliceCase, spliced: &RefEncoding, any_invalid: bool, top_tail_bytes: usize, territory: &str, desc: &str, o: &mut Outcome) {
    match decode(c.ty, &spliced.bytes) {
        Ok((v, rem)) => {
            if v != c.val {
                let sig = if any_invalid { "malformed-unknown-field-disturbs-known" } else { "unknown-field-disturbs-known" };
                o.fail(format!("{sig}{territory}"), format!("decoded {} after splicing {desc}", show_val(&v)));
            } else if rem != 0 && rem != top_tail_bytes {
                o.fail(format!("unknown-field-remainder{territory}"), format!("{rem} bytes unconsumed ({top_tail_bytes} were spliced after a top-level enum's variant field) after splicing {desc}"));
            } else if top_tail_bytes > 0 {
                o.label(if rem == 0 { "top-level-enum-tail:consumed" } else { "top-level-enum-tail:returned-as-remainder" });
            }
        }
        Err(e) => {
            if any_invalid {
                o.label("malformed-unknown-rejected");
            } else {
                o.fail(format!("unknown-field-rejected{territory}"), format!("unpack failed with {e} after splicing {desc}"));
            }
        }
    }
}

/////////////////////////////////////////// arbitrary bytes ////////////////////////////////////////

#[derive(Clone, Debug, Serialize, Deserialize)]
enum Edit {
    Truncate(u16),
    Flip(u16, u8),
    Set(u16, u8),
    Insert(u16, Vec<u8>),
    Delete(u16, u8),
    Append(Vec<u8>),
}

#[derive(Clone, Debug, Serialize, Deserialize)]
enum Src {
    Random(Vec<u8>),
    /// a valid encoding, with some varints re-encoded non-canonically / over-long inside the
    /// encoder (enclosing lengths stay consistent), then edited as raw bytes
    Mutated {
        val: DMsg,
        /// (varint selector, over-long?, extra groups)
        tweaks: Vec<(u16, bool, u8)>,
        edits: Vec<Edit>,
    },
}

#[derive(Clone, Debug, Serialize, Deserialize)]
struct BytesCase {
    ty: MsgId,
    src: Src,
}

fn edit() -> impl Strategy<Value = Edit> {
    let interesting = prop_oneof![Just(0u8), Just(1), Just(0x7f), Just(0x80), Just(0xff), Just(0x08), Just(0x0a), Just(0x12), any::<u8>()];
    prop_oneof![
        3 => any::<u16>().prop_map(Edit::Truncate),
        3 => (any::<u16>(), 0u8..8).prop_map(|(a, b)| Edit::Flip(a, b)),
        2 => (any::<u16>(), interesting.clone()).prop_map(|(a, b)| Edit::Set(a, b)),
        2 => (any::<u16>(), prop::collection::vec(interesting.clone(), 1..6)).prop_map(|(a, b)| Edit::Insert(a, b)),
        2 => (any::<u16>(), 1u8..6).prop_map(|(a, b)| Edit::Delete(a, b)),
        1 => prop::collection::vec(interesting, 1..12).prop_map(Edit::Append),
    ]
}

fn apply_edits(mut b: Vec<u8>, edits: &[Edit]) -> Vec<u8> {
    for e in edits {
        match e {
            Edit::Truncate(a) => b.truncate(sel(*a, b.len() + 1)),
            Edit::Flip(a, bit) => {
                if !b.is_empty() {
                    let i = sel(*a, b.len());
                    b[i] ^= 1 << (bit & 7);
                }
            }
            Edit::Set(a, v) => {
                if !b.is_empty() {
                    let i = sel(*a, b.len());
                    b[i] = *v;
                }
            }
            Edit::Insert(a, v) => {
                let i = sel(*a, b.len() + 1);
                b.splice(i..i, v.iter().copied());
            }
            Edit::Delete(a, n) => {
                if !b.is_empty() {
                    let i = sel(*a, b.len());
                    let j = (i + *n as usize).min(b.len());
                    b.drain(i..j);
                }
            }
            Edit::Append(v) => b.extend_from_slice(v),
        }
    }
    b
}

struct AnyBytes;

impl AnyBytes {
    fn bytes_of(c: &BytesCase) -> (Vec<u8>, usize) {
        match &c.src {
            Src::Random(b) => (b.clone(), 0),
            Src::Mutated { val, tweaks, edits } => {
                let plain = ref_encode(schema, c.ty, val, None);
                let mut plan = Plan::default();
                let nv = plain.varints.len();
                for (s, over, n) in tweaks {
                    if nv > 0 {
                        plan.tweaks.insert(sel(*s, nv), if *over { Tweak::Overlong(*n) } else { Tweak::Pad(1 + *n) });
                    }
                }
                let tweaked = ref_encode(schema, c.ty, val, Some(&plan));
                (apply_edits(tweaked.bytes, edits), plan.tweaks.len())
            }
        }
    }
}

impl Property for AnyBytes {
    type Case = BytesCase;
    fn name(&self) -> String {
        "arbitrary-bytes".into()
    }
    fn cases(&self, tier: Tier) -> u64 {
        tier.pick(30_000, 600_000)
    }
    fn strategy(&self, _: &Ctx) -> BoxedStrategy<BytesCase> {
        let interesting = prop_oneof![
            Just(0u8), Just(1), Just(2), Just(0x7f), Just(0x80), Just(0x81), Just(0xff),
            // tags of small field numbers with every wire type
            (1u8..16, 0u8..8).prop_map(|(f, w)| (f << 3) | w),
            any::<u8>(),
        ];
        let random = prop_oneof![
            2 => prop::collection::vec(any::<u8>(), 0..48),
            4 => prop::collection::vec(interesting, 0..48),
        ];
        let arms: Vec<(u32, BoxedStrategy<BytesCase>)> = gens::type_weights()
            .into_iter()
            .map(|(w, id)| {
                let mutated = (
                    gens::gen_msg(id, 0),
                    prop::collection::vec((any::<u16>(), prop::bool::weighted(0.2), 0u8..4), 0..3),
                    prop::collection::vec(edit(), 0..4),
                )
                    .prop_map(move |(val, tweaks, edits)| BytesCase { ty: id, src: Src::Mutated { val, tweaks, edits } });
                let rnd = random.clone().prop_map(move |b| BytesCase { ty: id, src: Src::Random(b) });
                (w, prop_oneof![3 => mutated, 2 => rnd].boxed())
            })
            .collect();
        proptest::strategy::Union::new_weighted(arms).boxed()
    }
    fn run(&self, _: &Ctx, c: &BytesCase) -> Outcome {
        let mut o = Outcome::pass();
        let (bytes, ntweaks) = Self::bytes_of(c);
        o.label(format!("type:{:?}", c.ty));
        match &c.src {
            Src::Random(_) => o.label("random-bytes"),
            Src::Mutated { edits, .. } => {
                o.label("mutated-valid-encoding");
                if ntweaks > 0 {
                    o.label("with-noncanonical-or-overlong-varint");
                }
                if edits.iter().any(|e| matches!(e, Edit::Truncate(_))) {
                    o.label("truncated");
                }
                if edits.is_empty() && ntweaks == 0 {
                    o.label("unmodified");
                }
            }
        }
        if oneof_tail_trigger(schema, c.ty, &bytes) {
            // an enum/Result-typed message field with bytes after its first field (regression C15-B)
            o.label("bytes-after-nested-enum-field");
        }
        o.nontrivial = bytes.len() >= 2;
        // a panic here is caught by the framework and reported as panic@<file>:<line>
        match decode(c.ty, &bytes) {
            Err(_) => o.label("decode-error"),
            Ok((v, _rem)) => {
                o.label("decode-ok");
                let mut texts = vec![];
                err_texts(&v, &mut texts);
                if !texts.iter().all(|t| types::serror_from_text(t).map(|e| e.to_string()).as_deref() == Some(*t)) {
                    // handled's printer/parser do not round-trip this error text: not a codec matter
                    o.label("decoded-error-text-not-reparsable");
                    return o;
                }
                // a successfully decoded value must itself round-trip
                let e = encode(c.ty, &v);
                if e.pack_sz != e.bytes.len() {
                    o.fail("decoded-pack-sz-mismatch", format!("value decoded from {} has pack_sz {} but packs to {} bytes", hex(&bytes), e.pack_sz, e.bytes.len()));
                    return o;
                }
                match decode(c.ty, &e.bytes) {
                    Ok((v2, 0)) if v2 == v => {}
                    other => o.fail(
                        "decoded-value-does-not-roundtrip",
                        format!("bytes {} decode as {:?} to {}, which packs to {} and decodes to {}", hex(&bytes), c.ty, show_val(&v), hex(&e.bytes), vcore::truncate(&format!("{other:?}"), 500)),
                    ),
                }
            }
        }
        o
    }
}

///////////////////////////////////////// concatenated encodings //////////////////////////////////

/// Two valid encodings of one struct-shaped type back to back: every singular field then occurs
/// twice.  C15 promises "a value or an error" for any byte string, so a decoder may keep the last
/// occurrence (what protocol-buffers parsers do), keep the first, or reject the duplicate; what no
/// decoder may do is panic or invent a value.  Asserted: no panic; if the bytes are accepted, every
/// singular or optional scalar / bytes / string field holds a's value or b's value - never a third
/// one such as both payloads glued together - and every repeated field holds a's elements followed
/// by b's (repeated fields ARE encoded as repeated occurrences, so that is forced by the round trip
/// of longer vectors).  Singular and optional MESSAGE-typed fields are not asserted (the standard
/// merges them recursively, prototk replaces them, and the property takes no side).
#[derive(Clone, Debug, Serialize, Deserialize)]
struct ConcatCase {
    ty: MsgId,
    a: DMsg,
    b: DMsg,
}

struct Concatenated;

fn struct_ids() -> Vec<(u32, MsgId)> {
    gens::type_weights().into_iter().filter(|(_, id)| matches!(schema(*id), Schema::Struct(_))).collect()
}

impl Property for Concatenated {
    type Case = ConcatCase;
    fn name(&self) -> String {
        "concatenated-encodings".into()
    }
    fn cases(&self, tier: Tier) -> u64 {
        tier.pick(20_000, 400_000)
    }
    fn strategy(&self, _: &Ctx) -> BoxedStrategy<ConcatCase> {
        let arms: Vec<(u32, BoxedStrategy<ConcatCase>)> = struct_ids()
            .into_iter()
            .map(|(w, id)| (w, (gens::gen_msg(id, 0), gens::gen_msg(id, 0)).prop_map(move |(a, b)| ConcatCase { ty: id, a, b }).boxed()))
            .collect();
        proptest::strategy::Union::new_weighted(arms).boxed()
    }
    fn run(&self, _: &Ctx, c: &ConcatCase) -> Outcome {
        let mut o = Outcome::pass();
        o.label(format!("type:{:?}", c.ty));
        let Schema::Struct(fields) = schema(c.ty) else { return o };
        let (DMsg::Struct(fa), DMsg::Struct(fb)) = (&c.a, &c.b) else { return o };
        let mut bytes = encode(c.ty, &c.a).bytes;
        bytes.extend_from_slice(&encode(c.ty, &c.b).bytes);
        // (a panic is caught by the runner's guard and reported as panic@<site>)
        let got = match decode(c.ty, &bytes) {
            Ok((DMsg::Struct(g), rem)) if g.len() == fields.len() => {
                if rem != 0 {
                    o.label("concat:accepted-with-remainder");
                }
                g
            }
            Ok(other) => {
                o.fail("concat-decode", format!("decoding the concatenation of two valid encodings of {:?} returned a value of another shape: {}", c.ty, vcore::truncate(&format!("{other:?}"), 300)));
                return o;
            }
            Err(_) => {
                // a decoder may refuse a second occurrence of a singular field
                o.label("concat:rejected");
                return o;
            }
        };
        o.label("concat:accepted");
        let mut asserted = 0;
        let mut differing = 0;
        let (mut last_wins, mut first_wins) = (false, false);
        for (i, f) in fields.iter().enumerate() {
            let is_msg = matches!(f.ty, model::Ty::Msg(_));
            let ok = match (&fa[i], &fb[i]) {
                (DVal::One(_), DVal::One(_)) | (DVal::Opt(_), DVal::Opt(_)) if !is_msg => {
                    if fa[i] != fb[i] {
                        last_wins |= got[i] == fb[i];
                        first_wins |= got[i] == fa[i];
                    }
                    got[i] == fa[i] || got[i] == fb[i]
                }
                (DVal::Rep(x), DVal::Rep(y)) => got[i] == DVal::Rep(x.iter().chain(y.iter()).cloned().collect()),
                _ => continue,
            };
            asserted += 1;
            if fa[i] != fb[i] {
                differing += 1;
            }
            if !ok {
                o.fail(
                    format!("concat-merge:{:?}:{:?}", f.ty, f.shape).replace("Msg(", "Msg").replace(')', ""),
                    format!(
                        "field {} ({:?}, {:?}) of {:?}: decoding enc(a) ++ enc(b) gives {:?}, which is {} (a's field: {:?}, b's field: {:?})",
                        f.num, f.ty, f.shape, c.ty, got[i],
                        if f.shape == Shape::Rep { "not a's elements followed by b's" } else { "neither a's value nor b's" },
                        fa[i], fb[i]
                    ),
                );
                return o;
            }
        }
        if last_wins {
            o.label("concat:last-wins");
        }
        if first_wins {
            o.label("concat:first-wins");
        }
        o.nontrivial = asserted >= 1 && differing >= 1;
        if fields.iter().any(|f| matches!(f.ty, model::Ty::Bytes | model::Ty::Str)) {
            o.label("has-bytes-or-string-field");
        }
        o
    }
}

////////////////////////////////////////////// varints /////////////////////////////////////////////

#[derive(Clone, Debug, Serialize, Deserialize)]
struct VarintCase {
    /// seven-bit groups, least significant first, 1..=10 of them
    groups: Vec<u8>,
    /// bytes following the varint in the buffer
    pad: Vec<u8>,
    /// a value for pack / conversions
    value: u64,
}

fn v64_unpack(b: &[u8]) -> Result<(u64, usize), String> {
    match <v64 as Unpackable>::unpack(b) {
        Ok((v, rem)) => Ok((v.into(), rem.len())),
        Err(e) => Err(format!("{e:?}")),
    }
}

struct Varints15;

impl Property for Varints15 {
    type Case = VarintCase;
    fn name(&self) -> String {
        "varint-paths".into()
    }
    fn cases(&self, tier: Tier) -> u64 {
        tier.pick(60_000, 1_200_000)
    }
    fn strategy(&self, _: &Ctx) -> BoxedStrategy<VarintCase> {
        let group = prop_oneof![3 => Just(0u8), 2 => Just(1u8), 2 => Just(0x7fu8), 1 => Just(0x40u8), 3 => 0u8..0x80];
        let pad_byte = prop_oneof![Just(0u8), Just(0x80u8), Just(0xffu8), Just(0x7fu8), any::<u8>()];
        let value = prop_oneof![
            6 => (0u32..64, 0u8..3).prop_map(|(k, d)| {
                let base = 1u64 << k;
                match d { 0 => base.wrapping_sub(1), 1 => base, _ => base.wrapping_add(1) }
            }),
            // exactly the 7-bit length boundaries
            3 => (1u32..10, 0u8..3).prop_map(|(k, d)| {
                let base = 1u64 << (7 * k);
                match d { 0 => base - 1, 1 => base, _ => base + 1 }
            }),
            1 => Just(u64::MAX),
            1 => Just(0u64),
            2 => any::<u64>(),
        ];
        ((1usize..=10).prop_flat_map(move |n| prop::collection::vec(group.clone(), n)), prop::collection::vec(pad_byte, 0..14), value)
            .prop_map(|(groups, pad, value)| VarintCase { groups, pad, value })
            .boxed()
    }
    fn run(&self, _: &Ctx, c: &VarintCase) -> Outcome {
        let mut o = Outcome::pass();
        o.nontrivial = true;
        let n = c.groups.len();
        let enc: Vec<u8> = c.groups.iter().enumerate().map(|(i, g)| if i + 1 < n { g | 0x80 } else { g & 0x7f }).collect();
        let wide: u128 = c.groups.iter().enumerate().fold(0u128, |a, (i, g)| a | (((*g & 0x7f) as u128) << (7 * i)));
        let overflow = wide > u64::MAX as u128;
        let want = wide as u64;
        let canonical = n == 1 || c.groups[n - 1] & 0x7f != 0;
        o.label(format!("len-{n}"));
        o.label(if canonical { "canonical" } else { "non-canonical" });
        if overflow {
            o.label("tenth-byte-overflows-64-bits");
        }
        // buffers: exactly the varint; varint + pad (fast path iff >= 10 bytes); varint + pad cut
        // to fewer than 10 bytes (slow path with a remainder); varint + pad + filler >= 10 bytes
        let mut padded = enc.clone();
        padded.extend_from_slice(&c.pad);
        let mut long = padded.clone();
        while long.len() < 10 {
            long.push(0xff);
        }
        let mut short = padded.clone();
        short.truncate(9.max(n).min(padded.len()));
        let bufs: [(&str, &[u8]); 4] = [("exact", &enc), ("padded", &padded), ("fast", &long), ("short", &short)];
        let mut results = vec![];
        for (name, buf) in bufs.iter() {
            let path = if buf.len() >= 10 { "fast" } else { "slow" };
            o.label(format!("path-{path}"));
            let r = v64_unpack(buf);
            if !overflow {
                match &r {
                    Ok((v, rem)) if *v == want && *rem == buf.len() - n => {}
                    other => {
                        o.fail(
                            format!("varint-{path}-path-wrong"),
                            format!("v64::unpack({}) [{name} buffer, {path} path] = {other:?}, want value {want} with {} bytes left", hex(buf), buf.len() - n),
                        );
                        return o;
                    }
                }
            } else if let Ok((v, rem)) = &r {
                // the docs are silent on a tenth byte above 1: only require a sane result
                if (*v ^ want) << 1 != 0 || *rem != buf.len() - n {
                    o.fail("varint-overflow-result-inconsistent", format!("v64::unpack({}) = {r:?}; low 63 bits / remainder do not match the encoding", hex(buf)));
                    return o;
                }
            }
            results.push(r.map(|x| x.0));
        }
        if results.iter().any(|r| r.is_ok() != results[0].is_ok() || r.as_ref().ok() != results[0].as_ref().ok()) {
            o.fail("varint-fast-slow-disagree", format!("decoders disagree on {}: {results:?}", hex(&enc)));
            return o;
        }
        // an unterminated varint is an error on both paths
        let unterminated: Vec<u8> = c.groups.iter().map(|g| g | 0x80).collect();
        if n < 10 {
            if let Ok(r) = v64_unpack(&unterminated) {
                o.fail("varint-unterminated-accepted", format!("v64::unpack({}) = {r:?} although every byte has the continuation bit", hex(&unterminated)));
                return o;
            }
        }
        let mut eleven = unterminated.clone();
        while eleven.len() < 11 {
            eleven.push(0x80);
        }
        eleven.extend_from_slice(&c.pad);
        if let Ok(r) = v64_unpack(&eleven) {
            o.fail("varint-overlong-accepted", format!("v64::unpack({}) = {r:?} although the first eleven bytes all have the continuation bit", hex(&eleven)));
            return o;
        }
        if v64_unpack(&[]).is_ok() {
            o.fail("varint-empty-accepted", "v64::unpack of an empty buffer succeeded".to_string());
            return o;
        }
        // pack
        let x = c.value;
        let v = v64::from(x);
        let mut want_bytes = vec![];
        ref_varint(x, &mut want_bytes);
        let got = stack_pack(v).to_vec();
        if v.pack_sz() != want_bytes.len() || got != want_bytes {
            o.fail("varint-pack-wrong", format!("v64({x}) packs to {} (pack_sz {}), want {}", hex(&got), v.pack_sz(), hex(&want_bytes)));
            return o;
        }
        let mut again = got.clone();
        for tail in [&[][..], &c.pad[..], &[0xffu8; 10][..]] {
            again.truncate(got.len());
            again.extend_from_slice(tail);
            if v64_unpack(&again) != Ok((x, tail.len())) {
                o.fail("varint-pack-unpack", format!("v64({x}) -> {} -> {:?}", hex(&again), v64_unpack(&again)));
                return o;
            }
        }
        if ref_varint_len(x) != ref_varint_len(x.wrapping_add(1)) || ref_varint_len(x) != ref_varint_len(x.wrapping_sub(1)) {
            o.label("pack-at-7-bit-boundary");
        }
        // narrowing conversions used by the 32-bit field types
        let as_u32: Result<u32, _> = v.try_into();
        if as_u32.is_ok() != (x <= u32::MAX as u64) || as_u32.as_ref().ok().map(|y| *y as u64 != x).unwrap_or(false) {
            o.fail("varint-try-into-u32", format!("v64({x}).try_into::<u32>() = {as_u32:?}"));
            return o;
        }
        let as_i32: Result<i32, _> = v.try_into();
        let fits = (x as i64) >= i32::MIN as i64 && (x as i64) <= i32::MAX as i64;
        if as_i32.is_ok() != fits || as_i32.as_ref().ok().map(|y| *y as i64 != x as i64).unwrap_or(false) {
            o.fail("varint-try-into-i32", format!("v64({x}).try_into::<i32>() = {as_i32:?}"));
            return o;
        }
        // zig-zag against the documented formula
        let s = x as i64;
        if prototk::zigzag(s) != ref_zigzag(s) || prototk::unzigzag(x) != ref_unzigzag(x) || prototk::unzigzag(prototk::zigzag(s)) != s || prototk::zigzag(prototk::unzigzag(x)) != x {
            o.fail(
                "zigzag-wrong",
                format!(
                    "zigzag({s}) = {} (want {}), unzigzag({x}) = {} (want {}), unzigzag(zigzag({s})) = {}, zigzag(unzigzag({x})) = {}",
                    prototk::zigzag(s),
                    ref_zigzag(s),
                    prototk::unzigzag(x),
                    ref_unzigzag(x),
                    prototk::unzigzag(prototk::zigzag(s)),
                    prototk::zigzag(prototk::unzigzag(x))
                ),
            );
        }
        o
    }
}

//////////////////////////////////////// tags and FieldIterator ////////////////////////////////////

#[derive(Clone, Debug, Serialize, Deserialize)]
struct RawSpec {
    /// field number (may be 0, reserved, or >= 2^29)
    num: u64,
    /// wire type 0..8
    wt: u8,
    value: u64,
    /// extra zero groups: (tag, length, value) varints
    pad: (u8, u8, u8),
    /// content of a length-delimited field (or bytes following a tag with an invalid wire type)
    blob: Vec<u8>,
}

#[derive(Clone, Debug, Serialize, Deserialize)]
struct IterCase {
    fields: Vec<RawSpec>,
    cut: Option<u16>,
}

fn field_number_valid(n: u64) -> bool {
    (1..=(1u64 << 29) - 1).contains(&n) && !(19000..=19999).contains(&n)
}

fn raw_field_bytes(s: &RawSpec) -> Vec<u8> {
    let mut out = vec![];
    let tag = (s.num << 3) | s.wt as u64;
    ref_varint_padded(tag, (ref_varint_len(tag) + s.pad.0 as usize).min(10), &mut out);
    match s.wt {
        0 => ref_varint_padded(s.value, (ref_varint_len(s.value) + s.pad.2 as usize).min(10), &mut out),
        1 => out.extend_from_slice(&s.value.to_le_bytes()),
        5 => out.extend_from_slice(&(s.value as u32).to_le_bytes()),
        2 => {
            let n = s.blob.len() as u64;
            ref_varint_padded(n, (ref_varint_len(n) + s.pad.1 as usize).min(10), &mut out);
            out.extend_from_slice(&s.blob);
        }
        _ => out.extend_from_slice(&s.blob),
    }
    out
}

struct TagsAndIterator;

impl Property for TagsAndIterator {
    type Case = IterCase;
    fn name(&self) -> String {
        "tag-and-field-iterator".into()
    }
    fn cases(&self, tier: Tier) -> u64 {
        tier.pick(40_000, 800_000)
    }
    fn strategy(&self, _: &Ctx) -> BoxedStrategy<IterCase> {
        let num = prop_oneof![
            12 => prop::sample::select(vec![1u64, 2, 15, 16, 2047, 2048, 18999, 20000, 262143, 262144, 33554431, 33554432, (1 << 29) - 1]),
            4 => (1u64..(1 << 29)).prop_filter_map("reserved", |n| if field_number_valid(n) { Some(n) } else { None }),
            1 => Just(0u64),
            2 => prop::sample::select(vec![19000u64, 19001, 19500, 19999]),
            1 => prop::sample::select(vec![1u64 << 29, (1 << 29) + 5, 1 << 32, (1 << 61) - 1]),
        ];
        let wt = prop_oneof![12 => prop::sample::select(WIRE_TYPES.to_vec()), 1 => prop::sample::select(vec![3u8, 4, 6, 7])];
        let pad = (prop_oneof![5 => Just(0u8), 1 => 1u8..4], prop_oneof![5 => Just(0u8), 1 => 1u8..4], prop_oneof![4 => Just(0u8), 1 => 1u8..4]);
        let value = prop_oneof![Just(0u64), Just(127u64), Just(128u64), Just(u64::MAX), any::<u64>()];
        let blob = prop_oneof![2 => Just(vec![]), 5 => prop::collection::vec(any::<u8>(), 0..8), 1 => prop::collection::vec(any::<u8>(), 126..130)];
        let spec = (num, wt, value, pad, blob).prop_map(|(num, wt, value, pad, blob)| RawSpec { num, wt, value, pad, blob });
        (prop::collection::vec(spec, 0..7), prop::option::weighted(0.3, any::<u16>()))
            .prop_map(|(fields, cut)| IterCase { fields, cut })
            .boxed()
    }
    fn run(&self, _: &Ctx, c: &IterCase) -> Outcome {
        use prototk::{FieldIterator, FieldNumber, Tag, WireType};
        let mut o = Outcome::pass();
        o.nontrivial = c.fields.len() >= 2;
        // --- Tag / FieldNumber / WireType in isolation
        for s in c.fields.iter() {
            let tag = (s.num << 3) | s.wt as u64;
            let tag_ok = s.num < (1 << 29) && field_number_valid(s.num) && WIRE_TYPES.contains(&s.wt);
            let mut tb = vec![];
            ref_varint(tag, &mut tb);
            let tl = tb.len();
            tb.extend_from_slice(&s.blob);
            let got = <Tag as Unpackable>::unpack(&tb).map(|(t, rem)| (t.field_number.get() as u64, t.wire_type.tag_bits() as u8, rem.len()));
            match (&got, tag_ok) {
                (Ok((n, w, rem)), true) if *n == s.num && *w == s.wt && *rem == tb.len() - tl => o.label("tag-valid"),
                (Err(_), false) => o.label(if !WIRE_TYPES.contains(&s.wt) { "tag-bad-wire-type" } else if s.num >= 1 << 29 { "tag-too-large" } else { "tag-bad-field-number" }),
                _ => {
                    o.fail("tag-unpack-wrong", format!("Tag::unpack({}) for field number {} wire type {} = {got:?}; a valid tag is expected to be {tag_ok}", hex(&tb), s.num, s.wt));
                    return o;
                }
            }
            if s.num <= u32::MAX as u64 {
                let fnum = FieldNumber::new(s.num as u32);
                if fnum.is_ok() != field_number_valid(s.num) || FieldNumber::is_valid(s.num as u32) != field_number_valid(s.num) {
                    o.fail("field-number-validity", format!("FieldNumber::new({}) = {fnum:?}", s.num));
                    return o;
                }
                if let (Ok(f), Ok(w)) = (fnum, WireType::new(s.wt as u32)) {
                    let t = Tag { field_number: f, wire_type: w };
                    let packed = stack_pack(t).to_vec();
                    if packed != tb[..tl] || t.pack_sz() != tl {
                        o.fail("tag-pack-wrong", format!("Tag({}, {}) packs to {} (pack_sz {}), want {}", s.num, s.wt, hex(&packed), t.pack_sz(), hex(&tb[..tl])));
                        return o;
                    }
                }
            }
            if WireType::new(s.wt as u32).is_ok() != WIRE_TYPES.contains(&s.wt) {
                o.fail("wire-type-validity", format!("WireType::new({}) = {:?}", s.wt, WireType::new(s.wt as u32)));
                return o;
            }
        }
        // --- FieldIterator against the independent walker
        let mut buf = vec![];
        for s in c.fields.iter() {
            buf.extend_from_slice(&raw_field_bytes(s));
        }
        if let Some(cut) = c.cut {
            buf.truncate(sel(cut, buf.len() + 1));
            o.label("cut");
        }
        let mut want: Vec<(u64, u8, usize, usize)> = vec![]; // num, wt, payload offset, payload len
        let mut off = 0;
        while off < buf.len() {
            let Some((f, used)) = ref_read_field(&buf[off..]) else { break };
            if !field_number_valid(f.num) {
                break;
            }
            let start = off + used - f.payload.len();
            want.push((f.num, f.wt, start, f.payload.len()));
            off += used;
        }
        let want_err = off < buf.len();
        let mut err = None;
        let mut got: Vec<(u64, u8, usize, usize)> = vec![];
        let remain;
        {
            let mut it = FieldIterator::new(&buf, &mut err);
            for (tag, slice) in it.by_ref() {
                let start = slice.as_ptr() as usize - buf.as_ptr() as usize;
                got.push((tag.field_number.get() as u64, tag.wire_type.tag_bits() as u8, start, slice.len()));
            }
            remain = it.remain().len();
        }
        o.label(if want_err { "iterator-stops-with-error" } else { "iterator-runs-to-end" });
        // a non-canonical varint is handed out shortened to its canonical length (the consumer
        // then rejects it); tolerate that, but nothing else
        let mut shortened = false;
        let same = got.len() == want.len()
            && got.iter().zip(want.iter()).all(|(g, w)| {
                if g == w {
                    return true;
                }
                let shorter = g.0 == w.0 && g.1 == w.1 && g.2 == w.2 && g.3 < w.3 && (w.1 == 0 || w.1 == 2);
                shortened |= shorter;
                shorter
            });
        if shortened {
            o.label("noncanonical-varint-slice-shortened");
        }
        if !same || err.is_some() != want_err || (!want_err && remain != 0) {
            o.fail(
                "field-iterator-differs",
                format!("FieldIterator over {} yields (num, wire type, offset, len) {got:?} err {err:?} remain {remain}; the reference walker yields {want:?} and error = {want_err}", hex(&buf)),
            );
        }
        o
    }
}

fn main() {
    let check = Check::new(
        "C15",
        "exploration",
        "proptest: a value of one of 20 derived message types (all scalar field types, fixed-size bytes, strings, `string` and `bytes` fields held in PathBuf, optional, repeated, nested to depth 4, recursive, derive on named / tuple / unit structs, enums with unit/unnamed/named variants - named variants with u64, message, repeated, [u8; 64], [u8; 16], bytes, string, float, fixed-width, bool, optional double and PathBuf fields -, Result; integers on 2^k-1/2^k/2^k+1 and their negations, floats on special values and NaN payloads, lengths on 127/128 and 16383/16384) is generated once as a dynamic tree and lowered to the typed value and to an independent wire encoder. Parts: round trip (pack_sz = length, bytes = reference wire encoding, unpack = value bitwise); unknown fields of every wire type (and malformed ones) spliced at field boundaries of any depth: between the fields of struct bodies and named-variant bodies, after the variant field of a nested enum / Result, and - second selector - before the variant field of a nested or top-level enum / Result and after the variant field of a top-level one (whose unpack hands the spliced bytes back as the remainder); random bytes and structure-aware mutations of valid encodings (non-canonical/over-long varints inside consistent lengths, truncation, bit flips, insert/delete); every 1..10-byte varint on the exact-length (slow) and padded (fast) decoder; tags and FieldIterator against an independent wire walker; concatenated encodings enc(a) ++ enc(b) of struct-shaped types (every singular field occurs twice): no panic; rejection is allowed; if accepted, every singular / optional scalar, bytes or string field holds a's or b's value (never a third one, e.g. both payloads glued together) and every repeated field a's elements followed by b's (message-typed singular fields not asserted). Non-trivial: round trip - >= 3 encoded fields and a boundary integer, special float, nested message or non-empty repeated field; splice - >= 1 field spliced into a value with >= 2 encoded fields or with an enum / Result in it; bytes - >= 2 input bytes; varint - every case; iterator - >= 2 fields. Distinct by structural hash of the case.",
    )
    .assume("fields are written in declaration order, zero/empty values are always written, repeated scalars are not packed, a unit enum variant is an empty length-delimited field: legal protobuf encodings chosen by prototk_derive, mirrored by the reference encoder")
    .assume("wire types 3, 4, 6, 7 and field numbers 0 / 19000..19999 / >= 2^29 are documented as rejected; for those only 'no panic, and Ok implies the known fields are undisturbed' is asserted on messages (the rejection itself is asserted on Tag::unpack)")
    .assume("a ten-byte varint whose tenth byte exceeds 1 is undocumented: only agreement between decoders, the low 63 bits and the remainder are asserted")
    .assume("a non-canonical varint in a field the reader knows is rejected (FieldIterator hands out the canonical-length prefix); the property allows value-or-error, so this is labelled, not asserted")
    .assume("an SError inside Result packs as its handled display text; only texts that handled itself re-parses identically are used, the text is treated as opaque by the reference encoder")
    .assume("bytes after the variant field of a nested enum / Result: well-formed unknown fields must be skipped (decode Ok, equal); malformed ones may be rejected")
    .assume("a derived enum / Result is a oneof: its first tag is the discriminant; an unknown field in that position is an unknown variant and may be rejected (observed: unknown-discriminant); only no-panic and value-undisturbed-if-accepted are asserted there")
    .assume("string fields hold UTF-8: PathBuf values in string×PathBuf fields are generated as valid UTF-8 (bytes×PathBuf carries arbitrary paths and is generated with arbitrary bytes)")
    .assume("a top-level enum / Result returns the bytes after its variant field as the remainder of unpack (that is the buffertk contract for values packed back to back); a remainder equal to exactly the spliced bytes, or none, is accepted there")
    .assume("duplicated singular fields (concatenated encodings): the property promises a value or an error, so last-occurrence-wins (protocol-buffers parser semantics; observed), first-wins and rejection are all accepted and only labelled; a field value that is neither operand's is a failure, as is a repeated field that is not a's elements followed by b's")
    .pbt(RoundTrip)
    .pbt(Splice)
    .pbt(AnyBytes)
    .pbt(Concatenated)
    .pbt(Varints15)
    .pbt(TagsAndIterator);
    vcore::main_with(vec![check], &[("seed-corpus", seed_corpus), ("dump-bytes", dump_bytes)]);
}

/// `c15 dump-bytes <replay.json>`: print the input bytes of an arbitrary-bytes replay case.
fn dump_bytes(args: &[String]) -> i32 {
    let v: serde_json::Value = serde_json::from_slice(&std::fs::read(&args[0]).expect("read")).expect("json");
    let c: BytesCase = serde_json::from_value(v["case"].clone()).expect("case");
    let (bytes, _) = AnyBytes::bytes_of(&c);
    println!("type {:?}: {}", c.ty, bytes.iter().map(|b| format!("{b:02x}")).collect::<Vec<_>>().join(" "));
    println!("oneof_tail_trigger = {}", oneof_tail_trigger(schema, c.ty, &bytes));
    0
}

/// `c15 seed-corpus <dir> [n]`: write `n` valid reference encodings (deterministic) as a libFuzzer
/// seed corpus for `c15_decode_any`.
fn seed_corpus(args: &[String]) -> i32 {
    use proptest::strategy::ValueTree;
    use proptest::test_runner::{Config, RngSeed, TestRunner};
    let Some(dir) = args.first() else {
        eprintln!("usage: seed-corpus <dir> [n]");
        return 2;
    };
    let n: usize = args.get(1).and_then(|s| s.parse().ok()).unwrap_or(64);
    std::fs::create_dir_all(dir).expect("create corpus dir");
    let mut runner = TestRunner::new(Config { rng_seed: RngSeed::Fixed(15), failure_persistence: None, ..Config::default() });
    let strat = gens::typed_value();
    let mut written = 0;
    let mut tries = 0;
    while written < n && tries < 100 * n {
        tries += 1;
        let (ty, val) = strat.new_tree(&mut runner).unwrap().current();
        let bytes = ref_encode(schema, ty, &val, None).bytes;
        if bytes.is_empty() || bytes.len() > 200 {
            continue;
        }
        std::fs::write(format!("{dir}/seed-{written:03}-{ty:?}"), &bytes).expect("write seed");
        written += 1;
    }
    println!("wrote {written} seeds to {dir}");
    0
}
