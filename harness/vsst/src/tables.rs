//! Generators for sorted multi-version tables and cursor programs, and the program comparator.

use proptest::prelude::*;
use serde::{Deserialize, Serialize};

use sst::Cursor;
use vcore::gens::{self, KeyFamily};
use vcore::refcursor::{CursorOp, Entry, RefCursor};

/// A generated multi-version table: entries are distinct in (key, timestamp).
#[derive(Clone, Debug, Serialize, Deserialize)]
pub struct Table {
    pub family: KeyFamily,
    pub entries: Vec<Entry>,
}

fn timestamp() -> impl Strategy<Value = u64> {
    prop_oneof![
        6 => 1u64..40,
        1 => Just(0u64),
        1 => Just(u64::MAX),
        1 => Just(u64::MAX - 1),
        1 => any::<u64>(),
    ]
}

fn value_size_class(big: bool) -> BoxedStrategy<u8> {
    if big {
        prop_oneof![3 => 0u8..4, 3 => Just(4u8), 3 => Just(5u8), 1 => Just(6u8)].boxed()
    } else {
        prop_oneof![6 => 0u8..4, 1 => Just(4u8)].boxed()
    }
}

/// `max_keys` keys drawn from a family's universe, each with 1..=max_versions versions.
pub fn table(max_keys: usize, max_versions: usize, big_values: bool) -> impl Strategy<Value = Table> {
    // size classes of `gens::value`
    const SIZES: [usize; 8] = [0, 1, 10, 10, 200, 900, 2500, 30_000];
    table_sized(max_keys, max_versions, value_size_class(big_values).prop_map(|c| SIZES[c as usize % SIZES.len()]).boxed())
}

/// A value of exactly `n` bytes whose content is recognisable by `tag` (same shape as
/// `gens::value`, which it equals for that function's size classes).
pub fn value_n(tag: u32, n: usize) -> Vec<u8> {
    let t = format!("<{tag}>");
    let mut v = Vec::with_capacity(n);
    while v.len() < n {
        let take = (n - v.len()).min(t.len());
        v.extend_from_slice(&t.as_bytes()[..take]);
    }
    v
}

/// As `table`, with the value length of every version drawn from `value_len`.
pub fn table_sized(max_keys: usize, max_versions: usize, value_len: BoxedStrategy<usize>) -> impl Strategy<Value = Table> {
    (gens::key_family(), 1..=max_keys.max(1)).prop_flat_map(move |(family, nkeys)| {
        let universe = gens::universe(family, 30);
        let per_key = (
            any::<u16>(),
            prop::collection::vec((timestamp(), prop::bool::weighted(0.3), value_len.clone()), 1..=max_versions),
        );
        (Just(family), Just(universe), prop::collection::vec(per_key, 0..=nkeys)).prop_map(|(family, universe, picks)| {
            let mut entries: Vec<Entry> = vec![];
            let mut tag = 0u32;
            for (ksel, versions) in picks {
                let key = universe[gens::sel(ksel, universe.len())].clone();
                for (ts, tomb, sz) in versions {
                    if entries.iter().any(|e| e.0 == key && e.1 == ts) {
                        continue;
                    }
                    tag += 1;
                    let v = if tomb { None } else { Some(value_n(tag, sz)) };
                    entries.push((key.clone(), ts, v));
                }
            }
            vcore::refcursor::sort_entries(&mut entries);
            // (empty key, u64::MAX) equals the builders' initial "last key" and is therefore
            // never accepted as a first entry; keep it out of the domain.
            if entries.first().map(|e| e.0.is_empty() && e.1 == u64::MAX).unwrap_or(false) {
                entries.remove(0);
            }
            Table { family, entries }
        })
    })
}

/// A program of cursor calls; the first call is always an absolute seek.
pub fn program(universe: Vec<Vec<u8>>, max_len: usize) -> impl Strategy<Value = Vec<CursorOp>> {
    program_from(universe, max_len, false)
}

/// A program of cursor calls for a freshly constructed cursor: in a third of the cases the first
/// call is a relative one (next / prev), so that the position a constructor leaves is observed.
pub fn program_maybe_fresh(universe: Vec<Vec<u8>>, max_len: usize) -> impl Strategy<Value = Vec<CursorOp>> {
    prop_oneof![2 => program_from(universe.clone(), max_len, false), 1 => program_from(universe, max_len, true)]
}

fn program_from(universe: Vec<Vec<u8>>, max_len: usize, fresh: bool) -> impl Strategy<Value = Vec<CursorOp>> {
    let mut targets: Vec<Vec<u8>> = vec![];
    for k in universe.iter() {
        for n in gens::neighbours(k) {
            targets.push(n);
        }
    }
    targets.push(vec![]);
    targets.push(vec![0xff; 12]);
    targets.sort();
    targets.dedup();
    let t1 = targets.clone();
    let seek = (any::<u16>()).prop_map(move |s| CursorOp::Seek(t1[gens::sel(s, t1.len())].clone()));
    let seek2 = seek.clone();
    let first = if fresh {
        prop_oneof![3 => Just(CursorOp::Next), 2 => Just(CursorOp::Prev)].boxed()
    } else {
        prop_oneof![2 => Just(CursorOp::SeekToFirst), 2 => Just(CursorOp::SeekToLast), 3 => seek].boxed()
    };
    let rest = prop_oneof![
        35 => Just(CursorOp::Next),
        32 => Just(CursorOp::Prev),
        18 => seek2,
        7 => Just(CursorOp::SeekToFirst),
        8 => Just(CursorOp::SeekToLast),
    ];
    (first, prop::collection::vec(rest, 0..max_len)).prop_map(|(f, mut r)| {
        r.insert(0, f);
        r
    })
}

pub fn keys_of(entries: &[Entry]) -> Vec<Vec<u8>> {
    let mut k: Vec<Vec<u8>> = entries.iter().map(|e| e.0.clone()).collect();
    k.dedup();
    k
}

pub fn has_reversal(prog: &[CursorOp]) -> bool {
    prog.windows(2).any(|w| matches!((&w[0], &w[1]), (CursorOp::Next, CursorOp::Prev) | (CursorOp::Prev, CursorOp::Next)))
}

pub fn show_entry(e: Option<&Entry>) -> String {
    match e {
        None => "None".to_string(),
        Some((k, t, v)) => format!("({}@{} {})", gens::show(k), t, match v { Some(v) => format!("val[{}]", v.len()), None => "TOMBSTONE".into() }),
    }
}

/// Apply `op` to a real cursor.
pub fn apply<C: Cursor>(c: &mut C, op: &CursorOp) -> Result<(), handled::SError> {
    match op {
        CursorOp::SeekToFirst => c.seek_to_first(),
        CursorOp::SeekToLast => c.seek_to_last(),
        CursorOp::Seek(k) => c.seek(k),
        CursorOp::Next => c.next(),
        CursorOp::Prev => c.prev(),
    }
}

pub fn current<C: Cursor>(c: &C) -> Option<Entry> {
    let kv = c.key_value();
    // key() and value() must be consistent with key_value()
    kv.map(|kv| (kv.key.to_vec(), kv.timestamp, kv.value.map(|v| v.to_vec())))
}

/// Run `prog` against the cursor and the reference, comparing after every call.  Returns
/// (signature, message) of the first disagreement.
pub fn compare_program<C: Cursor>(what: &str, c: &mut C, reference: &mut RefCursor, prog: &[CursorOp]) -> Result<(), (String, String)> {
    compare_program_opt(what, c, reference, prog, false)
}

/// As `compare_program`; with `ignore_ts` the timestamps of the real cursor are not compared (the
/// store assigns them), only keys and values.
pub fn compare_program_opt<C: Cursor>(what: &str, c: &mut C, reference: &mut RefCursor, prog: &[CursorOp], ignore_ts: bool) -> Result<(), (String, String)> {
    for (i, op) in prog.iter().enumerate() {
        if let Err(e) = apply(c, op) {
            return Err((format!("{what}:error"), format!("{what}: call #{i} {op:?} returned an error: {}", vcore::truncate(&format!("{e:?}"), 300))));
        }
        reference.apply(op);
        let mut got = current(c);
        let want = reference.current().cloned();
        if ignore_ts {
            if let (Some(g), Some(w)) = (got.as_mut(), want.as_ref()) {
                g.1 = w.1;
            }
        }
        if got != want {
            let opname = match op {
                CursorOp::Seek(_) => "seek",
                CursorOp::Next => "next",
                CursorOp::Prev => "prev",
                CursorOp::SeekToFirst => "seek_to_first",
                CursorOp::SeekToLast => "seek_to_last",
            };
            return Err((
                format!("{what}:{opname}"),
                format!("{what}: after call #{i} {op:?} cursor is at {} but the reference is at {}; program prefix {:?}", show_entry(got.as_ref()), show_entry(want.as_ref()), &prog[..=i]),
            ));
        }
        // key()/value() agree with key_value()
        let k = c.key().map(|k| (k.key.to_vec(), if ignore_ts { want.as_ref().map(|w| w.1).unwrap_or(0) } else { k.timestamp }));
        if k != want.as_ref().map(|e| (e.0.clone(), e.1)) {
            return Err((format!("{what}:key-inconsistent"), format!("{what}: key() disagrees with key_value() after call #{i} {op:?}")));
        }
        if c.value().map(|v| v.to_vec()) != want.as_ref().and_then(|e| e.2.clone()) {
            return Err((format!("{what}:value-inconsistent"), format!("{what}: value() disagrees with key_value() after call #{i} {op:?}")));
        }
    }
    Ok(())
}

/// Build a `Block` from entries.
pub fn build_block(entries: &[Entry], bytes_ri: u32, pairs_ri: u32) -> Result<sst::block::Block, handled::SError> {
    use sst::Builder;
    let opts = sst::block::BlockBuilderOptions::default().bytes_restart_interval(bytes_ri).key_value_pairs_restart_interval(pairs_ri);
    let mut b = sst::block::BlockBuilder::new(opts);
    for (k, t, v) in entries.iter() {
        match v {
            Some(v) => b.put(k, *t, v)?,
            None => b.del(k, *t)?,
        }
    }
    b.seal()
}

#[derive(Clone, Copy, Debug, Serialize, Deserialize)]
pub struct BuildOpts {
    pub bytes_ri: u32,
    pub pairs_ri: u32,
    pub block_size: u32,
}

pub fn build_opts() -> impl Strategy<Value = BuildOpts> {
    (
        prop_oneof![Just(1u32), Just(2), Just(64), Just(1024), Just(100_000)],
        prop_oneof![Just(1u32), Just(2), Just(3), Just(16), Just(1000)],
        prop_oneof![3 => Just(4096u32), 1 => Just(8192), 1 => Just(65536), 1 => Just(1u32)],
    )
        .prop_map(|(bytes_ri, pairs_ri, block_size)| BuildOpts { bytes_ri, pairs_ri, block_size })
}

pub fn sst_options(o: &BuildOpts) -> sst::SstOptions {
    let block = sst::block::BlockBuilderOptions::default().bytes_restart_interval(o.bytes_ri).key_value_pairs_restart_interval(o.pairs_ri);
    sst::SstOptions::default().block(block).target_block_size(o.block_size)
}

/// Build an SST file at `path` from entries.
pub fn build_sst(path: &std::path::Path, entries: &[Entry], o: &BuildOpts) -> Result<sst::Sst, handled::SError> {
    use sst::Builder;
    let _ = std::fs::remove_file(path);
    let mut b = sst::SstBuilder::new(sst_options(o), path)?;
    for (k, t, v) in entries.iter() {
        match v {
            Some(v) => b.put(k, *t, v)?,
            None => b.del(k, *t)?,
        }
    }
    b.seal()
}

/// The caller's tombstone flag before a `load`: false or true as a function of the arguments (so a
/// replay sees the same flag), so that a `load` that returns without writing its out-parameter (a
/// "tombstone" that does not exist, or a missed one) is seen.  C10: "reports its tombstone" is
/// part of what a lookup returns.
pub fn stale_flag_for(key: &[u8], salt: u64) -> bool {
    let h = key.iter().fold(salt ^ key.len() as u64, |a, b| a.wrapping_mul(1099511628211).wrapping_add(*b as u64));
    (h ^ (h >> 17)) & 1 == 1
}
