//! Checks over the `sst` crate (C09–C12) and utilities shared with the store-level checks.
pub mod c10;
pub mod c10ext;
pub mod c11;
pub mod tables;
