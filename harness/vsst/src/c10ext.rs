//! C10, continued: the multi-file builder every compaction uses, and entries of exactly the
//! documented maximum sizes.

use std::path::PathBuf;

use proptest::prelude::*;
use serde::{Deserialize, Serialize};

use sst::Builder;
use vcore::gens;
use vcore::refcursor::{sort_entries, CursorOp, Entry, RefCursor};
use vcore::{Ctx, Outcome, Property, Tier};

use crate::c10::{bad_offer, bad_strategy, check_sealed_sst, lookup_targets, model_load, walk_backward, walk_forward, Bad};
use crate::tables::{self, BuildOpts, Table};

type Verdict = Result<(), (String, String)>;

fn err<T>(sig: impl Into<String>, msg: impl Into<String>) -> Result<T, (String, String)> {
    Err((sig.into(), msg.into()))
}

fn setsum_of(entries: &[Entry]) -> sst::Setsum {
    let mut setsum = sst::Setsum::default();
    for (k, t, v) in entries.iter() {
        match v {
            Some(v) => setsum.put(k, *t, v),
            None => setsum.del(k, *t),
        }
    }
    setsum
}

/// What the files returned by a sealed `SstMultiBuilder` must look like when `accepted` is the
/// sequence of entries it accepted: their concatenation in file order is exactly `accepted`, every
/// file is non-empty and is - by all the per-file oracles of the sst-roundtrip part - the table
/// of its slice, consecutive files are ordered (a shared boundary key has its newer versions in
/// the earlier file), and the files' setsums add up to the setsum of the input.
/// Returns the number of entries per file.
#[allow(clippy::too_many_arguments)]
fn verify_multi_output(what: &str, paths: &[PathBuf], accepted: &[Entry], prog: &[CursorOp], loads: &[(u16, u64)], targets: &[Vec<u8>], more_keys: &[Vec<u8>]) -> Result<Vec<usize>, (String, String)> {
    let sig = |s: &str| format!("{what}:{s}");
    let mut seen = std::collections::BTreeSet::new();
    for p in paths.iter() {
        if !seen.insert(p.clone()) {
            return Err((sig("duplicate-path"), format!("seal() returned {} twice", p.display())));
        }
    }
    let mut tables_ = vec![];
    let mut counts = vec![];
    let mut concat: Vec<Entry> = vec![];
    for p in paths.iter() {
        let t = sst::Sst::<sst::file_manager::FileHandle>::new(sst::SstOptions::default(), p).map_err(|e| (sig("open-error"), format!("output file {} cannot be opened: {e:?}", p.display())))?;
        let got = walk_forward(&mut t.cursor()).map_err(|e| (sig("forward-walk-error"), e))?;
        counts.push(got.len());
        concat.extend(got);
        tables_.push(t);
    }
    if concat != accepted {
        let at = concat.iter().zip(accepted.iter()).position(|(a, b)| a != b).unwrap_or(concat.len().min(accepted.len()));
        return Err((
            sig("concatenation-differs"),
            format!(
                "the {} output files hold {:?} entries, {} in all; the builder accepted {}; first difference at position {at}: files have {}, input has {}",
                paths.len(),
                counts,
                concat.len(),
                accepted.len(),
                tables::show_entry(concat.get(at)),
                tables::show_entry(accepted.get(at))
            ),
        ));
    }
    let mut off = 0;
    let mut total = sst::Setsum::default();
    let mut prev_md: Option<sst::SstMetadata> = None;
    for (i, t) in tables_.iter().enumerate() {
        let slice = &accepted[off..off + counts[i]];
        if slice.is_empty() {
            return Err((sig("empty-file"), format!("output file #{i} of {} holds no entry", paths.len())));
        }
        check_sealed_sst(what, t, &paths[i], slice, prog, loads, targets, more_keys)?;
        let md = t.metadata().map_err(|e| (sig("metadata-error"), format!("{e:?}")))?;
        if let Some(p) = prev_md.as_ref() {
            let ordered = p.last_key < md.first_key || (p.last_key == md.first_key && accepted[off - 1].1 > accepted[off].1);
            if !ordered {
                return Err((sig("files-not-ordered"), format!("file #{} ends at {} and file #{i} starts at {}", i - 1, gens::show(&p.last_key), gens::show(&md.first_key))));
            }
        }
        total += sst::Setsum::from_digest(md.setsum);
        prev_md = Some(md);
        off += counts[i];
    }
    if total != setsum_of(accepted) {
        return Err((sig("setsum-sum"), "the setsums of the output files do not add up to the setsum of the accepted entries".into()));
    }
    Ok(counts)
}

/////////////////////////////////////////// multi builder //////////////////////////////////////////

#[derive(Clone, Debug, Serialize, Deserialize)]
pub struct MultiCase {
    pub table: Table,
    pub opts: BuildOpts,
    pub target_file_size: u32,
    pub minimum_file_size: u32,
    /// `split_hint()` is called before the entry at each of these positions (selectors into 0..=len)
    pub hints: Vec<u16>,
    /// (position selector, kind, through the other entry point): invalid offers
    pub bad: Vec<(u16, Bad, bool)>,
    pub prog: Vec<CursorOp>,
    pub loads: Vec<(u16, u64)>,
}

fn value_profile() -> BoxedStrategy<(&'static str, usize, BoxedStrategy<usize>)> {
    prop_oneof![
        // a few hundred bytes per entry: files of 4..20 entries at the smallest target size
        5 => Just(("mixed", 25usize, prop_oneof![3 => 0usize..11, 3 => 150usize..260, 3 => 700usize..1000, 1 => 2000usize..2600].boxed())),
        // everything tiny: the table is smaller than any target size
        1 => Just(("tiny", 20usize, (0usize..11).boxed())),
        // every value alone exceeds the smallest target size: every put is its own file
        2 => Just(("fat", 7usize, (4000usize..5200).boxed())),
    ]
    .boxed()
}

fn file_size() -> impl Strategy<Value = u32> {
    prop_oneof![
        5 => Just(4096u32),
        1 => Just(0u32),
        3 => 4097u32..12_000,
        1 => Just(16_384u32),
        1 => Just(65_536u32),
        1 => Just(1u32 << 26),
    ]
}

pub struct MultiRoundTrip;

impl Property for MultiRoundTrip {
    type Case = MultiCase;
    fn name(&self) -> String {
        "multi-builder-roundtrip".into()
    }
    fn cases(&self, tier: Tier) -> u64 {
        tier.pick(2_000, 30_000)
    }
    fn strategy(&self, _: &Ctx) -> BoxedStrategy<MultiCase> {
        value_profile()
            .prop_flat_map(|(_, keys, lens)| tables::table_sized(keys, 6, lens))
            .prop_flat_map(|t| {
                let universe = gens::universe(t.family, 30);
                let ts = prop_oneof![2 => 0u64..45, 1 => Just(u64::MAX), 1 => Just(0u64), 1 => any::<u64>()];
                (
                    Just(t),
                    tables::build_opts(),
                    file_size(),
                    file_size(),
                    prop::collection::vec(any::<u16>(), 0..6),
                    prop_oneof![2 => Just(vec![]).boxed(), 3 => prop::collection::vec((any::<u16>(), bad_strategy(), any::<bool>()), 1..6).boxed()],
                    tables::program(universe, 16),
                    prop::collection::vec((any::<u16>(), ts), 0..6),
                )
            })
            .prop_map(|(table, opts, target_file_size, minimum_file_size, hints, bad, prog, loads)| MultiCase { table, opts, target_file_size, minimum_file_size, hints, bad, prog, loads })
            .boxed()
    }
    fn run(&self, ctx: &Ctx, c: &MultiCase) -> Outcome {
        let mut o = Outcome::pass();
        let entries = &c.table.entries;
        let dir = ctx.fresh_dir("c10-multi");
        let res = run_multi(c, &dir, &mut o);
        let _ = std::fs::remove_dir_all(&dir);
        match res {
            Ok(counts) => {
                o.label(match counts.len() {
                    0 => "files:0",
                    1 => "files:1",
                    2..=4 => "files:2-4",
                    _ => "files:5+",
                });
                let mut off = 0;
                let mut split_key = false;
                for n in counts.iter() {
                    if off > 0 && entries[off - 1].0 == entries[off].0 {
                        split_key = true;
                    }
                    off += n;
                }
                if split_key {
                    o.label("key-versions-split-across-files");
                }
                if counts.len() >= 2 && counts.len() == entries.len() {
                    o.label("every-entry-its-own-file");
                }
                if counts.len() <= 1 && entries.len() >= 2 {
                    o.label("one-file-for-the-whole-table");
                }
                o.nontrivial = counts.len() >= 2 && entries.windows(2).any(|w| w[0].0 == w[1].0);
            }
            Err((sig, msg)) => o.fail(sig, msg),
        }
        o
    }
}

fn run_multi(c: &MultiCase, dir: &std::path::Path, o: &mut Outcome) -> Result<Vec<usize>, (String, String)> {
    let entries = &c.table.entries;
    let options = tables::sst_options(&c.opts).target_file_size(c.target_file_size).minimum_file_size(c.minimum_file_size);
    // the documented clamp of the option
    let target = c.target_file_size.clamp(sst::CLAMP_MIN_TARGET_FILE_SIZE, sst::CLAMP_MAX_TARGET_FILE_SIZE) as usize;
    let mut mb = sst::SstMultiBuilder::new(dir.to_path_buf(), ".sst".to_string(), options);
    let mut hints: Vec<usize> = c.hints.iter().map(|h| gens::sel(*h, entries.len() + 1)).collect();
    hints.sort();
    let mut injections: Vec<(usize, &Bad, bool)> = c.bad.iter().map(|(s, k, f)| (gens::sel(*s, entries.len() + 1), k, *f)).collect();
    injections.sort_by_key(|x| x.0);
    if injections.is_empty() {
        o.label("valid-input-only");
    }
    let mut refused_keys: Vec<Vec<u8>> = vec![];
    // a refused offer opened a file and nothing has been accepted since: the open file is empty
    let mut fresh_file_is_empty = false;
    for i in 0..=entries.len() {
        for _ in hints.iter().filter(|p| **p == i) {
            let before = mb.approximate_size();
            mb.split_hint().map_err(|e| ("multi:split-hint-error".to_string(), format!("{e:?}")))?;
            if before > 0 && mb.approximate_size() == 0 {
                o.label("split-hint-closed-a-file");
            }
        }
        for (_, kind, flip) in injections.iter().filter(|(p, _, _)| *p == i) {
            let last = if i > 0 { Some(&entries[i - 1]) } else { None };
            let Some(bad) = bad_offer(kind, *flip, last) else { continue };
            // Would this offer be the first entry of a file?  Evaluated on the state before the
            // call: no file is open (nothing accepted yet, or a split hint closed it), the open
            // file has reached its target size, or an earlier refused offer opened the file.
            let open = mb.approximate_size();
            let opens_file = open == 0 || open >= target || fresh_file_is_empty;
            if opens_file {
                o.label(format!("{}-violation-as-first-entry-of-a-file:{}", if bad.order { "order" } else { "size" }, if open >= target { "after-roll" } else if fresh_file_is_empty { "after-refused-offer" } else if i == 0 { "first-offer" } else { "after-split-hint" }));
            }
            let via = if bad.value.is_some() { "put" } else { "del" };
            let res = match bad.value.as_deref() {
                Some(v) => mb.put(&bad.key, bad.ts, v),
                None => mb.del(&bad.key, bad.ts),
            };
            match res {
                Ok(()) => {
                    return err(
                        format!("multi:accepted:{kind:?}"),
                        format!("the multi builder accepted invalid input {kind:?} ({} @ {} through {via}) offered after {i} entries, last accepted {}; open file size before the offer {open}, target {target}", gens::show(&bad.key), bad.ts, tables::show_entry(last)),
                    );
                }
                Err(e) => {
                    o.label(format!("rejected:{kind:?}"));
                    fresh_file_is_empty = opens_file;
                    // the property asks for an error; which code is an observation
                    if sst::error_code(&e) != Some(bad.want) {
                        o.label(format!("error-code-other-than-{}:{:?}", bad.want, sst::error_code(&e)));
                    }
                }
            }
            refused_keys.push(bad.key);
        }
        if i < entries.len() {
            let e = &entries[i];
            let res = match e.2.as_deref() {
                Some(v) => mb.put(&e.0, e.1, v),
                None => mb.del(&e.0, e.1),
            };
            if let Err(e) = res {
                return err("multi:valid-refused", format!("valid entry #{i} was refused: {e:?}"));
            }
            fresh_file_is_empty = false;
        }
    }
    let paths = mb.seal().map_err(|e| ("multi:seal-error".to_string(), format!("{e:?}")))?;
    let targets = lookup_targets(&c.table);
    verify_multi_output("multi", &paths, entries, &c.prog, &c.loads, &targets, &refused_keys)
}

////////////////////////////////////////// boundary sizes //////////////////////////////////////////

#[derive(Clone, Copy, Debug, PartialEq, Eq, Serialize, Deserialize)]
pub enum KeyLen {
    Short,
    MaxMinus1,
    Max,
    MaxPlus1,
}

#[derive(Clone, Copy, Debug, PartialEq, Eq, Serialize, Deserialize)]
pub enum ValLen {
    Tombstone,
    Small,
    MaxMinus1,
    Max,
    MaxPlus1,
}

#[derive(Clone, Debug, Serialize, Deserialize)]
pub struct Extra {
    /// selector of the universe key the long key starts with
    pub prefix: u16,
    /// the byte the key is padded with up to its length
    pub fill: u8,
    pub klen: KeyLen,
    pub ts: u64,
    pub vlen: ValLen,
}

#[derive(Clone, Copy, Debug, PartialEq, Eq, Serialize, Deserialize)]
pub enum Which {
    Block,
    Sst,
    Multi,
}

#[derive(Clone, Debug, Serialize, Deserialize)]
pub struct SizeCase {
    pub table: Table,
    pub opts: BuildOpts,
    pub extra: Vec<Extra>,
    pub which: Which,
    pub prog: Vec<CursorOp>,
    /// selectors into the long keys: each is sought and stepped around
    pub seeks: Vec<u16>,
    pub loads: Vec<(u16, u64)>,
}

pub struct BoundarySizes;

impl Property for BoundarySizes {
    type Case = SizeCase;
    fn name(&self) -> String {
        "boundary-sizes".into()
    }
    fn cases(&self, tier: Tier) -> u64 {
        tier.pick(1_200, 15_000)
    }
    fn strategy(&self, _: &Ctx) -> BoxedStrategy<SizeCase> {
        let klen = prop_oneof![2 => Just(KeyLen::Short), 2 => Just(KeyLen::MaxMinus1), 4 => Just(KeyLen::Max), 3 => Just(KeyLen::MaxPlus1)];
        let vlen = prop_oneof![3 => Just(ValLen::Tombstone), 3 => Just(ValLen::Small), 1 => Just(ValLen::MaxMinus1), 3 => Just(ValLen::Max), 2 => Just(ValLen::MaxPlus1)];
        let ts = prop_oneof![4 => 0u64..6, 1 => Just(u64::MAX), 1 => any::<u64>()];
        let extra = (any::<u16>(), prop_oneof![Just(0u8), Just(b'm'), Just(0xffu8)], klen, ts, vlen).prop_map(|(prefix, fill, klen, ts, vlen)| Extra { prefix, fill, klen, ts, vlen });
        tables::table(6, 3, false)
            .prop_flat_map(move |t| {
                let universe = gens::universe(t.family, 30);
                let lts = prop_oneof![2 => 0u64..6, 1 => Just(u64::MAX), 1 => Just(0u64)];
                (
                    Just(t),
                    tables::build_opts(),
                    prop::collection::vec(extra.clone(), 1..7),
                    prop_oneof![Just(Which::Block), Just(Which::Sst), Just(Which::Multi)],
                    tables::program(universe, 12),
                    prop::collection::vec(any::<u16>(), 0..5),
                    prop::collection::vec((any::<u16>(), lts), 0..5),
                )
            })
            .prop_map(|(table, opts, extra, which, prog, seeks, loads)| SizeCase { table, opts, extra, which, prog, seeks, loads })
            .boxed()
    }
    fn run(&self, ctx: &Ctx, c: &SizeCase) -> Outcome {
        let mut o = Outcome::pass();
        o.label(format!("builder:{:?}", c.which));
        let dir = ctx.fresh_dir("c10-sizes");
        let res = run_sizes(c, &dir, &mut o);
        let _ = std::fs::remove_dir_all(&dir);
        if let Err((sig, msg)) = res {
            o.fail(sig, msg);
        }
        o
    }
}

enum AnyBuilder {
    Block(sst::block::BlockBuilder),
    Sst(sst::SstBuilder),
    Multi(sst::SstMultiBuilder),
}

impl AnyBuilder {
    fn offer(&mut self, e: &Entry) -> Result<(), handled::SError> {
        match (self, e.2.as_deref()) {
            (AnyBuilder::Block(b), Some(v)) => b.put(&e.0, e.1, v),
            (AnyBuilder::Block(b), None) => b.del(&e.0, e.1),
            (AnyBuilder::Sst(b), Some(v)) => b.put(&e.0, e.1, v),
            (AnyBuilder::Sst(b), None) => b.del(&e.0, e.1),
            (AnyBuilder::Multi(b), Some(v)) => b.put(&e.0, e.1, v),
            (AnyBuilder::Multi(b), None) => b.del(&e.0, e.1),
        }
    }
    fn size(&self) -> usize {
        match self {
            AnyBuilder::Block(b) => b.approximate_size(),
            AnyBuilder::Sst(b) => b.approximate_size(),
            AnyBuilder::Multi(b) => b.approximate_size(),
        }
    }
}

fn run_sizes(c: &SizeCase, dir: &std::path::Path, o: &mut Outcome) -> Verdict {
    let universe = gens::universe(c.table.family, 30);
    let mut all: Vec<Entry> = c.table.entries.clone();
    let mut long_keys: Vec<Vec<u8>> = vec![];
    let mut tag = 1_000u32;
    for x in c.extra.iter() {
        let mut key = universe[gens::sel(x.prefix, universe.len())].clone();
        let klen = match x.klen {
            KeyLen::Short => key.len() + 3,
            KeyLen::MaxMinus1 => sst::MAX_KEY_LEN - 1,
            KeyLen::Max => sst::MAX_KEY_LEN,
            KeyLen::MaxPlus1 => sst::MAX_KEY_LEN + 1,
        };
        key.resize(klen, x.fill);
        // at most one thing is wrong with an entry, so that the documented code is unambiguous
        let vlen = if x.klen == KeyLen::MaxPlus1 && x.vlen == ValLen::MaxPlus1 { ValLen::Max } else { x.vlen };
        tag += 1;
        let value = match vlen {
            ValLen::Tombstone => None,
            ValLen::Small => Some(tables::value_n(tag, 9)),
            ValLen::MaxMinus1 => Some(tables::value_n(tag, sst::MAX_VALUE_LEN - 1)),
            ValLen::Max => Some(tables::value_n(tag, sst::MAX_VALUE_LEN)),
            ValLen::MaxPlus1 => Some(tables::value_n(tag, sst::MAX_VALUE_LEN + 1)),
        };
        if all.iter().any(|e| e.0 == key && e.1 == x.ts) {
            continue;
        }
        long_keys.push(key.clone());
        all.push((key, x.ts, value));
    }
    sort_entries(&mut all);
    long_keys.sort();
    long_keys.dedup();
    let opts = &c.opts;
    let mut b = match c.which {
        Which::Block => AnyBuilder::Block(sst::block::BlockBuilder::new(sst::block::BlockBuilderOptions::default().bytes_restart_interval(opts.bytes_ri).key_value_pairs_restart_interval(opts.pairs_ri))),
        Which::Sst => AnyBuilder::Sst(sst::SstBuilder::new(tables::sst_options(opts), dir.join("one.sst")).map_err(|e| ("size:open-error".to_string(), format!("{e:?}")))?),
        Which::Multi => AnyBuilder::Multi(sst::SstMultiBuilder::new(dir.to_path_buf(), ".sst".to_string(), tables::sst_options(opts).target_file_size(4096).minimum_file_size(4096))),
    };
    let too_big = |e: &Entry| -> Option<&'static str> {
        if e.0.len() > sst::MAX_KEY_LEN {
            Some(sst::CODE_KEY_TOO_LARGE)
        } else if e.2.as_ref().map(|v| v.len()).unwrap_or(0) > sst::MAX_VALUE_LEN {
            Some(sst::CODE_VALUE_TOO_LARGE)
        } else {
            None
        }
    };
    let mut accepted: Vec<Entry> = vec![];
    for (i, e) in all.iter().enumerate() {
        let vl = e.2.as_ref().map(|v| v.len()).unwrap_or(0);
        let want = too_big(e);
        let via = if e.2.is_some() { "put" } else { "del" };
        if e.0.len() == sst::MAX_KEY_LEN {
            o.label(format!("key-of-exactly-MAX_KEY_LEN:via-{via}"));
        }
        if vl == sst::MAX_VALUE_LEN {
            o.label("value-of-exactly-MAX_VALUE_LEN");
        }
        let before = b.size();
        // The multi builder may open or roll a file before it looks at the entry: the size
        // comparison is made only where the offer goes to a file that is open and not full.
        let multi_opens_file = matches!(c.which, Which::Multi) && (before == 0 || before >= 4096);
        let res = b.offer(e);
        match (want, res) {
            (None, Ok(())) => accepted.push(e.clone()),
            (None, Err(err)) => return self::err("size:valid-refused", format!("entry #{i} (key {} bytes, value {vl} bytes, {via}) is within the documented maxima but was refused: {err:?}", e.0.len())),
            (Some(code), Ok(())) => return self::err(format!("size:accepted:{code}"), format!("entry #{i} (key {} bytes, value {vl} bytes, {via}) exceeds a documented maximum but was accepted", e.0.len())),
            (Some(code), Err(err)) => {
                o.label(format!("rejected:{code}:via-{via}"));
                // the property asks for an error; which code, and whether the builder's approximate
                // size moved, are observations
                if sst::error_code(&err) != Some(code) {
                    o.label(format!("error-code-other-than-{code}:{:?}", sst::error_code(&err)));
                }
                if !multi_opens_file && b.size() != before {
                    o.label("approximate-size-changed-by-a-refused-offer");
                }
            }
        }
    }
    o.nontrivial = accepted.iter().any(|e| e.0.len() == sst::MAX_KEY_LEN || e.2.as_ref().map(|v| v.len()).unwrap_or(0) == sst::MAX_VALUE_LEN) && accepted.len() >= 2;
    // the program: the generated one over the universe, then every selected long key is sought and
    // stepped around
    let mut prog = c.prog.clone();
    if !long_keys.is_empty() {
        for s in c.seeks.iter() {
            prog.push(CursorOp::Seek(long_keys[gens::sel(*s, long_keys.len())].clone()));
            prog.extend([CursorOp::Prev, CursorOp::Next, CursorOp::Next, CursorOp::Prev]);
        }
    }
    let targets = lookup_targets(&c.table);
    match b {
        AnyBuilder::Block(b) => {
            let blk = b.seal().map_err(|e| ("size:seal-error".to_string(), format!("{e:?}")))?;
            tables::compare_program("size", &mut blk.cursor(), &mut RefCursor::new(accepted.clone()), &prog)?;
            match walk_forward(&mut blk.cursor()) {
                Ok(got) if got == accepted => {}
                Ok(got) => return err("size:forward-walk", format!("forward enumeration returned {} entries, expected {}", got.len(), accepted.len())),
                Err(e) => return err("size:forward-walk-error", e),
            }
            match walk_backward(&mut blk.cursor()) {
                Ok(got) if got == accepted => {}
                Ok(got) => return err("size:backward-walk", format!("backward enumeration returned {} entries, expected {}", got.len(), accepted.len())),
                Err(e) => return err("size:backward-walk-error", e),
            }
            let gen_loads = c.loads.iter().map(|(ks, ts)| (targets[gens::sel(*ks, targets.len())].clone(), *ts));
            let long_loads = long_keys.iter().flat_map(|k| [u64::MAX, 3, 0].into_iter().map(move |ts| (k.clone(), ts)));
            for (k, ts) in gen_loads.chain(long_loads) {
                let mut tomb = crate::tables::stale_flag_for(&k, ts);
                let v = blk.load(&k, ts, &mut tomb).map_err(|e| ("size:load-error".to_string(), format!("{e:?}")))?;
                let (mv, mt) = model_load(&accepted, &k, ts);
                if v != mv || tomb != mt {
                    return err("size:load", format!("load({}, {ts}) on the block disagrees with the accepted entries", gens::show(&k)));
                }
            }
        }
        AnyBuilder::Sst(b) => {
            let table = b.seal().map_err(|e| ("size:seal-error".to_string(), format!("{e:?}")))?;
            check_sealed_sst("size", &table, &dir.join("one.sst"), &accepted, &prog, &c.loads, &targets, &long_keys)?;
        }
        AnyBuilder::Multi(b) => {
            let paths = b.seal().map_err(|e| ("size:seal-error".to_string(), format!("{e:?}")))?;
            let counts = verify_multi_output("size", &paths, &accepted, &prog, &c.loads, &targets, &long_keys)?;
            if counts.len() >= 2 {
                o.label("multi:several-files");
            }
        }
    }
    Ok(())
}

/////////////////////////////////////////// boundary counts ////////////////////////////////////////

/// Structural counts at which the encoding of a block changes width: the restart table of a block
/// is a length-prefixed run of 4-byte offsets, so its varint length prefix grows from one to two
/// bytes at 32 restarts and from two to three at 4096.  The same holds for the index block of a
/// table, whose entries are the data blocks.  Each case sweeps the number of entries through a
/// window around one of these counts, so that every restart count from R-1 to R+1 is built.
#[derive(Clone, Copy, Debug, PartialEq, Eq, Serialize, Deserialize)]
pub enum CountKind {
    /// a stand-alone block with about R restarts
    Block,
    /// a table whose single data block has about R restarts
    SstOneBlock,
    /// a table of about R * pairs_ri one-entry data blocks: its index block has about R restarts
    SstManyBlocks,
}

#[derive(Clone, Debug, Serialize, Deserialize)]
pub struct CountCase {
    pub kind: CountKind,
    pub pairs_ri: u32,
    /// 32 or 4096
    pub threshold: u32,
    /// versions per key (1 or 2)
    pub versions: u8,
    /// every `tomb_every`-th entry is a tombstone (0: none)
    pub tomb_every: u8,
    pub value_len: u8,
}

pub struct BoundaryCounts;

fn count_entries(n: usize, c: &CountCase, one_per_block: bool) -> Vec<Entry> {
    let mut out = Vec::with_capacity(n);
    let versions = c.versions.max(1) as usize;
    let mut i = 0usize;
    while out.len() < n {
        let key = format!("c{:07}", i).into_bytes();
        for v in 0..versions {
            if out.len() == n {
                break;
            }
            let ts = (versions - v) as u64 * 10;
            let idx = out.len();
            // one_per_block: every value is larger than the smallest block size the options allow
            // (4096), so every entry closes its block and the index block gets one entry per entry
            let value = if one_per_block {
                Some(tables::value_n(idx as u32, 4100))
            } else if c.tomb_every > 0 && idx % c.tomb_every as usize == c.tomb_every as usize - 1 {
                None
            } else {
                Some(tables::value_n(idx as u32, c.value_len as usize))
            };
            out.push((key.clone(), ts, value));
        }
        i += 1;
    }
    out
}

fn restarts_of(bytes: &[u8]) -> u32 {
    if bytes.len() < 4 {
        return 0;
    }
    u32::from_le_bytes(bytes[bytes.len() - 4..].try_into().unwrap())
}

fn light_checks<C: sst::Cursor>(what: &str, n: usize, mk: &mut dyn FnMut() -> C, entries: &[Entry]) -> Verdict {
    let sig = |s: &str| format!("count:{what}:{s}");
    match walk_forward(&mut mk()) {
        Ok(got) if got == entries => {}
        Ok(got) => return err(sig("forward-walk"), format!("{n} entries: forward enumeration returned {} entries", got.len())),
        Err(e) => return err(sig("forward-walk-error"), format!("{n} entries: {e}")),
    }
    match walk_backward(&mut mk()) {
        Ok(got) if got == entries => {}
        Ok(got) => return err(sig("backward-walk"), format!("{n} entries: backward enumeration returned {} entries", got.len())),
        Err(e) => return err(sig("backward-walk-error"), format!("{n} entries: {e}")),
    }
    // around both ends and the middle, with direction reversals
    let last = entries.last().unwrap().0.clone();
    let mut past = last.clone();
    past.push(0xff);
    let mid = entries[entries.len() / 2].0.clone();
    let prog = vec![
        CursorOp::Seek(past.clone()),
        CursorOp::Prev,
        CursorOp::Prev,
        CursorOp::Next,
        CursorOp::Next,
        CursorOp::Next,
        CursorOp::SeekToLast,
        CursorOp::Prev,
        CursorOp::Next,
        CursorOp::Next,
        CursorOp::Seek(last),
        CursorOp::Next,
        CursorOp::Next,
        CursorOp::Prev,
        CursorOp::Seek(mid),
        CursorOp::Prev,
        CursorOp::Next,
        CursorOp::SeekToFirst,
        CursorOp::Next,
        CursorOp::Prev,
        CursorOp::Prev,
        CursorOp::Next,
    ];
    tables::compare_program(&format!("count:{what}"), &mut mk(), &mut RefCursor::new(entries.to_vec()), &prog)
}

impl Property for BoundaryCounts {
    type Case = CountCase;
    fn name(&self) -> String {
        "boundary-counts".into()
    }
    fn cases(&self, tier: Tier) -> u64 {
        tier.pick(3, 40)
    }
    fn max_shrink_iters(&self) -> u32 {
        12
    }
    fn strategy(&self, _: &Ctx) -> BoxedStrategy<CountCase> {
        (
            prop_oneof![3 => Just(CountKind::Block), 2 => Just(CountKind::SstOneBlock), 2 => Just(CountKind::SstManyBlocks)],
            prop_oneof![4 => Just(1u32), 2 => Just(2u32), 1 => Just(3u32)],
            prop_oneof![1 => Just(32u32), 3 => Just(4096u32)],
            1u8..3,
            prop_oneof![Just(0u8), Just(3u8), Just(7u8)],
            prop_oneof![Just(0u8), Just(1u8), Just(5u8)],
        )
            .prop_map(|(kind, pairs_ri, threshold, versions, tomb_every, value_len)| CountCase { kind, pairs_ri, threshold, versions, tomb_every, value_len })
            .boxed()
    }
    fn run(&self, ctx: &Ctx, c: &CountCase) -> Outcome {
        let mut o = Outcome::pass();
        o.label(format!("kind:{:?}", c.kind));
        o.label(format!("threshold:{}", c.threshold));
        let dir = ctx.fresh_dir("c10-counts");
        let res = run_counts(c, &dir, &mut o);
        let _ = std::fs::remove_dir_all(&dir);
        if let Err((sig, msg)) = res {
            o.fail(sig, msg);
        }
        o
    }
}

fn run_counts(c: &CountCase, dir: &std::path::Path, o: &mut Outcome) -> Verdict {
    let p = c.pairs_ri.max(1) as usize;
    let r = c.threshold.max(2) as usize;
    let lo = (p * (r - 1)).saturating_sub(1).max(1);
    let hi = p * (r + 1) + 1;
    let mut seen = std::collections::BTreeSet::new();
    for n in lo..=hi {
        let entries = count_entries(n, c, c.kind == CountKind::SstManyBlocks);
        match c.kind {
            CountKind::Block => {
                // the bytes interval is out of the way: only the pair count starts a restart
                let blk = tables::build_block(&entries, u32::MAX, c.pairs_ri).map_err(|e| ("count:block:build-error".to_string(), format!("{n} entries: {e:?}")))?;
                seen.insert(restarts_of(blk.as_bytes()));
                light_checks("block", n, &mut || blk.cursor(), &entries)?;
                for k in [&entries[0], &entries[n / 2], &entries[n - 1]] {
                    let mut tomb = crate::tables::stale_flag_for(&k.0, n as u64);
                    let v = blk.load(&k.0, u64::MAX, &mut tomb).map_err(|e| ("count:block:load-error".to_string(), format!("{n} entries: load({}) failed: {e:?}", gens::show(&k.0))))?;
                    let (mv, mt) = model_load(&entries, &k.0, u64::MAX);
                    if v != mv || tomb != mt {
                        return err("count:block:load", format!("{n} entries: load({}) disagrees with the entries", gens::show(&k.0)));
                    }
                }
            }
            CountKind::SstOneBlock | CountKind::SstManyBlocks => {
                let many = c.kind == CountKind::SstManyBlocks;
                let opts = BuildOpts { bytes_ri: u32::MAX, pairs_ri: c.pairs_ri, block_size: if many { 1 } else { u32::MAX } };
                let path = dir.join(format!("{n}.sst"));
                let table = tables::build_sst(&path, &entries, &opts).map_err(|e| ("count:sst:build-error".to_string(), format!("{n} entries: {e:?}")))?;
                let what = if many { "sst-many-blocks" } else { "sst-one-block" };
                light_checks(what, n, &mut || table.cursor(), &entries)?;
                let md = table.metadata().map_err(|e| (format!("count:{what}:metadata-error"), format!("{n} entries: metadata() failed: {e:?}")))?;
                if md.first_key != entries[0].0 || md.last_key != entries[n - 1].0 {
                    return err(format!("count:{what}:metadata"), format!("{n} entries: metadata first/last key differ from the entries"));
                }
                for k in [&entries[0], &entries[n / 3], &entries[n / 2], &entries[n - 1]] {
                    let mut tomb = crate::tables::stale_flag_for(&k.0, n as u64);
                    let v = table.load(&k.0, u64::MAX, &mut tomb).map_err(|e| (format!("count:{what}:load-error"), format!("{n} entries: load({}) failed: {e:?}", gens::show(&k.0))))?;
                    let (mv, mt) = model_load(&entries, &k.0, u64::MAX);
                    if v != mv || tomb != mt {
                        return err(format!("count:{what}:load"), format!("{n} entries: load({}) disagrees with the entries", gens::show(&k.0)));
                    }
                }
                // a fresh handle on the file sees the same
                drop(table);
                let again = sst::Sst::<sst::file_manager::FileHandle>::new(sst::SstOptions::default(), &path).map_err(|e| (format!("count:{what}:reopen-error"), format!("{n} entries: {e:?}")))?;
                match walk_forward(&mut again.cursor()) {
                    Ok(got) if got == entries => {}
                    Ok(got) => return err(format!("count:{what}:reopen-forward-walk"), format!("{n} entries: a fresh handle enumerates {} entries", got.len())),
                    Err(e) => return err(format!("count:{what}:reopen-forward-walk-error"), format!("{n} entries: {e}")),
                }
                let _ = std::fs::remove_file(&path);
            }
        }
    }
    if c.kind == CountKind::Block {
        let r32 = c.threshold;
        if seen.contains(&r32) && seen.contains(&(r32 - 1)) && seen.contains(&(r32 + 1)) {
            o.label("restart-count-swept-through-threshold");
            o.nontrivial = true;
        } else {
            o.label(format!("restart-counts-seen:{:?}..{:?}", seen.iter().next(), seen.iter().last()));
        }
    } else {
        o.nontrivial = true;
    }
    Ok(())
}
