//! C11 — merging, concatenating, pruning, bounds and lazy cursors equal their definitions.

use std::ops::Bound;

use proptest::prelude::*;
use serde::{Deserialize, Serialize};

use sst::bounds_cursor::BoundsCursor;
use sst::concat_cursor::ConcatenatingCursor;
use sst::lazy_cursor::LazyCursor;
use sst::merging_cursor::MergingCursor;
use sst::pruning_cursor::PruningCursor;
use sst::Cursor;
use vcore::gens;
use vcore::refcursor::{prune, CursorOp, Entry, RefCursor};
use vcore::{Check, Ctx, Outcome, Property, Tier};

use crate::tables::{self, BuildOpts, Table};

#[derive(Clone, Debug, PartialEq, Eq, Serialize, Deserialize)]
pub enum B {
    Unbounded,
    Included(Vec<u8>),
    Excluded(Vec<u8>),
}

impl B {
    pub fn to_bound(&self) -> Bound<Vec<u8>> {
        match self {
            B::Unbounded => Bound::Unbounded,
            B::Included(k) => Bound::Included(k.clone()),
            B::Excluded(k) => Bound::Excluded(k.clone()),
        }
    }
    pub fn admits_from_below(&self, k: &[u8]) -> bool {
        match self {
            B::Unbounded => true,
            B::Included(b) => k >= b.as_slice(),
            B::Excluded(b) => k > b.as_slice(),
        }
    }
    pub fn admits_from_above(&self, k: &[u8]) -> bool {
        match self {
            B::Unbounded => true,
            B::Included(b) => k <= b.as_slice(),
            B::Excluded(b) => k < b.as_slice(),
        }
    }
}

pub fn bound(universe: Vec<Vec<u8>>) -> impl Strategy<Value = B> {
    let mut targets: Vec<Vec<u8>> = vec![];
    for k in universe.iter() {
        targets.extend(gens::neighbours(k));
    }
    targets.sort();
    targets.dedup();
    let t2 = targets.clone();
    prop_oneof![
        3 => Just(B::Unbounded),
        3 => any::<u16>().prop_map(move |s| B::Included(targets[gens::sel(s, targets.len())].clone())),
        3 => any::<u16>().prop_map(move |s| B::Excluded(t2[gens::sel(s, t2.len())].clone())),
    ]
}

pub fn restrict(entries: &[Entry], lo: &B, hi: &B) -> Vec<Entry> {
    entries.iter().filter(|e| lo.admits_from_below(&e.0) && hi.admits_from_above(&e.0)).cloned().collect()
}

#[derive(Clone, Debug, Serialize, Deserialize)]
pub enum Combinator {
    /// entries are dealt to children by `assign`
    Merging { children: usize, assign: Vec<u16> },
    /// entries are cut into adjacent children at `cuts` (selectors into 0..=len)
    Concat { cuts: Vec<u16> },
    Pruning { ts: u64 },
    Bounds { lo: B, hi: B },
    /// Bounds(Pruning(Merging(children))) with one child a Concat of lazily opened ssts: the shape
    /// the store's scans have.
    Stack { children: usize, assign: Vec<u16>, cuts: Vec<u16>, ts: u64, lo: B, hi: B },
    Lazy,
    /// `Block::range_scan` / `Sst::range_scan`: the table's own Bounds(Pruning(cursor)) stack
    RangeScan { ts: u64, lo: B, hi: B, sst: bool },
}

#[derive(Clone, Debug, Serialize, Deserialize)]
pub struct CombCase {
    pub table: Table,
    pub opts: BuildOpts,
    pub comb: Combinator,
    pub prog: Vec<CursorOp>,
}

fn ts_strategy() -> impl Strategy<Value = u64> {
    prop_oneof![3 => 0u64..45, 2 => Just(u64::MAX), 1 => Just(u64::MAX - 1), 1 => Just(0u64), 1 => any::<u64>()]
}

fn comb_strategy(kind: &'static str) -> BoxedStrategy<CombCase> {
    let (keys, vers, big) = match kind {
        "lazy" | "stack" => (14, 4, false),
        "range-scan" => (16, 4, true),
        _ => (10, 5, false),
    };
    tables::table(keys, vers, big)
        .prop_flat_map(move |t| {
            let universe = gens::universe(t.family, 30);
            let n = t.entries.len();
            let comb: BoxedStrategy<Combinator> = match kind {
                "merging" => (0usize..6, prop::collection::vec(any::<u16>(), n)).prop_map(|(children, assign)| Combinator::Merging { children, assign }).boxed(),
                "concat" => prop::collection::vec(any::<u16>(), 0..5).prop_map(|cuts| Combinator::Concat { cuts }).boxed(),
                "pruning" => ts_strategy().prop_map(|ts| Combinator::Pruning { ts }).boxed(),
                "bounds" => (bound(universe.clone()), bound(universe.clone())).prop_map(|(lo, hi)| Combinator::Bounds { lo, hi }).boxed(),
                "lazy" => Just(Combinator::Lazy).boxed(),
                "range-scan" => (ts_strategy(), bound(universe.clone()), bound(universe.clone()), any::<bool>()).prop_map(|(ts, lo, hi, sst)| Combinator::RangeScan { ts, lo, hi, sst }).boxed(),
                _ => (1usize..5, prop::collection::vec(any::<u16>(), n), prop::collection::vec(any::<u16>(), 0..4), ts_strategy(), bound(universe.clone()), bound(universe.clone()))
                    .prop_map(|(children, assign, cuts, ts, lo, hi)| Combinator::Stack { children, assign, cuts, ts, lo, hi })
                    .boxed(),
            };
            (Just(t), tables::build_opts(), comb, tables::program_maybe_fresh(universe, 40))
        })
        .prop_map(|(table, opts, comb, prog)| CombCase { table, opts, comb, prog })
        .boxed()
}

fn deal(entries: &[Entry], children: usize, assign: &[u16]) -> Vec<Vec<Entry>> {
    let mut out = vec![vec![]; children];
    if children == 0 {
        return out;
    }
    for (i, e) in entries.iter().enumerate() {
        let c = gens::sel(assign.get(i).copied().unwrap_or(0), children);
        out[c].push(e.clone());
    }
    out
}

fn cut(entries: &[Entry], cuts: &[u16]) -> Vec<Vec<Entry>> {
    let mut pos: Vec<usize> = cuts.iter().map(|c| gens::sel(*c, entries.len() + 1)).collect();
    pos.sort();
    let mut out = vec![];
    let mut prev = 0;
    for p in pos {
        out.push(entries[prev..p].to_vec());
        prev = p;
    }
    out.push(entries[prev..].to_vec());
    out
}

fn blocks(children: &[Vec<Entry>], o: &BuildOpts) -> Result<Vec<sst::block::BlockCursor>, String> {
    children
        .iter()
        .map(|c| tables::build_block(c, o.bytes_ri, o.pairs_ri).map(|b| b.cursor()).map_err(|e| format!("{e:?}")))
        .collect()
}

/// Run the program against a freshly constructed cursor.  The position a constructor leaves is not
/// documented by the Cursor trait, so calls made before the first absolute positioning call
/// (seek_to_first / seek_to_last / seek) are executed - they must not panic - but not judged; the
/// comparison with the reference starts at the first absolute positioning call.
fn run_program<C: Cursor>(what: &str, c: &mut C, reference: &mut RefCursor, prog: &[CursorOp]) -> Result<(), (String, String)> {
    let start = prog.iter().position(|op| !matches!(op, CursorOp::Next | CursorOp::Prev)).unwrap_or(prog.len());
    for op in prog[..start].iter() {
        let _ = tables::apply(c, op);
        let _ = tables::current(c);
    }
    tables::compare_program(what, c, reference, &prog[start..])
}

pub struct Combinators(pub &'static str);

impl Property for Combinators {
    type Case = CombCase;
    fn name(&self) -> String {
        format!("{}-cursor", self.0)
    }
    fn cases(&self, tier: Tier) -> u64 {
        match self.0 {
            "lazy" | "stack" => tier.pick(8_000, 120_000),
            "range-scan" => tier.pick(6_000, 100_000),
            _ => tier.pick(18_000, 300_000),
        }
    }
    fn strategy(&self, _: &Ctx) -> BoxedStrategy<CombCase> {
        comb_strategy(self.0)
    }
    fn run(&self, ctx: &Ctx, c: &CombCase) -> Outcome {
        let mut o = Outcome::pass();
        let entries = &c.table.entries;
        let has_tomb = entries.iter().any(|e| e.2.is_none());
        // only the judged part of the program (from the first absolute positioning call on) counts
        let judged_from = c.prog.iter().position(|op| !matches!(op, CursorOp::Next | CursorOp::Prev)).unwrap_or(c.prog.len());
        let reversal = tables::has_reversal(&c.prog[judged_from..]);
        if has_tomb {
            o.label("has-tombstone");
        }
        if reversal {
            o.label("direction-reversal");
        }
        if matches!(c.prog.first(), Some(CursorOp::Next) | Some(CursorOp::Prev)) {
            o.label("fresh-cursor-stepped-before-any-seek");
        }
        let fail = |o: &mut Outcome, r: Result<(), (String, String)>| {
            if let Err((s, m)) = r {
                o.fail(s, m);
            }
        };
        match &c.comb {
            Combinator::Merging { children, assign } => {
                let kids = deal(entries, *children, assign);
                // with no children there is nothing to merge: the union is empty
                let nothing: Vec<Entry> = vec![];
                let entries = if *children == 0 { &nothing } else { entries };
                let nonempty = kids.iter().filter(|k| !k.is_empty()).count();
                o.nontrivial = nonempty >= 2 && has_tomb && reversal;
                if kids.iter().any(|k| k.is_empty()) {
                    o.label("empty-child");
                }
                if *children == 0 {
                    o.label("no-children");
                }
                let shared = kids.iter().enumerate().any(|(i, a)| kids.iter().skip(i + 1).any(|b| a.iter().any(|x| b.iter().any(|y| x.0 == y.0))));
                if shared {
                    o.label("key-shared-across-children");
                }
                let cursors = match blocks(&kids, &c.opts) {
                    Ok(c) => c,
                    Err(e) => {
                        o.fail("merging:child-build-error", e);
                        return o;
                    }
                };
                match MergingCursor::new(cursors) {
                    Ok(mut m) => {
                        let mut r = RefCursor::new(entries.clone());
                        let res = run_program("merging", &mut m, &mut r, &c.prog);
                        fail(&mut o, res);
                    }
                    Err(e) => o.fail("merging:new-error", format!("{e:?}")),
                }
            }
            Combinator::Concat { cuts } => {
                let kids = cut(entries, cuts);
                let nonempty = kids.iter().filter(|k| !k.is_empty()).count();
                o.nontrivial = nonempty >= 2 && has_tomb && reversal;
                if kids.iter().any(|k| k.is_empty()) {
                    o.label("empty-child");
                }
                if kids.windows(2).any(|w| match (w[0].last(), w[1].first()) { (Some(a), Some(b)) => a.0 == b.0, _ => false }) {
                    o.label("key-split-across-children");
                }
                let cursors = match blocks(&kids, &c.opts) {
                    Ok(c) => c,
                    Err(e) => {
                        o.fail("concat:child-build-error", e);
                        return o;
                    }
                };
                match ConcatenatingCursor::new(cursors) {
                    Ok(mut m) => {
                        let mut r = RefCursor::new(entries.clone());
                        let res = run_program("concat", &mut m, &mut r, &c.prog);
                        fail(&mut o, res);
                    }
                    Err(e) => o.fail("concat:new-error", format!("{e:?}")),
                }
            }
            Combinator::Pruning { ts } => {
                let want = prune(entries, *ts);
                o.nontrivial = want.len() >= 2 && has_tomb && reversal && want.len() < entries.len();
                if entries.iter().any(|e| e.1 > *ts) {
                    o.label("has-entry-newer-than-read-timestamp");
                }
                let block = match tables::build_block(entries, c.opts.bytes_ri, c.opts.pairs_ri) {
                    Ok(b) => b,
                    Err(e) => {
                        o.fail("pruning:child-build-error", format!("{e:?}"));
                        return o;
                    }
                };
                match PruningCursor::new(block.cursor(), *ts) {
                    Ok(mut p) => {
                        let mut r = RefCursor::new(want);
                        let res = run_program("pruning", &mut p, &mut r, &c.prog);
                        fail(&mut o, res);
                    }
                    Err(e) => o.fail("pruning:new-error", format!("{e:?}")),
                }
            }
            Combinator::Bounds { lo, hi } => {
                let want = restrict(entries, lo, hi);
                o.nontrivial = !want.is_empty() && want.len() < entries.len() && reversal;
                if want.is_empty() {
                    o.label("empty-interval");
                }
                let block = match tables::build_block(entries, c.opts.bytes_ri, c.opts.pairs_ri) {
                    Ok(b) => b,
                    Err(e) => {
                        o.fail("bounds:child-build-error", format!("{e:?}"));
                        return o;
                    }
                };
                match BoundsCursor::new(block.cursor(), &lo.to_bound(), &hi.to_bound()) {
                    Ok(mut p) => {
                        let mut r = RefCursor::new(want);
                        let res = run_program("bounds", &mut p, &mut r, &c.prog);
                        fail(&mut o, res);
                    }
                    Err(e) => o.fail("bounds:new-error", format!("{e:?}")),
                }
            }
            Combinator::Lazy => {
                o.nontrivial = entries.len() >= 3 && reversal;
                let path = ctx.scratch.join("c11-lazy.sst");
                let table = match tables::build_sst(&path, entries, &c.opts) {
                    Ok(t) => t,
                    Err(e) => {
                        let _ = std::fs::remove_file(&path);
                        o.fail("lazy:child-build-error", format!("{e:?}"));
                        return o;
                    }
                };
                let opens = std::cell::Cell::new(0u32);
                {
                    let mut lazy = LazyCursor::new(|| {
                        opens.set(opens.get() + 1);
                        Ok(table.cursor())
                    });
                    let mut r = RefCursor::new(entries.clone());
                    let res = run_program("lazy", &mut lazy, &mut r, &c.prog);
                    fail(&mut o, res);
                }
                if opens.get() > 1 {
                    o.label("re-instantiated");
                }
                let _ = std::fs::remove_file(&path);
            }
            Combinator::RangeScan { ts, lo, hi, sst } => {
                let want = restrict(&prune(entries, *ts), lo, hi);
                o.nontrivial = !want.is_empty() && want.len() < entries.len() && has_tomb && reversal;
                o.label(if *sst { "sst-range-scan" } else { "block-range-scan" });
                if want.is_empty() {
                    o.label("empty-result");
                }
                if *sst {
                    let path = ctx.scratch.join("c11-range-scan.sst");
                    match tables::build_sst(&path, entries, &c.opts) {
                        Ok(t) => match t.range_scan(&lo.to_bound(), &hi.to_bound(), *ts) {
                            Ok(mut p) => {
                                let mut r = RefCursor::new(want);
                                let res = run_program("range-scan", &mut p, &mut r, &c.prog);
                                fail(&mut o, res);
                            }
                            Err(e) => o.fail("range-scan:new-error", format!("{e:?}")),
                        },
                        Err(e) => o.fail("range-scan:build-error", format!("{e:?}")),
                    }
                    let _ = std::fs::remove_file(&path);
                } else {
                    match tables::build_block(entries, c.opts.bytes_ri, c.opts.pairs_ri) {
                        Ok(b) => match b.range_scan(&lo.to_bound(), &hi.to_bound(), *ts) {
                            Ok(mut p) => {
                                let mut r = RefCursor::new(want);
                                let res = run_program("range-scan", &mut p, &mut r, &c.prog);
                                fail(&mut o, res);
                            }
                            Err(e) => o.fail("range-scan:new-error", format!("{e:?}")),
                        },
                        Err(e) => o.fail("range-scan:build-error", format!("{e:?}")),
                    }
                }
            }
            Combinator::Stack { children, assign, cuts, ts, lo, hi } => {
                // child 0 is a concatenation of lazily opened ssts; the others are blocks.
                let kids = deal(entries, *children, assign);
                let want = restrict(&prune(entries, *ts), lo, hi);
                o.nontrivial = kids.iter().filter(|k| !k.is_empty()).count() >= 2 && has_tomb && reversal && !want.is_empty();
                let files = cut(&kids[0], cuts);
                let files: Vec<Vec<Entry>> = files.into_iter().filter(|f| !f.is_empty()).collect();
                let mut tables_ = vec![];
                let mut paths = vec![];
                for (i, f) in files.iter().enumerate() {
                    let path = ctx.scratch.join(format!("c11-stack-{i}.sst"));
                    match tables::build_sst(&path, f, &c.opts) {
                        Ok(t) => tables_.push(t),
                        Err(e) => {
                            o.fail("stack:child-build-error", format!("{e:?}"));
                        }
                    }
                    paths.push(path);
                }
                if !o.failed() {
                    let mut cursors: Vec<Box<dyn Cursor>> = vec![];
                    if !tables_.is_empty() {
                        let lazies: Vec<_> = tables_.iter().map(|t| { let t = t.clone(); LazyCursor::new(move || Ok(t.cursor())) }).collect();
                        match ConcatenatingCursor::new(lazies) {
                            Ok(c) => cursors.push(Box::new(c)),
                            Err(e) => o.fail("stack:concat-new-error", format!("{e:?}")),
                        }
                    }
                    for k in kids.iter().skip(1) {
                        if k.is_empty() {
                            continue;
                        }
                        match tables::build_block(k, c.opts.bytes_ri, c.opts.pairs_ri) {
                            Ok(b) => cursors.push(Box::new(b.cursor())),
                            Err(e) => o.fail("stack:child-build-error", format!("{e:?}")),
                        }
                    }
                    if !o.failed() {
                        let built = MergingCursor::new(cursors).and_then(|m| PruningCursor::new(m, *ts)).and_then(|p| BoundsCursor::new(p, &lo.to_bound(), &hi.to_bound()));
                        match built {
                            Ok(mut s) => {
                                let mut r = RefCursor::new(want);
                                let res = run_program("stack", &mut s, &mut r, &c.prog);
                                fail(&mut o, res);
                            }
                            Err(e) => o.fail("stack:new-error", format!("{e:?}")),
                        }
                    }
                }
                drop(tables_);
                for p in paths {
                    let _ = std::fs::remove_file(p);
                }
            }
        }
        o
    }
}

pub fn check() -> Check {
    Check::new(
        "C11",
        "exploration",
        "proptest-generated multi-version tables dealt into 0..5 children (merging: arbitrary assignment, so children share keys at different timestamps, are empty or tombstone-only; concatenation: cut at generated positions, so one key's versions are split across adjacent children), bounds from {Unbounded, Included, Excluded} over universe keys and their byte neighbours (empty and inverted intervals occur), read timestamps incl. 0 and u64::MAX, a lazily instantiated real SstCursor, and the Bounds(Pruning(Merging(Concat(Lazy…), Block…))) stack the store builds; and Block::range_scan / Sst::range_scan (the table's own bounds-over-pruning cursor; tables with values up to 2500 bytes, so ssts of several blocks) compared with the reference restricted to the interval and pruned at the read timestamp; each driven by a program of <= 40 cursor calls with forced next/prev reversals and compared call by call with a vector reference built from the definition. In a third of the cases the program starts with next / prev calls on the freshly constructed cursor: they are executed (no panic) but not judged, the comparison starts at the first absolute positioning call. Non-trivial: >= 2 non-empty children, >= 1 tombstone and >= 1 direction reversal (pruning/bounds: output non-empty and strictly smaller than the input); distinct by structural hash.",
    )
    .assume("reference cursor semantics are those documented on sst::Cursor (sentinels before the first and after the last entry; stepping off an end stays there)")
    .assume("MergingCursor children never share a (key, timestamp) pair; ConcatenatingCursor children are ordered and overlap at most in one boundary key whose newer versions come first")
    .assume("the position of a freshly constructed cursor is not documented: calls made before the first seek_to_first / seek_to_last / seek are executed but not compared with the reference")
    .pbt(Combinators("merging"))
    .pbt(Combinators("concat"))
    .pbt(Combinators("pruning"))
    .pbt(Combinators("bounds"))
    .pbt(Combinators("lazy"))
    .pbt(Combinators("stack"))
    .pbt(Combinators("range-scan"))
}
