fn main() {
    vcore::main_with(vec![vsst::c10::check(), vsst::c11::check()], &[]);
}
