mod c10;
mod c11;
mod tables;

fn main() {
    vcore::main_with(vec![c10::check(), c11::check()], &[]);
}
