//! C10 — an SST or block returns exactly what was put in, under every cursor movement.

use proptest::prelude::*;
use serde::{Deserialize, Serialize};

use sst::{Builder, Cursor};
use vcore::gens;
use vcore::refcursor::{CursorOp, Entry, RefCursor};
use vcore::{Check, Ctx, Outcome, Property, Tier};

use crate::tables::{self, BuildOpts, Table};

#[derive(Clone, Debug, Serialize, Deserialize)]
pub struct RoundTripCase {
    pub table: Table,
    pub opts: BuildOpts,
    pub prog: Vec<CursorOp>,
    /// (key selector into universe ∪ neighbours, timestamp) point lookups
    pub loads: Vec<(u16, u64)>,
}

fn roundtrip_strategy(max_keys: usize, max_versions: usize, big: bool, prog_len: usize) -> BoxedStrategy<RoundTripCase> {
    tables::table(max_keys, max_versions, big)
        .prop_flat_map(move |t| {
            let universe = gens::universe(t.family, 30);
            let ts = prop_oneof![2 => 0u64..45, 1 => Just(u64::MAX), 1 => Just(u64::MAX - 1), 1 => Just(0u64), 1 => any::<u64>()];
            (Just(t), tables::build_opts(), tables::program(universe, prog_len), prop::collection::vec((any::<u16>(), ts), 0..12))
        })
        .prop_map(|(table, opts, prog, loads)| RoundTripCase { table, opts, prog, loads })
        .boxed()
}

pub(crate) fn model_load(entries: &[Entry], key: &[u8], ts: u64) -> (Option<Vec<u8>>, bool) {
    // entries sorted by key asc, timestamp desc: the first match is the newest not newer than ts
    for e in entries.iter() {
        if e.0.as_slice() == key && e.1 <= ts {
            return (e.2.clone(), e.2.is_none());
        }
    }
    (None, false)
}

pub(crate) fn lookup_targets(t: &Table) -> Vec<Vec<u8>> {
    let mut targets: Vec<Vec<u8>> = vec![];
    for k in gens::universe(t.family, 30) {
        targets.extend(gens::neighbours(&k));
    }
    targets.sort();
    targets.dedup();
    targets
}

pub(crate) fn walk_forward<C: Cursor>(c: &mut C) -> Result<Vec<Entry>, String> {
    c.seek_to_first().map_err(|e| format!("{e:?}"))?;
    let mut out = vec![];
    loop {
        c.next().map_err(|e| format!("{e:?}"))?;
        match tables::current(c) {
            Some(e) => out.push(e),
            None => return Ok(out),
        }
        if out.len() > 100_000 {
            return Err("forward walk does not terminate".into());
        }
    }
}

pub(crate) fn walk_backward<C: Cursor>(c: &mut C) -> Result<Vec<Entry>, String> {
    c.seek_to_last().map_err(|e| format!("{e:?}"))?;
    let mut out = vec![];
    loop {
        c.prev().map_err(|e| format!("{e:?}"))?;
        match tables::current(c) {
            Some(e) => out.push(e),
            None => {
                out.reverse();
                return Ok(out);
            }
        }
        if out.len() > 100_000 {
            return Err("backward walk does not terminate".into());
        }
    }
}

fn classify(o: &mut Outcome, c: &RoundTripCase) {
    let e = &c.table.entries;
    o.label(format!("family:{:?}", c.table.family));
    if e.is_empty() {
        o.label("empty-table");
    }
    if e.iter().any(|x| x.2.is_none()) {
        o.label("has-tombstone");
    }
    if e.windows(2).any(|w| w[0].0 == w[1].0) {
        o.label("multi-version-key");
    }
    if tables::has_reversal(&c.prog) {
        o.label("direction-reversal");
    }
    if c.opts.pairs_ri == 1 || c.opts.bytes_ri == 1 {
        o.label("restart-interval-1");
    }
}

/// Everything the property says about one sealed sst file holding exactly `entries`: the cursor
/// program against the reference cursor, full forward and backward walks, timestamped point
/// lookups (generated ones over `targets`, every present key at u64::MAX, and every key of
/// `absent_or_present` at a few timestamps), metadata (setsum, file size, first / last key,
/// smallest / biggest timestamp), and re-opening the file.  Signatures are prefixed with `what`.
#[allow(clippy::too_many_arguments)]
pub(crate) fn check_sealed_sst(
    what: &str,
    table: &sst::Sst,
    path: &std::path::Path,
    entries: &[Entry],
    prog: &[CursorOp],
    loads: &[(u16, u64)],
    targets: &[Vec<u8>],
    more_keys: &[Vec<u8>],
) -> Result<(), (String, String)> {
    let sig = |s: &str| format!("{what}:{s}");
    let file_len = std::fs::metadata(path).map(|m| m.len()).unwrap_or(0);
    if !prog.is_empty() {
        let mut cur = table.cursor();
        let mut reference = RefCursor::new(entries.to_vec());
        tables::compare_program(what, &mut cur, &mut reference, prog)?;
    }
    match walk_forward(&mut table.cursor()) {
        Ok(got) if got == *entries => {}
        Ok(got) => return Err((sig("forward-walk"), format!("forward enumeration returned {} entries, expected {}", got.len(), entries.len()))),
        Err(e) => return Err((sig("forward-walk-error"), e)),
    }
    match walk_backward(&mut table.cursor()) {
        Ok(got) if got == *entries => {}
        Ok(got) => return Err((sig("backward-walk"), format!("backward enumeration returned {} entries, expected {}", got.len(), entries.len()))),
        Err(e) => return Err((sig("backward-walk-error"), e)),
    }
    let load = |key: &[u8], ts: u64| -> Result<(), (String, String)> {
        let mut tomb = crate::tables::stale_flag_for(key, ts);
        let v = table.load(key, ts, &mut tomb).map_err(|e| (sig("load-error"), format!("load failed: {e:?}")))?;
        let (mv, mt) = model_load(entries, key, ts);
        if v != mv || tomb != mt {
            return Err((sig("load"), format!("load({}, {}) = ({:?} bytes, tombstone={}) but the model says ({:?} bytes, tombstone={})", gens::show(key), ts, v.map(|v| v.len()), tomb, mv.map(|v| v.len()), mt)));
        }
        Ok(())
    };
    if !targets.is_empty() {
        for (ks, ts) in loads.iter() {
            load(&targets[gens::sel(*ks, targets.len())], *ts)?;
        }
    }
    // every present key must be found at u64::MAX (no bloom false negative)
    for k in tables::keys_of(entries) {
        load(&k, u64::MAX)?;
    }
    for k in more_keys.iter() {
        for ts in [u64::MAX, 0, 20] {
            load(k, ts)?;
        }
    }
    // metadata describes exactly the contents
    let md = table.metadata().map_err(|e| (sig("metadata-error"), format!("{e:?}")))?;
    let mut setsum = sst::Setsum::default();
    for (k, t, v) in entries.iter() {
        match v {
            Some(v) => setsum.put(k, *t, v),
            None => setsum.del(k, *t),
        }
    }
    if md.setsum != setsum.digest() || table.fast_setsum() != setsum {
        return Err((sig("metadata-setsum"), "metadata setsum differs from the setsum recomputed from the entries".into()));
    }
    if md.file_size != file_len {
        return Err((sig("metadata-file-size"), format!("metadata file_size {} != file length {}", md.file_size, file_len)));
    }
    if let (Some(first), Some(last)) = (entries.first(), entries.last()) {
        if md.first_key != first.0 || md.last_key != last.0 {
            return Err((sig("metadata-keys"), format!("metadata first/last key {} / {} != {} / {}", gens::show(&md.first_key), gens::show(&md.last_key), gens::show(&first.0), gens::show(&last.0))));
        }
        let lo = entries.iter().map(|e| e.1).min().unwrap();
        let hi = entries.iter().map(|e| e.1).max().unwrap();
        if md.smallest_timestamp != lo || md.biggest_timestamp != hi {
            return Err((sig("metadata-timestamps"), format!("metadata timestamps {}..{} != {}..{}", md.smallest_timestamp, md.biggest_timestamp, lo, hi)));
        }
    }
    // re-opening the file gives the same table
    let again = sst::Sst::<sst::file_manager::FileHandle>::new(sst::SstOptions::default(), path).map_err(|e| (sig("reopen-error"), format!("{e:?}")))?;
    match walk_forward(&mut again.cursor()) {
        Ok(got) if got == *entries => {}
        _ => return Err((sig("reopen-differs"), "re-opened table enumerates differently".into())),
    }
    Ok(())
}

/////////////////////////////////////////////// block //////////////////////////////////////////////

pub struct BlockRoundTrip;

impl Property for BlockRoundTrip {
    type Case = RoundTripCase;
    fn name(&self) -> String {
        "block-roundtrip".into()
    }
    fn cases(&self, tier: Tier) -> u64 {
        tier.pick(40_000, 1_000_000)
    }
    fn strategy(&self, _: &Ctx) -> BoxedStrategy<RoundTripCase> {
        roundtrip_strategy(12, 5, false, 40)
    }
    fn run(&self, _: &Ctx, c: &RoundTripCase) -> Outcome {
        let mut o = Outcome::pass();
        classify(&mut o, c);
        let entries = &c.table.entries;
        o.nontrivial = entries.len() >= 4 && entries.windows(2).any(|w| w[0].0 == w[1].0) && c.prog.len() >= 4;
        let block = match tables::build_block(entries, c.opts.bytes_ri, c.opts.pairs_ri) {
            Ok(b) => b,
            Err(e) => {
                o.fail("block:build-error", format!("building a block from a strictly ordered sequence failed: {e:?}"));
                return o;
            }
        };
        let mut cur = block.cursor();
        let mut reference = RefCursor::new(entries.clone());
        if let Err((sig, msg)) = tables::compare_program("block", &mut cur, &mut reference, &c.prog) {
            o.fail(sig, msg);
            return o;
        }
        match walk_forward(&mut block.cursor()) {
            Ok(got) if got == *entries => {}
            Ok(got) => {
                o.fail("block:forward-walk", format!("forward enumeration returned {} entries, expected {}", got.len(), entries.len()));
                return o;
            }
            Err(e) => {
                o.fail("block:forward-walk-error", e);
                return o;
            }
        }
        match walk_backward(&mut block.cursor()) {
            Ok(got) if got == *entries => {}
            Ok(got) => {
                o.fail("block:backward-walk", format!("backward enumeration returned {} entries, expected {}", got.len(), entries.len()));
                return o;
            }
            Err(e) => {
                o.fail("block:backward-walk-error", e);
                return o;
            }
        }
        let targets = lookup_targets(&c.table);
        for (ks, ts) in c.loads.iter() {
            let key = &targets[gens::sel(*ks, targets.len())];
            let mut tomb = crate::tables::stale_flag_for(key, *ts);
            match block.load(key, *ts, &mut tomb) {
                Ok(v) => {
                    let (mv, mt) = model_load(entries, key, *ts);
                    if v != mv || tomb != mt {
                        o.fail("block:load", format!("load({}, {}) = ({:?} bytes, tombstone={}) but the model says ({:?} bytes, tombstone={})", gens::show(key), ts, v.map(|v| v.len()), tomb, mv.map(|v| v.len()), mt));
                        return o;
                    }
                }
                Err(e) => {
                    o.fail("block:load-error", format!("load({}, {}) failed: {e:?}", gens::show(key), ts));
                    return o;
                }
            }
        }
        o
    }
}

//////////////////////////////////////////////// sst ///////////////////////////////////////////////

pub struct SstRoundTrip;

impl Property for SstRoundTrip {
    type Case = RoundTripCase;
    fn name(&self) -> String {
        "sst-roundtrip".into()
    }
    fn cases(&self, tier: Tier) -> u64 {
        tier.pick(15_000, 400_000)
    }
    fn strategy(&self, _: &Ctx) -> BoxedStrategy<RoundTripCase> {
        roundtrip_strategy(25, 6, true, 40)
    }
    fn run(&self, ctx: &Ctx, c: &RoundTripCase) -> Outcome {
        let mut o = Outcome::pass();
        classify(&mut o, c);
        let entries = &c.table.entries;
        let path = ctx.scratch.join("c10.sst");
        let table = match tables::build_sst(&path, entries, &c.opts) {
            Ok(t) => t,
            Err(e) => {
                let _ = std::fs::remove_file(&path);
                o.fail("sst:build-error", format!("building an sst from a strictly ordered sequence of {} entries failed: {e:?}", entries.len()));
                return o;
            }
        };
        let payload: usize = entries.iter().map(|e| e.0.len() + e.2.as_ref().map(|v| v.len()).unwrap_or(0) + 12).sum();
        let multi_block = payload > 2 * c.opts.block_size.max(4096) as usize;
        if multi_block {
            o.label("multi-block");
        }
        o.nontrivial = multi_block && entries.windows(2).any(|w| w[0].0 == w[1].0);
        let targets = lookup_targets(&c.table);
        let res = check_sealed_sst("sst", &table, &path, entries, &c.prog, &c.loads, &targets, &[]);
        let _ = std::fs::remove_file(&path);
        if let Err((sig, msg)) = res {
            o.fail(sig, msg);
        }
        o
    }
}

////////////////////////////////////////////// rejects /////////////////////////////////////////////

#[derive(Clone, Debug, Serialize, Deserialize)]
pub enum Bad {
    /// re-offer an entry equal to the last accepted one
    Equal,
    /// offer an entry that sorts before the last accepted one (same key, newer timestamp)
    NewerTimestamp,
    /// offer a key smaller than the last accepted key
    SmallerKey,
    OversizeKey,
    OversizeValue,
}

#[derive(Clone, Debug, Serialize, Deserialize)]
pub struct RejectCase {
    pub table: Table,
    pub opts: BuildOpts,
    /// (position selector, kind): injected after that many accepted entries
    pub bad: Vec<(u16, Bad)>,
    pub use_sst: bool,
    /// per injection: offer through the other entry point (put <-> del) where the kind allows it
    #[serde(default)]
    pub flip: Vec<bool>,
    /// cursor program run on the sealed table
    #[serde(default)]
    pub prog: Vec<CursorOp>,
    /// (key selector into universe and neighbours, timestamp) point lookups on the sealed table
    #[serde(default)]
    pub loads: Vec<(u16, u64)>,
}

/// One invalid offer, built so that exactly one thing is wrong with it.
pub(crate) struct BadOffer {
    pub key: Vec<u8>,
    pub ts: u64,
    pub value: Option<Vec<u8>>,
    /// the documented error code
    pub want: &'static str,
    /// true for sort-order violations, false for size violations
    pub order: bool,
}

/// The invalid offer of `kind` relative to the last accepted entry; `flip` sends it through the
/// other entry point (put <-> del).  None where the kind is not applicable.
pub(crate) fn bad_offer(kind: &Bad, flip: bool, last: Option<&Entry>) -> Option<BadOffer> {
    match (kind, last) {
        (Bad::Equal, Some(l)) => {
            let value = match (&l.2, flip) {
                (v, false) => v.clone(),
                (Some(_), true) => None,
                (None, true) => Some(b"x".to_vec()),
            };
            Some(BadOffer { key: l.0.clone(), ts: l.1, value, want: sst::CODE_SORT_ORDER, order: true })
        }
        (Bad::NewerTimestamp, Some(l)) if l.1 < u64::MAX => Some(BadOffer { key: l.0.clone(), ts: l.1 + 1, value: if flip { None } else { Some(b"x".to_vec()) }, want: sst::CODE_SORT_ORDER, order: true }),
        (Bad::SmallerKey, Some(l)) if !l.0.is_empty() => Some(BadOffer { key: l.0[..l.0.len() - 1].to_vec(), ts: 5, value: if flip { Some(b"y".to_vec()) } else { None }, want: sst::CODE_SORT_ORDER, order: true }),
        (Bad::OversizeKey, _) => {
            // in order (the last key is a proper prefix), so that only the size is at fault
            let mut key = last.map(|l| l.0.clone()).unwrap_or_default();
            if key.len() > sst::MAX_KEY_LEN {
                return None;
            }
            key.resize(sst::MAX_KEY_LEN + 1, b'K');
            Some(BadOffer { key, ts: 1, value: if flip { None } else { Some(b"v".to_vec()) }, want: sst::CODE_KEY_TOO_LARGE, order: false })
        }
        (Bad::OversizeValue, _) => {
            // a key that would be in order, so that only the size is at fault
            let key = last.map(|l| { let mut k = l.0.clone(); k.push(0x7f); k }).unwrap_or_else(|| vec![0u8]);
            if key.len() > sst::MAX_KEY_LEN {
                return None;
            }
            Some(BadOffer { key, ts: 1, value: Some(vec![b'V'; sst::MAX_VALUE_LEN + 1]), want: sst::CODE_VALUE_TOO_LARGE, order: false })
        }
        _ => None,
    }
}

pub(crate) fn bad_strategy() -> impl Strategy<Value = Bad> {
    prop_oneof![
        3 => Just(Bad::Equal),
        3 => Just(Bad::NewerTimestamp),
        3 => Just(Bad::SmallerKey),
        1 => Just(Bad::OversizeKey),
        1 => Just(Bad::OversizeValue),
    ]
}

pub struct Rejects;

impl Property for Rejects {
    type Case = RejectCase;
    fn name(&self) -> String {
        "builder-rejects".into()
    }
    fn cases(&self, tier: Tier) -> u64 {
        tier.pick(12_000, 300_000)
    }
    fn strategy(&self, _: &Ctx) -> BoxedStrategy<RejectCase> {
        tables::table(10, 4, false)
            .prop_flat_map(|t| {
                let universe = gens::universe(t.family, 30);
                let ts = prop_oneof![2 => 0u64..45, 1 => Just(u64::MAX), 1 => Just(0u64), 1 => any::<u64>()];
                (Just(t), tables::build_opts(), prop::collection::vec((any::<u16>(), bad_strategy(), any::<bool>()), 1..5), any::<bool>(), tables::program(universe, 24), prop::collection::vec((any::<u16>(), ts), 0..8))
            })
            .prop_map(|(table, opts, bad, use_sst, prog, loads)| RejectCase { table, opts, flip: bad.iter().map(|b| b.2).collect(), bad: bad.into_iter().map(|b| (b.0, b.1)).collect(), use_sst, prog, loads })
            .boxed()
    }
    fn run(&self, ctx: &Ctx, c: &RejectCase) -> Outcome {
        let mut o = Outcome::pass();
        let entries = &c.table.entries;
        o.nontrivial = entries.len() >= 2;
        o.label(if c.use_sst { "sst-builder" } else { "block-builder" });
        let path = ctx.scratch.join("c10-reject.sst");
        let twin_path = ctx.scratch.join("c10-reject-twin.sst");
        let _ = std::fs::remove_file(&path);
        enum B {
            Block(sst::block::BlockBuilder),
            Sst(sst::SstBuilder),
        }
        let mut b = if c.use_sst {
            match sst::SstBuilder::new(tables::sst_options(&c.opts), &path) {
                Ok(b) => B::Sst(b),
                Err(e) => {
                    o.fail("reject:open-error", format!("{e:?}"));
                    return o;
                }
            }
        } else {
            B::Block(sst::block::BlockBuilder::new(sst::block::BlockBuilderOptions::default().bytes_restart_interval(c.opts.bytes_ri).key_value_pairs_restart_interval(c.opts.pairs_ri)))
        };
        fn offer(b: &mut B, k: &[u8], t: u64, v: Option<&[u8]>) -> Result<(), handled::SError> {
            match (b, v) {
                (B::Block(b), Some(v)) => b.put(k, t, v),
                (B::Block(b), None) => b.del(k, t),
                (B::Sst(b), Some(v)) => b.put(k, t, v),
                (B::Sst(b), None) => b.del(k, t),
            }
        }
        fn size(b: &B) -> usize {
            match b {
                B::Block(b) => b.approximate_size(),
                B::Sst(b) => b.approximate_size(),
            }
        }
        let mut injections: Vec<(usize, &Bad, bool)> = c.bad.iter().enumerate().map(|(j, (s, k))| (gens::sel(*s, entries.len() + 1), k, c.flip.get(j).copied().unwrap_or(false))).collect();
        injections.sort_by_key(|x| x.0);
        let mut refused_keys: Vec<Vec<u8>> = vec![];
        for i in 0..=entries.len() {
            for (_, kind, flip) in injections.iter().filter(|(p, _, _)| *p == i) {
                let last = if i > 0 { Some(&entries[i - 1]) } else { None };
                let Some(bad) = bad_offer(kind, *flip, last) else { continue };
                let via = if bad.value.is_some() { "put" } else { "del" };
                let before = size(&b);
                match offer(&mut b, &bad.key, bad.ts, bad.value.as_deref()) {
                    Ok(()) => {
                        o.fail(format!("reject:accepted:{kind:?}"), format!("builder accepted invalid input {kind:?} offered through {via} after {i} entries"));
                        return o;
                    }
                    Err(e) => {
                        o.label(format!("rejected:{kind:?}"));
                        o.label(format!("rejected:{kind:?}:via-{via}"));
                        // the property asks for an error; which code is an observation
                        if sst::error_code(&e) != Some(bad.want) {
                            o.label(format!("error-code-other-than-{}:{:?}", bad.want, sst::error_code(&e)));
                        }
                    }
                }
                // observation only: approximate_size is an approximate figure
                if size(&b) != before {
                    o.label("approximate-size-changed-by-a-refused-offer");
                }
                refused_keys.push(bad.key);
            }
            if i < entries.len() {
                let e = &entries[i];
                if let Err(err) = offer(&mut b, &e.0, e.1, e.2.as_deref()) {
                    o.fail("reject:valid-refused", format!("valid entry #{i} was refused after rejected input: {err:?}"));
                    return o;
                }
            }
        }
        // The sealed table is the table of the accepted entries: contents under every cursor
        // movement, point lookups of present and of refused keys, metadata.  Whether it also equals,
        // byte for byte, the table of a builder that was never offered the refused input (bloom
        // filter bits, layout) is not observable through the property and only labelled.
        let mut notes: Vec<String> = vec![];
        let targets = lookup_targets(&c.table);
        let res = (|| -> Result<(), (String, String)> {
            match b {
                B::Block(b) => {
                    let blk = b.seal().map_err(|e| ("reject:seal-or-walk-error".to_string(), format!("{e:?}")))?;
                    match walk_forward(&mut blk.cursor()) {
                        Ok(got) if got == *entries => {}
                        Ok(got) => return Err(("reject:contents-differ".into(), format!("block built with rejected inputs interleaved holds {} entries, expected exactly the {} valid ones", got.len(), entries.len()))),
                        Err(e) => return Err(("reject:seal-or-walk-error".into(), e)),
                    }
                    match walk_backward(&mut blk.cursor()) {
                        Ok(got) if got == *entries => {}
                        Ok(got) => return Err(("reject:backward-walk".into(), format!("backward enumeration of the block built with rejected inputs interleaved returned {} entries, expected {}", got.len(), entries.len()))),
                        Err(e) => return Err(("reject:backward-walk-error".into(), e)),
                    }
                    if !c.prog.is_empty() {
                        tables::compare_program("reject", &mut blk.cursor(), &mut RefCursor::new(entries.clone()), &c.prog)?;
                    }
                    // every accepted key and every refused key is sought, then stepped around
                    for k in refused_keys.iter().chain(tables::keys_of(entries).iter()) {
                        let prog = [CursorOp::Seek(k.clone()), CursorOp::Prev, CursorOp::Next, CursorOp::Next];
                        tables::compare_program("reject", &mut blk.cursor(), &mut RefCursor::new(entries.clone()), &prog)?;
                    }
                    let gen_loads = c.loads.iter().map(|(ks, ts)| (targets[gens::sel(*ks, targets.len())].clone(), *ts));
                    let key_loads = refused_keys.iter().chain(tables::keys_of(entries).iter()).flat_map(|k| [u64::MAX, 20, 0].into_iter().map(move |ts| (k.clone(), ts))).collect::<Vec<_>>();
                    for (k, ts) in gen_loads.chain(key_loads) {
                        let mut tomb = crate::tables::stale_flag_for(&k, ts);
                        let v = blk.load(&k, ts, &mut tomb).map_err(|e| ("reject:load-error".to_string(), format!("{e:?}")))?;
                        let (mv, mt) = model_load(entries, &k, ts);
                        if v != mv || tomb != mt {
                            return Err(("reject:load".into(), format!("load({}, {ts}) on the block disagrees with the accepted entries", gens::show(&k))));
                        }
                    }
                    if let Ok(twin) = tables::build_block(entries, c.opts.bytes_ri, c.opts.pairs_ri) {
                        if twin.as_bytes() != blk.as_bytes() {
                            notes.push("differs-byte-wise-from-the-twin-built-from-accepted-entries".into());
                        }
                    }
                }
                B::Sst(b) => {
                    let table = b.seal().map_err(|e| ("reject:seal-or-walk-error".to_string(), format!("{e:?}")))?;
                    match walk_forward(&mut table.cursor()) {
                        Ok(got) if got == *entries => {}
                        Ok(got) => return Err(("reject:contents-differ".into(), format!("table built with rejected inputs interleaved holds {} entries, expected exactly the {} valid ones", got.len(), entries.len()))),
                        Err(e) => return Err(("reject:seal-or-walk-error".into(), e)),
                    }
                    check_sealed_sst("reject", &table, &path, entries, &c.prog, &c.loads, &targets, &refused_keys)?;
                    for k in refused_keys.iter().chain(tables::keys_of(entries).iter()) {
                        let prog = [CursorOp::Seek(k.clone()), CursorOp::Prev, CursorOp::Next, CursorOp::Next];
                        tables::compare_program("reject", &mut table.cursor(), &mut RefCursor::new(entries.clone()), &prog)?;
                    }
                    if let Ok(twin) = tables::build_sst(&twin_path, entries, &c.opts) {
                        if twin.approximate_size() != table.approximate_size() {
                            notes.push("in-memory-size-differs-from-the-twin-built-from-accepted-entries".into());
                        }
                        if let (Ok(a), Ok(t)) = (std::fs::read(&path), std::fs::read(&twin_path)) {
                            if a != t {
                                notes.push("differs-byte-wise-from-the-twin-built-from-accepted-entries".into());
                            }
                        }
                    }
                }
            }
            Ok(())
        })();
        for n in notes {
            o.label(n);
        }
        let _ = std::fs::remove_file(&path);
        let _ = std::fs::remove_file(&twin_path);
        if let Err((sig, msg)) = res {
            o.fail(sig, msg);
        }
        o
    }
}

pub fn check() -> Check {
    Check::new(
        "C10",
        "exploration",
        "proptest-generated strictly ordered multi-version tables (four key families incl. empty key, 0x00/0xff runs, prefix chains; timestamps incl. 0 and u64::MAX; tombstone runs; values 0..30000 bytes) x builder options (restart intervals 1..100000 bytes / 1..1000 pairs, block sizes 4096..65536) x cursor programs of <= 40 calls starting with an absolute seek; compared call by call with a vector reference cursor, plus full forward/backward walks, timestamped point lookups, metadata and re-open; separately, invalid inputs (equal, out-of-order, oversize; each through put and through del) injected at generated positions must be refused with an error (which code is labelled) and leave no trace in what the property observes: the sealed block / sst equals the accepted entries in contents (forward / backward walks, a cursor program, a seek to every accepted and every refused key stepped around), point lookups of present and of refused keys, and metadata (setsum, timestamps, first / last key, file size == length of the file); a changed approximate_size and a byte-wise difference from a twin built from the accepted entries alone are labels only. Part multi-builder-roundtrip: the same tables (value profiles mixed / tiny / every value above the smallest target size) through SstMultiBuilder with generated target_file_size and minimum_file_size (4096 .. 64 MiB, incl. values below the documented clamp), split_hint() calls at generated positions and invalid offers at generated positions incl. as the first entry of a new file (after a roll, after a split hint, after an earlier refused offer): the concatenation of the output files in file order is exactly the accepted sequence, every file is non-empty and passes all per-file oracles of the sst part against its slice, consecutive files are ordered (a shared boundary key has its newer versions first), the files' setsums add up to the setsum of the input. Part boundary-sizes: keys of MAX_KEY_LEN-1 / MAX_KEY_LEN / MAX_KEY_LEN+1 bytes through put and del and values of MAX_VALUE_LEN-1 / MAX_VALUE_LEN / MAX_VALUE_LEN+1 bytes mixed into small tables, through BlockBuilder, SstBuilder and SstMultiBuilder: entries within the maxima are accepted and round-trip (walks, seeks to the long keys, point lookups, metadata), the others are refused with an error and the sealed table shows only the accepted entries. Non-trivial: block with >= 4 entries incl. a multi-version key and a program of >= 4 calls; sst with >= 2 data blocks and a multi-version key; multi builder with >= 2 output files and a multi-version key; boundary-sizes with >= 2 accepted entries incl. one of exactly a documented maximum; distinct by structural hash.",
    )
    .assume("reference cursor semantics are those documented on sst::Cursor: seek_to_first = before first, seek_to_last = after last, stepping off an end stays at that end")
    .assume("the first call of every program is an absolute seek (the position of a freshly constructed cursor is not documented)")
    .assume("an entry (empty key, timestamp u64::MAX) is never offered as the first entry: the builders' initial 'last key' equals it, so it is outside the accepted domain")
    .assume("SstMultiBuilder: a refused offer may close or open an output file before it is refused (approximate_size is compared across a refused offer only where the offer goes to an open file below its target size); the files themselves must not show the refused offer")
    .assume("table-full (TABLE_FULL_SIZE, 960 MiB) is not reached by generated tables")
    .pbt(BlockRoundTrip)
    .pbt(SstRoundTrip)
    .pbt(Rejects)
    .pbt(crate::c10ext::MultiRoundTrip)
    .pbt(crate::c10ext::BoundarySizes)
    .pbt(crate::c10ext::BoundaryCounts)
}
