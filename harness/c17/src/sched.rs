//! E5 — the token scheduler.
//!
//! N real OS threads run N programs, but exactly one of them holds *the token* at any time; the
//! others are parked on their own condition variable.  Every atomic pointer operation of
//! `skipfree` / `listfree` calls the yield hook **before** it executes; there the running thread
//! consumes the next element of the generated schedule and either keeps the token or hands it to
//! another runnable thread and parks.  The operation itself executes when the thread next holds the
//! token, so the execution is one total order of atomic operations (sequentially consistent), fully
//! determined by (programs, schedule): it replays and shrinks exactly.
//!
//! Schedule encoding (`Vec<u8>`, one element consumed per hook point while it lasts):
//!   * `0`      — the running thread keeps the token;
//!   * `e > 0`  — hand the token to the `((e-1) * len) / 255`-th *other* runnable thread (in slot
//!                order); if there is none, keep it.
//!   * when a thread finishes its program (and at the very start) one element `e` picks the
//!     `(e * len) >> 8`-th runnable thread.
//!   * schedule exhausted — the running thread keeps the token until its program ends, then the
//!     lowest-numbered runnable thread runs.  (So a short schedule means few preemptions, and
//!     shrinking the vector — shorter, elements towards 0 — removes context switches.)
//!
//! Safety of the scheduler itself: a parked thread holds nothing the code under test needs (the
//! code under test is lock-free and the harness's log mutex is never held across a hook point).
//! A panic in a program is caught, recorded (`panic@file:line`) and aborts the case: every other
//! thread unwinds out of its next hook point.  An operation that executes more than `op_budget`
//! hook points of its own is reported as `no progress` (deterministic, counted in steps, not in
//! time) and aborts the case the same way.  A wall-clock watchdog only ever yields "inconclusive".

use std::cell::RefCell;
use std::sync::{Arc, Condvar, Mutex, MutexGuard};
use std::time::{Duration, Instant};

use vcore::Failure;

pub const NSITES: usize = 6;
const NONE: usize = usize::MAX;

pub struct St {
    current: usize,
    runnable: Vec<bool>,
    finished: usize,
    schedule: Vec<u8>,
    pos: usize,
    /// hook points entered
    pub steps: u64,
    /// logical clock: incremented whenever a thread leaves a hook point (i.e. right before its
    /// atomic operation executes) and by `tick()`; totally orders operations and log entries.
    pub clock: u64,
    pub switches: u64,
    op_steps: Vec<u64>,
    op_budget: u64,
    site_counts: Vec<[u64; NSITES]>,
    site_time: Vec<[u64; NSITES]>,
    abort: Option<String>,
    pub stuck: Option<usize>,
    pub panics: Vec<(usize, Failure)>,
}

pub struct Sched {
    st: Mutex<St>,
    cvs: Vec<Condvar>,
    done: Condvar,
}

thread_local! {
    static ME: RefCell<Option<(usize, Arc<Sched>)>> = const { RefCell::new(None) };
}

struct AbortUnwind;

fn abort_unwind() -> ! {
    // resume_unwind does not run the panic hook: this is the harness unwinding a program out of
    // a case that is already decided, not a panic of the code under test.
    std::panic::resume_unwind(Box::new(AbortUnwind))
}

impl St {
    fn others(&self, me: usize) -> Vec<usize> {
        (0..self.runnable.len()).filter(|i| *i != me && self.runnable[*i]).collect()
    }

    fn pick_at_point(&mut self, me: usize) -> usize {
        if self.pos >= self.schedule.len() {
            return me;
        }
        let e = self.schedule[self.pos] as usize;
        self.pos += 1;
        if e == 0 {
            return me;
        }
        let o = self.others(me);
        if o.is_empty() {
            return me;
        }
        o[((e - 1) * o.len()) / 255]
    }

    fn pick_any(&mut self) -> usize {
        let r = self.others(NONE);
        if r.is_empty() {
            return NONE;
        }
        if self.pos >= self.schedule.len() {
            return r[0];
        }
        let e = self.schedule[self.pos] as usize;
        self.pos += 1;
        r[(e * r.len()) >> 8]
    }
}

impl Sched {
    fn lock(&self) -> MutexGuard<'_, St> {
        self.st.lock().unwrap_or_else(|e| e.into_inner())
    }

    fn wake_all(&self) {
        for c in self.cvs.iter() {
            c.notify_all();
        }
        self.done.notify_all();
    }

    fn set_abort(&self, g: &mut St, why: String) {
        if g.abort.is_none() {
            g.abort = Some(why);
        }
        self.wake_all();
    }

    fn point(&self, me: usize, site: usize) {
        let mut g = self.lock();
        if g.abort.is_some() {
            drop(g);
            abort_unwind();
        }
        if g.current != me {
            let cur = g.current;
            self.set_abort(&mut g, format!("harness: thread {me} ran without the token (holder {cur})"));
            drop(g);
            abort_unwind();
        }
        g.steps += 1;
        g.op_steps[me] += 1;
        let site = site.min(NSITES - 1);
        g.site_counts[me][site] += 1;
        if g.op_steps[me] > g.op_budget {
            g.stuck = Some(me);
            self.set_abort(&mut g, "no-progress".to_string());
            drop(g);
            abort_unwind();
        }
        let next = g.pick_at_point(me);
        if next != me {
            g.switches += 1;
            g.current = next;
            self.cvs[next].notify_one();
            while g.current != me && g.abort.is_none() {
                g = self.cvs[me].wait(g).unwrap_or_else(|e| e.into_inner());
            }
            if g.abort.is_some() {
                drop(g);
                abort_unwind();
            }
        }
        g.clock += 1;
        g.site_time[me][site] = g.clock;
    }
}

/// The yield hook installed into skipfree and listfree.
pub fn hook(site: u32) {
    ME.with(|m| {
        let b = m.borrow();
        if let Some((slot, s)) = b.as_ref() {
            s.point(*slot, site as usize);
        }
    });
}

fn with_me<T>(f: impl FnOnce(usize, &mut St) -> T) -> Option<T> {
    ME.with(|m| {
        let b = m.borrow();
        b.as_ref().map(|(slot, s)| {
            let mut g = s.lock();
            f(*slot, &mut g)
        })
    })
}

/// Start of one operation of the calling program: resets its per-operation counters.  Returns the
/// logical time.
pub fn op_begin() -> u64 {
    with_me(|me, g| {
        g.op_steps[me] = 0;
        g.site_counts[me] = [0; NSITES];
        g.clock += 1;
        g.clock
    })
    .unwrap_or(u64::MAX)
}

/// Advance and return the logical clock (log stamps).  On a thread that is not under the
/// scheduler (the main thread, after the run) the time is "after everything".
pub fn tick() -> u64 {
    with_me(|_, g| {
        g.clock += 1;
        g.clock
    })
    .unwrap_or(u64::MAX)
}

/// Hook points of `site` the calling thread went through since `op_begin`.
pub fn site_count(site: usize) -> u64 {
    with_me(|me, g| g.site_counts[me][site]).unwrap_or(0)
}

/// Logical time at which the calling thread last left a hook point of `site` (the time its
/// atomic operation executed).
pub fn site_time(site: usize) -> u64 {
    with_me(|me, g| g.site_time[me][site]).unwrap_or(0)
}

/// "step S, schedule position P" for messages.
pub fn whereabouts() -> String {
    with_me(|me, g| format!("thread {me}, step {}, schedule position {}, context switches so far {}", g.steps, g.pos, g.switches))
        .unwrap_or_else(|| "main thread".to_string())
}

#[derive(Debug, Default)]
pub struct RunResult {
    pub steps: u64,
    pub switches: u64,
    pub sched_used: usize,
    pub sched_len: usize,
    pub panics: Vec<(usize, Failure)>,
    /// Thread whose operation exceeded the per-operation step budget.
    pub stuck: Option<usize>,
    pub harness_error: Option<String>,
    pub timed_out: bool,
    /// Threads could not be collected (only after a time-out): they are leaked.
    pub leaked: bool,
}

pub type Prog = Box<dyn FnOnce() + Send + 'static>;

/// Run the programs under the token scheduler.
pub fn run(progs: Vec<Prog>, schedule: &[u8], op_budget: u64, wall: Duration) -> RunResult {
    let n = progs.len();
    let sched = Arc::new(Sched {
        st: Mutex::new(St {
            current: NONE,
            runnable: vec![true; n],
            finished: 0,
            schedule: schedule.to_vec(),
            pos: 0,
            steps: 0,
            clock: 0,
            switches: 0,
            op_steps: vec![0; n],
            op_budget,
            site_counts: vec![[0; NSITES]; n],
            site_time: vec![[0; NSITES]; n],
            abort: None,
            stuck: None,
            panics: vec![],
        }),
        cvs: (0..n).map(|_| Condvar::new()).collect(),
        done: Condvar::new(),
    });
    let mut handles = vec![];
    for (slot, prog) in progs.into_iter().enumerate() {
        let s = Arc::clone(&sched);
        let h = std::thread::Builder::new()
            .stack_size(512 * 1024)
            .spawn(move || {
                ME.with(|m| *m.borrow_mut() = Some((slot, Arc::clone(&s))));
                let mut go = true;
                {
                    let mut g = s.lock();
                    while g.current != slot && g.abort.is_none() {
                        g = s.cvs[slot].wait(g).unwrap_or_else(|e| e.into_inner());
                    }
                    if g.abort.is_some() {
                        go = false;
                    }
                }
                let r = if go { vcore::guard(prog) } else { drop(prog); Ok(()) };
                ME.with(|m| *m.borrow_mut() = None);
                let mut g = s.lock();
                if let Err(f) = r {
                    let unwinding_out = f.signature == "panic@" && g.abort.is_some();
                    if !unwinding_out {
                        g.panics.push((slot, f));
                        s.set_abort(&mut g, "panic".to_string());
                    }
                }
                g.runnable[slot] = false;
                g.finished += 1;
                if g.abort.is_none() && g.current == slot {
                    let next = g.pick_any();
                    g.current = next;
                    if next != NONE {
                        if !g.others(NONE).is_empty() {
                            g.switches += 1;
                        }
                        s.cvs[next].notify_one();
                    }
                }
                s.done.notify_all();
            })
            .expect("spawn");
        handles.push(h);
    }
    // Hand out the token for the first time.
    {
        let mut g = sched.lock();
        let first = g.pick_any();
        g.current = first;
        if first != NONE {
            sched.cvs[first].notify_one();
        }
    }
    let t0 = Instant::now();
    let mut timed_out = false;
    let mut leaked = false;
    {
        let mut g = sched.lock();
        while g.finished < n {
            let left = wall.checked_sub(t0.elapsed());
            match left {
                Some(d) if !d.is_zero() => {
                    let (ng, _) = sched.done.wait_timeout(g, d.min(Duration::from_millis(500))).unwrap_or_else(|e| e.into_inner());
                    g = ng;
                }
                _ => {
                    timed_out = true;
                    sched.set_abort(&mut g, "watchdog".to_string());
                    let t1 = Instant::now();
                    while g.finished < n && t1.elapsed() < Duration::from_secs(5) {
                        let (ng, _) = sched.done.wait_timeout(g, Duration::from_millis(100)).unwrap_or_else(|e| e.into_inner());
                        g = ng;
                    }
                    if g.finished < n {
                        leaked = true;
                    }
                    break;
                }
            }
        }
    }
    if !leaked {
        for h in handles {
            let _ = h.join();
        }
    }
    let mut g = sched.lock();
    let harness_error = match g.abort.as_deref() {
        Some(a) if a.starts_with("harness:") => Some(a.to_string()),
        _ => None,
    };
    RunResult {
        steps: g.steps,
        switches: g.switches,
        sched_used: g.pos,
        sched_len: g.schedule.len(),
        panics: std::mem::take(&mut g.panics),
        stuck: g.stuck,
        harness_error,
        timed_out,
        leaked,
    }
}

/// Bucket a count for labels.
pub fn bucket(x: u64, edges: &[u64]) -> String {
    // edges: ascending inclusive upper bounds of the buckets
    let mut lo = 0u64;
    for e in edges {
        if x <= *e {
            return if lo == *e { format!("{lo}") } else { format!("{lo}-{e}") };
        }
        lo = e + 1;
    }
    format!("{lo}+")
}
