//! C17 — the lock-free skip list (`skipfree`) loses no insert and always iterates in order; the
//! prepend-only list (`listfree`) shows every element exactly once, newest first.
//!
//! Parts:
//!   * `skiplist-token-schedules`, `prepend-list-token-schedules` — engine E5: generated
//!     (workload, schedule) cases run by the deterministic token scheduler of `sched.rs` at the
//!     granularity of the individual atomic loads, stores and compare-and-swaps;
//!   * `real-thread-stress` — the same workloads on real cores.

mod list;
mod sched;
mod skip;
mod stress;

use vcore::Check;

/// Route the yield points of both crates into the token scheduler (threads that are not under a
/// scheduler fall straight through) and switch the node registry on.
pub fn install_hooks() {
    skipfree::verif::set_yield_hook(Some(sched::hook));
    listfree::verif::set_yield_hook(Some(sched::hook));
}

/// Real-thread runs: no yield points, no registry (its mutex would serialise the threads).
pub fn uninstall_hooks() {
    skipfree::verif::set_yield_hook(None);
    listfree::verif::set_yield_hook(None);
    skipfree::verif::set_registry(false);
}

fn main() {
    let check = Check::new(
        "C17",
        "exploration",
        "Three proptest parts. skiplist-token-schedules (engine E5, deterministic): a case is (workload, schedule). Workload: 1-4 inserter threads x 1-6 inserts of distinct u64 keys from one of five families (dense permutation of 0..n; per-thread ascending blocks; per-thread descending blocks; interleaved so every key's neighbours belong to other threads, even threads ascending and odd threads descending; random u64 including 0, u64::MAX and near-duplicates) with generated tower heights (1-3 mostly, up to 12), plus 0-2 reader threads (at most 4 threads in all) running contains / full forward iteration / full backward iteration / seek followed by up to 4 next-prev moves on probe keys (every key, its two neighbours, 0, u64::MAX). Schedule: a Vec<u8> consumed one element per atomic pointer operation (yield hook before every get_next / set_next / cas_next): 0 keeps the token, e>0 hands it to another runnable thread; three density families (switch at ~every point, ~every 4th, ~every 15th); when the vector is exhausted the running thread runs to completion, then the lowest-numbered runnable one. Exactly one thread runs at a time, so the harness keeps an exact log: for every observation the set C of inserts that had returned before it began and the set S of inserts that had started before it ended. Oracles: every cursor movement (seek_to_first, seek, next, prev, prev-from-end) lands on a key of S on the correct side that does not skip any key of C (not valid only when C has no key in that direction), with the right value; whole iterations are strictly monotone with C-at-begin subset seen subset S-at-end; contains(k) is true for k in C and false for k not in S or never inserted; a panic inside skipfree or an operation exceeding 20 000 atomic steps is a failure; after all threads finished forward and backward iteration equal the inserted key set, contains and seek/next/prev are exact on every probe; the allocation registry reports no dereference of a freed node, including through two iterators (one forward from a generated position, one backward from the end) that are held while the last SkipList handle is dropped and must still yield exactly the keys. Non-trivial = at least one compare-and-swap of an insert failed (more site-3 hook calls than tower levels: two inserts raced for the same predecessor). prepend-list-token-schedules: 1-4 threads x 1-6 prepends and 0-2 readers x 1-4 full iterations under the same scheduler (hooks at node get/set_next, head load, head CAS); oracles: no duplicates, completed-before-begin subset seen subset started-before-end, an element whose prepend returned before another's began comes after it (so per-thread order is reversed), the final iteration is all elements in reverse order of the successful head CASes, and in hindsight every iteration equals exactly the elements whose CAS preceded its head load; non-trivial = a head CAS failed. real-thread-stress: 2-8 writer threads x 1-1250 keys each (<= 10 000; partitioned / interleaved / scattered over u64; odd writers optionally descending; heights derived from the case seed) and 1-4 reader threads looping over forward iteration, backward iteration, 48 contains probes, 24 seek+next+prev probes while the writers run, with Release/Acquire progress counters (completed snapshot before, started snapshot after each observation), then the quiescent checks; the same for the prepend list (per writer the elements seen must be exactly #m-1 … #0 with completed-before <= m <= started-after); non-trivial = at least one observation that saw a non-empty strict subset of the keys. Distinct by structural hash of the case.",
    )
    .assume("keys inserted into one skip list are pairwise distinct (SkipList::insert asserts the key is absent; duplicates are outside the statement's domain)")
    .assume("token scheduling yields sequentially consistent executions only; weaker-than-SC behaviour of the Acquire/Release/SeqCst operations is exercised only by the real-thread part, on x86-64 (TSO) hardware")
    .assume("the head pointer load of the skip list has no yield point (the head node is allocated once and never changes); every load/store/CAS of a next pointer, including the head node's, has one")
    .assume("movements the statement does not define (next() from the end position, next()/prev() from the before-first position) are only required to land on a started key or nowhere")
    .assume("an operation that executes more than 20 000 atomic steps on a list of at most 24 keys counts as not returning (a lock-free insert retries only when another insert succeeded)")
    .pbt(skip::SkipTokens)
    .pbt(list::ListTokens)
    .pbt(stress::Stress);
    vcore::main_with(vec![check], &[]);
}
