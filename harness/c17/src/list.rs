//! E5 on `listfree::List`: prepends from several threads and iterations, under the token scheduler.

use std::sync::{Arc, Mutex};
use std::time::Duration;

use proptest::prelude::*;
use serde::{Deserialize, Serialize};
use vcore::{Ctx, Outcome, Property, Tier};

use crate::sched;

#[derive(Clone, Debug, PartialEq, Eq, Serialize, Deserialize)]
pub struct ListCase {
    /// number of prepends of each prepending thread (element = 16*t + j); at most
    /// 4 - readers.len() of them run
    pub prependers: Vec<u8>,
    /// number of full iterations of each reading thread
    pub readers: Vec<u8>,
    pub schedule: Vec<u8>,
}

pub fn strategy() -> impl Strategy<Value = ListCase> {
    (
        prop::collection::vec(1u8..=6, 1..=4),
        prop_oneof![1 => Just(vec![]), 4 => prop::collection::vec(1u8..=4, 1..=2)],
        crate::skip::schedule(160),
    )
        .prop_map(|(prependers, readers, schedule)| ListCase { prependers, readers, schedule })
}

#[derive(Clone, Copy, Default, Debug)]
struct Stamp {
    started: u64,
    /// logical time of the successful head CAS
    cas: u64,
    completed: u64,
}

#[derive(Default)]
struct Log {
    stamps: std::collections::BTreeMap<u64, Stamp>,
    cas_retries: u64,
    /// (reader, logical time of the head load, begin, end, elements seen)
    iterations: Vec<(usize, u64, u64, u64, Vec<u64>)>,
    fails: Vec<(String, String)>,
}

struct Shared {
    list: listfree::List<u64>,
    log: Mutex<Log>,
    total: usize,
}

fn fail(sh: &Shared, sig: &str, msg: String) {
    let w = sched::whereabouts();
    sh.log.lock().unwrap().fails.push((sig.to_string(), format!("{msg} [{w}]")));
}

/// One full iteration and the oracles that need no hindsight.
fn iterate(sh: &Shared, who: usize, op: &str) -> Result<Vec<u64>, ()> {
    let begin = sched::op_begin();
    let seen: Vec<u64> = sh.list.iter().copied().take(sh.total + 1).collect();
    let head_load = sched::site_time(4);
    let end = sched::tick();
    let stamps = sh.log.lock().unwrap().stamps.clone();
    if seen.len() > sh.total {
        fail(sh, &format!("{op}:duplicate"), format!("{op}: iteration yields more than the {} elements ever prepended: {seen:?}", sh.total));
        return Err(());
    }
    let mut pos = std::collections::BTreeMap::new();
    for (i, e) in seen.iter().enumerate() {
        if pos.insert(*e, i).is_some() {
            fail(sh, &format!("{op}:duplicate"), format!("{op}: element {e} appears twice in {seen:?}"));
            return Err(());
        }
        match stamps.get(e) {
            Some(s) if s.started != 0 && s.started < end => {}
            _ => {
                fail(sh, &format!("{op}:phantom"), format!("{op}: element {e} in {seen:?} was not being prepended when the iteration ended"));
                return Err(());
            }
        }
    }
    for (e, s) in stamps.iter() {
        if s.completed != 0 && s.completed < begin && !pos.contains_key(e) {
            fail(sh, &format!("{op}:missed"), format!("{op}: iteration {seen:?} lacks {e}, whose prepend had returned before it began"));
            return Err(());
        }
    }
    // newest first: an element whose prepend returned before another's began comes after it;
    // in particular every thread's own elements appear in reverse program order.
    for (i, a) in seen.iter().enumerate() {
        for b in seen.iter().skip(i + 1) {
            let (sa, sb) = (stamps[a], stamps[b]);
            if sa.completed != 0 && sa.completed < sb.started {
                fail(sh, &format!("{op}:order"), format!("{op}: {a} comes before {b} in {seen:?} although prepend({a}) returned before prepend({b}) began"));
                return Err(());
            }
        }
    }
    if who != usize::MAX {
        sh.log.lock().unwrap().iterations.push((who, head_load, begin, end, seen.clone()));
    }
    Ok(seen)
}

pub fn run_case(c: &ListCase) -> Outcome {
    let mut o = Outcome::pass();
    let n_read = c.readers.len().min(2);
    let n_pre = c.prependers.len().min(crate::skip::MAX_THREADS - n_read).max(1).min(c.prependers.len());
    let total: usize = c.prependers.iter().take(n_pre).map(|n| *n as usize).sum();
    let sh = Arc::new(Shared { list: listfree::List::default(), log: Mutex::new(Log::default()), total });
    let mut progs: Vec<sched::Prog> = vec![];
    for (t, n) in c.prependers.iter().take(n_pre).enumerate() {
        let sh = Arc::clone(&sh);
        let n = *n as u64;
        progs.push(Box::new(move || {
            for j in 0..n {
                let e = 16 * t as u64 + j;
                let started = sched::op_begin();
                sh.log.lock().unwrap().stamps.insert(e, Stamp { started, cas: 0, completed: 0 });
                sh.list.prepend(e);
                let cas = sched::site_time(3);
                let attempts = sched::site_count(3);
                let completed = sched::tick();
                let mut l = sh.log.lock().unwrap();
                l.stamps.insert(e, Stamp { started, cas, completed });
                l.cas_retries += attempts.saturating_sub(1);
            }
        }));
    }
    for (r, n) in c.readers.iter().take(n_read).enumerate() {
        let sh = Arc::clone(&sh);
        let n = *n;
        progs.push(Box::new(move || {
            for _ in 0..n {
                if iterate(&sh, r, "iter").is_err() {
                    return;
                }
            }
        }));
    }
    let rr = sched::run(progs, &c.schedule, crate::skip::OP_BUDGET, Duration::from_secs(30));
    let retries = sh.log.lock().unwrap().cas_retries;
    let during = sh.log.lock().unwrap().iterations.iter().filter(|(_, _, _, _, s)| !s.is_empty() && s.len() < total).count();
    o.nontrivial = retries >= 1;
    o.label(format!("threads={}p+{}r", n_pre, n_read));
    o.label(format!("switches={}", sched::bucket(rr.switches, &[0, 9, 49, 199])));
    o.label(format!("cas_retries={}", sched::bucket(retries, &[0, 1, 3, 9])));
    o.label(format!("partial_iterations={}", sched::bucket(during as u64, &[0, 1, 3])));
    if let Some(e) = rr.harness_error.as_ref() {
        o.inconclusive = true;
        o.label(format!("harness-error: {e}"));
        return o;
    }
    if rr.timed_out {
        o.inconclusive = true;
        o.label("watchdog");
        return o;
    }
    if let Some((slot, f)) = rr.panics.first() {
        o.fail(f.signature.clone(), format!("thread {slot} panicked: {} [after {} steps, {} context switches]", f.message, rr.steps, rr.switches));
        return o;
    }
    if let Some(slot) = rr.stuck {
        let who = if slot < n_pre { "prepend" } else { "iterate" };
        o.fail(format!("no-progress:{who}"), format!("thread {slot}: one {who} executed more than {} atomic operations without returning", crate::skip::OP_BUDGET));
        return o;
    }
    let first_fail = |sh: &Shared| sh.log.lock().unwrap().fails.first().cloned();
    if let Some((sig, msg)) = first_fail(&sh) {
        o.fail(sig, msg);
        return o;
    }
    // quiescent: every element exactly once, in the reverse order of the successful head CASes
    let fin = match iterate(&sh, usize::MAX, "final-iter") {
        Ok(f) => f,
        Err(()) => {
            let (sig, msg) = first_fail(&sh).unwrap();
            o.fail(sig, msg);
            return o;
        }
    };
    let l = sh.log.lock().unwrap();
    if fin.len() != total {
        o.fail("final-iter:missed", format!("final iteration {fin:?} has {} of the {total} prepended elements", fin.len()));
        return o;
    }
    let mut by_cas: Vec<(u64, u64)> = l.stamps.iter().map(|(e, s)| (s.cas, *e)).collect();
    by_cas.sort();
    by_cas.reverse();
    let want: Vec<u64> = by_cas.iter().map(|(_, e)| *e).collect();
    if fin != want {
        o.fail("final-iter:order", format!("final iteration {fin:?} is not the reverse of the order of the successful head CASes {want:?}"));
        return o;
    }
    // hindsight: an iteration is exactly the elements whose CAS preceded its head load, newest first
    for (who, head_load, _, _, seen) in l.iterations.iter() {
        let want: Vec<u64> = by_cas.iter().filter(|(t, _)| *t < *head_load).map(|(_, e)| *e).collect();
        if *seen != want {
            o.fail(
                "iter:snapshot",
                format!("reader {who}: iteration {seen:?} differs from the elements published before its head load, newest first: {want:?}"),
            );
            return o;
        }
    }
    o
}

pub struct ListTokens;

impl Property for ListTokens {
    type Case = ListCase;
    fn name(&self) -> String {
        "prepend-list-token-schedules".into()
    }
    fn cases(&self, tier: Tier) -> u64 {
        tier.pick(6_000, 60_000)
    }
    fn strategy(&self, _ctx: &Ctx) -> BoxedStrategy<ListCase> {
        strategy().boxed()
    }
    fn max_shrink_iters(&self) -> u32 {
        4000
    }
    fn record_current(&self) -> bool {
        true
    }
    fn run(&self, _ctx: &Ctx, c: &ListCase) -> Outcome {
        crate::install_hooks();
        run_case(c)
    }
}
