//! E5 on `skipfree::SkipList`: generated (workload, schedule) cases under the token scheduler.

use std::sync::{Arc, Mutex};
use std::time::Duration;

use proptest::prelude::*;
use serde::{Deserialize, Serialize};
use skipfree::{SkipList, SkipListIterator};
use vcore::gens::sel;
use vcore::{Ctx, Outcome, Property, Tier};

use crate::sched;

pub const MAX_THREADS: usize = 4;
/// Hook points one operation may execute before it is declared stuck.  A search over <= 24 keys
/// with towers <= 12 takes < 40 loads; every failed CAS of an insert means another insert
/// succeeded, so an insert is bounded by a few hundred steps.  20 000 is far beyond reach.
pub const OP_BUDGET: u64 = 20_000;

#[derive(Clone, Copy, Debug, PartialEq, Eq, Serialize, Deserialize)]
pub enum Family {
    /// a permutation of 0..n spread over the threads
    Dense,
    /// thread t inserts 8t, 8t+1, … in ascending order
    Ascending,
    /// thread t inserts 8t+n-1, …, 8t in descending order
    Descending,
    /// key = j*T + t: every key's neighbours belong to other threads; even threads ascend, odd
    /// threads descend (head-on collisions)
    Interleaved,
    /// arbitrary u64 (including 0, u64::MAX and near-duplicates); repeated keys are dropped
    Random,
}

#[derive(Clone, Debug, PartialEq, Eq, Serialize, Deserialize)]
pub struct Ins {
    /// Random: the key.  Dense: a selector into the keys not yet handed out (top 16 bits).
    pub k: u64,
    /// tower height (clamped to 1..=12 by skipfree)
    pub h: u8,
}

#[derive(Clone, Debug, PartialEq, Eq, Serialize, Deserialize)]
pub enum ROp {
    /// `contains` of the selected probe key
    Contains(u16),
    /// seek_to_first, next … to the end
    Fwd,
    /// seek_to_last, prev … to the start
    Bwd,
    /// seek(probe key) followed by moves (true = next, false = prev)
    Seek { k: u16, moves: Vec<bool> },
    /// seek_to_first, next … off the end, then - on the SAME iterator - `back` prev moves: the first
    /// of them must reach the greatest key whose insert had returned before it began (an append may
    /// complete between running off the end and stepping back)
    FwdThenBack { back: u8 },
}

#[derive(Clone, Debug, PartialEq, Eq, Serialize, Deserialize)]
pub struct SkipCase {
    pub family: Family,
    /// at most `MAX_THREADS - readers.len()` of them run (the first ones)
    pub inserters: Vec<Vec<Ins>>,
    pub readers: Vec<Vec<ROp>>,
    pub schedule: Vec<u8>,
    /// where the held iterator stands when the list handle is dropped
    pub hold: u16,
}

fn height() -> impl Strategy<Value = u8> {
    prop_oneof![
        20 => Just(1u8),
        12 => 2u8..=3,
        4 => 4u8..=7,
        1 => 8u8..=11,
        1 => Just(12u8),
    ]
}

fn raw_key() -> impl Strategy<Value = u64> {
    prop_oneof![
        6 => any::<u64>(),
        2 => 0u64..6,
        2 => (u64::MAX - 5)..=u64::MAX,
        1 => (1u64 << 63) - 3..(1u64 << 63) + 3,
    ]
}

fn rop() -> impl Strategy<Value = ROp> {
    prop_oneof![
        3 => any::<u16>().prop_map(ROp::Contains),
        3 => Just(ROp::Fwd),
        2 => Just(ROp::Bwd),
        3 => (any::<u16>(), prop::collection::vec(any::<bool>(), 0..5)).prop_map(|(k, moves)| ROp::Seek { k, moves }),
        3 => (1u8..4).prop_map(|back| ROp::FwdThenBack { back }),
    ]
}

pub fn schedule(max: usize) -> impl Strategy<Value = Vec<u8>> {
    prop_oneof![
        // a switch at about every fourth point
        3 => prop::collection::vec(prop_oneof![3 => Just(0u8), 1 => any::<u8>()], 0..max),
        // a switch at nearly every point
        2 => prop::collection::vec(any::<u8>(), 0..max),
        // few preemptions at arbitrary points
        2 => prop::collection::vec(prop_oneof![14 => Just(0u8), 1 => any::<u8>()], 0..max + max / 2),
    ]
}

pub fn strategy() -> impl Strategy<Value = SkipCase> {
    let family = prop_oneof![
        3 => Just(Family::Dense),
        2 => Just(Family::Ascending),
        2 => Just(Family::Descending),
        3 => Just(Family::Interleaved),
        2 => Just(Family::Random),
    ];
    let ins = (raw_key(), height()).prop_map(|(k, h)| Ins { k, h });
    (
        family,
        prop::collection::vec(prop::collection::vec(ins, 1..=6), 1..=4),
        prop_oneof![
            1 => Just(vec![]),
            4 => prop::collection::vec(prop::collection::vec(rop(), 1..=4), 1..=2),
        ],
        schedule(600),
        any::<u16>(),
    )
        .prop_map(|(family, inserters, readers, schedule, hold)| SkipCase { family, inserters, readers, schedule, hold })
}

pub fn val(k: u64) -> u64 {
    k.rotate_left(17) ^ 0xA5A5_5A5A_C3C3_3C3C
}

/// Per inserter: (key, height) in program order.  Keys are distinct by construction.
pub fn assign_keys(c: &SkipCase) -> Vec<Vec<(u64, usize)>> {
    let run = c.inserters.len().min(MAX_THREADS - c.readers.len().min(2)).max(1);
    let inserters = &c.inserters[..run.min(c.inserters.len())];
    let t_n = inserters.len() as u64;
    let total: usize = inserters.iter().map(|p| p.len()).sum();
    let mut pool: Vec<u64> = (0..total as u64).collect();
    let mut used = std::collections::BTreeSet::new();
    let mut out = vec![];
    for (t, prog) in inserters.iter().enumerate() {
        let t = t as u64;
        let n = prog.len() as u64;
        let mut mine = vec![];
        for (j, ins) in prog.iter().enumerate() {
            let j = j as u64;
            let key = match c.family {
                Family::Dense => {
                    let i = sel((ins.k >> 48) as u16, pool.len());
                    Some(pool.remove(i))
                }
                Family::Ascending => Some(8 * t + j),
                Family::Descending => Some(8 * t + (n - 1 - j)),
                Family::Interleaved => {
                    if t & 1 == 0 {
                        Some(j * t_n + t)
                    } else {
                        Some((n - 1 - j) * t_n + t)
                    }
                }
                Family::Random => Some(ins.k),
            };
            if let Some(k) = key {
                if used.insert(k) {
                    mine.push((k, (ins.h as usize).clamp(1, 12)));
                }
            }
        }
        out.push(mine);
    }
    out
}

///////////////////////////////////////////////// log //////////////////////////////////////////////

#[derive(Default)]
pub struct Log {
    /// bit i = the insert of keys[i] has started / has returned
    pub started: u64,
    pub completed: u64,
    pub cas_retries: u64,
    pub observations: u64,
    pub fails: Vec<(String, String)>,
}

pub struct Shared {
    pub sl: SkipList<u64, u64>,
    pub log: Mutex<Log>,
    /// all keys of the case, ascending
    pub keys: Vec<u64>,
}

impl Shared {
    fn bit(&self, k: u64) -> Option<u64> {
        self.keys.binary_search(&k).ok().map(|i| 1u64 << i)
    }
    fn completed(&self) -> u64 {
        self.log.lock().unwrap().completed
    }
    fn started(&self) -> u64 {
        self.log.lock().unwrap().started
    }
    fn fail(&self, sig: &str, msg: String) {
        let w = sched::whereabouts();
        self.log.lock().unwrap().fails.push((sig.to_string(), format!("{msg} [{w}]")));
    }
    fn show(&self, mask: u64) -> String {
        let v: Vec<u64> = self.keys.iter().enumerate().filter(|(i, _)| mask >> i & 1 == 1).map(|(_, k)| *k).collect();
        format!("{v:?}")
    }
}

///////////////////////////////////////////// cursor oracle ////////////////////////////////////////

#[derive(Clone, Copy, Debug, PartialEq, Eq)]
enum Pos {
    /// past the last element (node == null): after iter(), seek_to_last(), or running off the end
    End,
    /// before the first element (node == head): after prev() from the first element
    Before,
    At(u64),
}

#[derive(Clone, Copy, Debug)]
enum Mv {
    First,
    Last,
    Seek(u64),
    Next,
    Prev,
}

/// What one cursor movement must produce, given the position it starts from.
enum Want {
    /// the smallest existing key that is >= lo (lo_strict: > lo)
    Up { lo: Option<u64>, strict: bool },
    /// the largest existing key that is < hi (None: the largest key)
    Down { hi: Option<u64> },
    /// not positioned on an element afterwards
    Invalid,
    /// the statement does not say: any started key or invalid
    Any,
}

pub struct Cursor<'a> {
    sh: &'a Shared,
    it: SkipListIterator<u64, u64>,
    pos: Pos,
    op: &'static str,
}

impl<'a> Cursor<'a> {
    pub fn new(sh: &'a Shared, op: &'static str) -> Self {
        Cursor { sh, it: sh.sl.iter(), pos: Pos::End, op }
    }

    /// Perform one movement and judge it.  `Ok(Some(k))`: now at key k; `Ok(None)`: not valid;
    /// `Err(())`: an oracle failed (already recorded).
    ///
    /// Admissible results, with C = keys whose insert returned before the movement began and
    /// S = keys whose insert started before it ended (C ⊆ present ⊆ S throughout):
    ///   Up(lo):   a key g ∈ S with g >= lo (> lo if strict) and g <= min{c ∈ C : c >= lo (> lo)};
    ///             "not valid" only if that minimum does not exist.
    ///   Down(hi): a key g ∈ S with g < hi and g >= max{c ∈ C : c < hi}; "not valid" only if that
    ///             maximum does not exist.
    fn mv(&mut self, m: Mv) -> Result<Option<u64>, ()> {
        let sh = self.sh;
        let c = sh.completed();
        sched::op_begin();
        match m {
            Mv::First => self.it.seek_to_first(),
            Mv::Last => self.it.seek_to_last(),
            Mv::Seek(k) => self.it.seek(&k),
            Mv::Next => self.it.next(),
            Mv::Prev => self.it.prev(),
        }
        let got = if self.it.is_valid() { Some((*self.it.key(), *self.it.value())) } else { None };
        let s = sh.started();
        sh.log.lock().unwrap().observations += 1;
        let want = match (m, self.pos) {
            (Mv::First, _) => Want::Up { lo: None, strict: false },
            (Mv::Last, _) => Want::Invalid,
            (Mv::Seek(k), _) => Want::Up { lo: Some(k), strict: false },
            (Mv::Next, Pos::At(p)) => Want::Up { lo: Some(p), strict: true },
            (Mv::Prev, Pos::At(p)) => Want::Down { hi: Some(p) },
            (Mv::Prev, Pos::End) => Want::Down { hi: None },
            (Mv::Next, Pos::End) | (Mv::Next, Pos::Before) | (Mv::Prev, Pos::Before) => Want::Any,
        };
        let from = self.pos;
        let op = self.op;
        let describe = |what: &str| {
            format!(
                "{op}: {m:?} from {from:?} {what}; completed before it began {}, started before it ended {}, all keys {:?}",
                sh.show(c),
                sh.show(s),
                sh.keys
            )
        };
        // every element returned must be a key of the case whose insert has started, with its value
        if let Some((g, v)) = got {
            match sh.bit(g) {
                None => {
                    sh.fail(&format!("{op}:phantom"), describe(&format!("landed on key {g} which nobody inserts")));
                    return Err(());
                }
                Some(b) if s & b == 0 => {
                    sh.fail(&format!("{op}:phantom"), describe(&format!("landed on key {g} whose insert has not started")));
                    return Err(());
                }
                _ => {}
            }
            if v != val(g) {
                sh.fail(&format!("{op}:value"), describe(&format!("key {g} carries value {v:#x}, expected {:#x}", val(g))));
                return Err(());
            }
        }
        let completed_keys = || sh.keys.iter().enumerate().filter(|(i, _)| c >> i & 1 == 1).map(|(_, k)| *k);
        match want {
            Want::Up { lo, strict } => {
                let ok_side = |x: u64| match lo {
                    None => true,
                    Some(l) => if strict { x > l } else { x >= l },
                };
                let limit = completed_keys().filter(|k| ok_side(*k)).min();
                match got {
                    Some((g, _)) => {
                        if !ok_side(g) {
                            sh.fail(&format!("{op}:order"), describe(&format!("landed on {g}, which is not forward of {lo:?}")));
                            return Err(());
                        }
                        if let Some(l) = limit {
                            if g > l {
                                sh.fail(&format!("{op}:missed"), describe(&format!("landed on {g}, skipping the completed key {l}")));
                                return Err(());
                            }
                        }
                    }
                    None => {
                        if let Some(l) = limit {
                            sh.fail(&format!("{op}:missed"), describe(&format!("ran off the end although the completed key {l} lies ahead")));
                            return Err(());
                        }
                    }
                }
            }
            Want::Down { hi } => {
                let ok_side = |x: u64| match hi {
                    None => true,
                    Some(h) => x < h,
                };
                let limit = completed_keys().filter(|k| ok_side(*k)).max();
                match got {
                    Some((g, _)) => {
                        if !ok_side(g) {
                            sh.fail(&format!("{op}:order"), describe(&format!("landed on {g}, which is not backward of {hi:?}")));
                            return Err(());
                        }
                        if let Some(l) = limit {
                            if g < l {
                                sh.fail(&format!("{op}:missed"), describe(&format!("landed on {g}, skipping the completed key {l}")));
                                return Err(());
                            }
                        }
                    }
                    None => {
                        if let Some(l) = limit {
                            sh.fail(&format!("{op}:missed"), describe(&format!("ran off the start although the completed key {l} lies behind")));
                            return Err(());
                        }
                    }
                }
            }
            Want::Invalid => {
                if let Some((g, _)) = got {
                    sh.fail(&format!("{op}:order"), describe(&format!("is positioned on {g} but must not be positioned")));
                    return Err(());
                }
            }
            Want::Any => {}
        }
        self.pos = match (got, m, from) {
            (Some((g, _)), _, _) => Pos::At(g),
            (None, Mv::Prev, Pos::At(_)) => Pos::Before,
            // prev() from the end of an empty list parks on the head node
            (None, Mv::Prev, Pos::End) => Pos::Before,
            (None, Mv::Prev, Pos::Before) => Pos::Before,
            (None, _, _) => Pos::End,
        };
        Ok(got.map(|(g, _)| g))
    }
}

/// Full forward iteration; returns the keys seen.
fn iterate_fwd(sh: &Shared, op: &'static str) -> Result<Vec<u64>, ()> {
    let c0 = sh.completed();
    let mut cur = Cursor::new(sh, op);
    let mut seen = vec![];
    let mut at = cur.mv(Mv::First)?;
    while let Some(k) = at {
        seen.push(k);
        if seen.len() > sh.keys.len() {
            sh.fail(&format!("{op}:order"), format!("{op}: iteration yields more elements than keys exist: {seen:?}"));
            return Err(());
        }
        at = cur.mv(Mv::Next)?;
    }
    let s1 = sh.started();
    aggregate(sh, op, c0, s1, &seen, true)?;
    Ok(seen)
}

fn iterate_bwd(sh: &Shared, op: &'static str) -> Result<Vec<u64>, ()> {
    let c0 = sh.completed();
    let mut cur = Cursor::new(sh, op);
    let mut seen = vec![];
    cur.mv(Mv::Last)?;
    let mut at = cur.mv(Mv::Prev)?;
    while let Some(k) = at {
        seen.push(k);
        if seen.len() > sh.keys.len() {
            sh.fail(&format!("{op}:order"), format!("{op}: iteration yields more elements than keys exist: {seen:?}"));
            return Err(());
        }
        at = cur.mv(Mv::Prev)?;
    }
    let s1 = sh.started();
    aggregate(sh, op, c0, s1, &seen, false)?;
    Ok(seen)
}

/// Oracle (a) on the whole iteration, independent of the per-step judgement.
fn aggregate(sh: &Shared, op: &str, c0: u64, s1: u64, seen: &[u64], ascending: bool) -> Result<(), ()> {
    for w in seen.windows(2) {
        let ok = if ascending { w[0] < w[1] } else { w[0] > w[1] };
        if !ok {
            sh.fail(&format!("{op}:order"), format!("{op}: iteration is not strictly {}: {seen:?}", if ascending { "increasing" } else { "decreasing" }));
            return Err(());
        }
    }
    let mut mask = 0u64;
    for k in seen {
        match sh.bit(*k) {
            Some(b) => mask |= b,
            None => {
                sh.fail(&format!("{op}:phantom"), format!("{op}: iteration yields {k}, which nobody inserts: {seen:?}"));
                return Err(());
            }
        }
    }
    if c0 & !mask != 0 {
        sh.fail(
            &format!("{op}:missed"),
            format!("{op}: iteration {seen:?} lacks {} whose inserts had returned before it began", sh.show(c0 & !mask)),
        );
        return Err(());
    }
    if mask & !s1 != 0 {
        sh.fail(
            &format!("{op}:phantom"),
            format!("{op}: iteration {seen:?} contains {} whose inserts had not started when it ended", sh.show(mask & !s1)),
        );
        return Err(());
    }
    Ok(())
}

fn check_contains(sh: &Shared, op: &'static str, k: u64) -> Result<(), ()> {
    let c = sh.completed();
    sched::op_begin();
    let r = sh.sl.contains(&k);
    let s = sh.started();
    sh.log.lock().unwrap().observations += 1;
    match sh.bit(k) {
        Some(b) => {
            if c & b != 0 && !r {
                sh.fail(&format!("{op}:missed"), format!("{op}: contains({k}) is false although its insert had returned before; completed {}", sh.show(c)));
                return Err(());
            }
            if s & b == 0 && r {
                sh.fail(&format!("{op}:phantom"), format!("{op}: contains({k}) is true although its insert has not started; started {}", sh.show(s)));
                return Err(());
            }
        }
        None => {
            if r {
                sh.fail(&format!("{op}:phantom"), format!("{op}: contains({k}) is true but nobody inserts {k}; keys {:?}", sh.keys));
                return Err(());
            }
        }
    }
    Ok(())
}

/// Keys worth probing: every key, its two neighbours, 0 and u64::MAX.
pub fn probes(keys: &[u64]) -> Vec<u64> {
    let mut p = vec![0, u64::MAX];
    for k in keys {
        p.push(*k);
        if *k > 0 {
            p.push(*k - 1);
        }
        if *k < u64::MAX {
            p.push(*k + 1);
        }
    }
    p.sort();
    p.dedup();
    p
}

fn reader_program(sh: &Shared, ops: &[ROp], probes: &[u64]) {
    for op in ops {
        let r = match op {
            ROp::Contains(i) => check_contains(sh, "contains", probes[sel(*i, probes.len())]),
            ROp::Fwd => iterate_fwd(sh, "fwd").map(|_| ()),
            ROp::Bwd => iterate_bwd(sh, "bwd").map(|_| ()),
            ROp::FwdThenBack { back } => (|| {
                let mut cur = Cursor::new(sh, "fwd-then-back");
                let mut at = cur.mv(Mv::First)?;
                let mut steps = 0;
                while at.is_some() {
                    steps += 1;
                    if steps > sh.keys.len() + 1 {
                        sh.fail("fwd-then-back:order", "iteration yields more elements than keys exist".to_string());
                        return Err(());
                    }
                    at = cur.mv(Mv::Next)?;
                }
                cur.op = "prev-after-end";
                for _ in 0..*back {
                    if cur.mv(Mv::Prev)?.is_none() {
                        break;
                    }
                }
                Ok(())
            })(),
            ROp::Seek { k, moves } => (|| {
                let mut cur = Cursor::new(sh, "seek");
                let mut at = cur.mv(Mv::Seek(probes[sel(*k, probes.len())]))?;
                for m in moves {
                    cur.op = if *m { "next" } else { "prev" };
                    let was_valid = at.is_some();
                    at = cur.mv(if *m { Mv::Next } else { Mv::Prev })?;
                    if !was_valid && at.is_none() {
                        break;
                    }
                }
                Ok(())
            })(),
        };
        if r.is_err() {
            return;
        }
    }
}

////////////////////////////////////////////// the case ////////////////////////////////////////////

pub fn family_name(f: Family) -> &'static str {
    match f {
        Family::Dense => "dense",
        Family::Ascending => "ascending",
        Family::Descending => "descending",
        Family::Interleaved => "interleaved",
        Family::Random => "random",
    }
}

pub fn run_case(c: &SkipCase) -> Outcome {
    let mut o = Outcome::pass();
    let plan = assign_keys(c);
    let mut keys: Vec<u64> = plan.iter().flatten().map(|(k, _)| *k).collect();
    keys.sort();
    let n_ins = plan.len();
    let n_read = c.readers.len().min(2).min(MAX_THREADS.saturating_sub(n_ins));
    let probe = Arc::new(probes(&keys));

    skipfree::verif::set_registry(true);
    let _ = skipfree::verif::take_use_after_free();
    let sh = Arc::new(Shared { sl: SkipList::default(), log: Mutex::new(Log::default()), keys: keys.clone() });

    let mut progs: Vec<sched::Prog> = vec![];
    for mine in plan.iter().cloned() {
        let sh = Arc::clone(&sh);
        progs.push(Box::new(move || {
            // heights are consumed from the back
            skipfree::verif::set_heights(Some(mine.iter().rev().map(|(_, h)| *h).collect()));
            for (k, h) in mine.iter() {
                let b = sh.bit(*k).unwrap();
                sched::op_begin();
                sh.log.lock().unwrap().started |= b;
                sh.sl.insert(*k, val(*k));
                let cas = sched::site_count(3);
                let mut l = sh.log.lock().unwrap();
                l.completed |= b;
                l.cas_retries += cas.saturating_sub(*h as u64);
            }
            skipfree::verif::set_heights(None);
        }));
    }
    for ops in c.readers.iter().take(n_read).cloned() {
        let sh = Arc::clone(&sh);
        let probe = Arc::clone(&probe);
        progs.push(Box::new(move || reader_program(&sh, &ops, &probe)));
    }
    let rr = sched::run(progs, &c.schedule, OP_BUDGET, Duration::from_secs(30));

    let max_h = plan.iter().flatten().map(|(_, h)| *h).max().unwrap_or(1) as u64;
    let (retries, observations) = {
        let l = sh.log.lock().unwrap();
        (l.cas_retries, l.observations)
    };
    o.nontrivial = retries >= 1;
    o.label(format!("family={}", family_name(c.family)));
    o.label(format!("threads={}i+{}r", n_ins, n_read));
    o.label(format!("switches={}", sched::bucket(rr.switches, &[0, 9, 49, 199])));
    o.label(format!("cas_retries={}", sched::bucket(retries, &[0, 1, 3, 9])));
    o.label(format!("max_height={}", sched::bucket(max_h, &[1, 3, 7])));
    o.label(format!("schedule={}", if rr.sched_used >= rr.sched_len { "exhausted" } else { "outlasted-run" }));
    o.label(format!("observations={}", sched::bucket(observations, &[0, 9, 29])));

    if let Some(e) = rr.harness_error.as_ref() {
        o.inconclusive = true;
        o.label(format!("harness-error: {e}"));
        return o;
    }
    if rr.timed_out {
        o.inconclusive = true;
        o.label("watchdog");
        if rr.leaked {
            std::mem::forget(sh);
        }
        return o;
    }
    if let Some((slot, f)) = rr.panics.first() {
        o.fail(f.signature.clone(), format!("thread {slot} ({}) panicked: {} [after {} steps, {} context switches]", if *slot < n_ins { "inserter" } else { "reader" }, f.message, rr.steps, rr.switches));
        return o;
    }
    if let Some(slot) = rr.stuck {
        let who = if slot < n_ins { "insert" } else { "read" };
        o.fail(
            format!("no-progress:{who}"),
            format!("thread {slot}: one {who} operation executed more than {OP_BUDGET} atomic operations without returning (list of {} keys) [after {} steps, {} context switches]", keys.len(), rr.steps, rr.switches),
        );
        return o;
    }
    if let Some((sig, msg)) = sh.log.lock().unwrap().fails.first().cloned() {
        o.fail(sig, msg);
        return o;
    }

    // (d) quiescent state: everything is there, in both directions, with its value.
    let all = (1u64 << keys.len()) - 1;
    debug_assert_eq!(sh.completed(), all);
    let fin = (|| {
        let f = iterate_fwd(&sh, "final-fwd")?;
        if f != keys {
            sh.fail("final-fwd:missed", format!("final forward iteration {f:?} differs from the inserted keys {keys:?}"));
            return Err(());
        }
        let b = iterate_bwd(&sh, "final-bwd")?;
        let mut rev = keys.clone();
        rev.reverse();
        if b != rev {
            sh.fail("final-bwd:missed", format!("final backward iteration {b:?} differs from the inserted keys reversed {rev:?}"));
            return Err(());
        }
        for p in probe.iter() {
            check_contains(&sh, "final-contains", *p)?;
        }
        for p in probe.iter() {
            let mut cur = Cursor::new(&sh, "final-seek");
            cur.mv(Mv::Seek(*p))?;
            cur.op = "final-next";
            cur.mv(Mv::Next)?;
            cur.op = "final-prev";
            cur.mv(Mv::Prev)?;
            cur.mv(Mv::Prev)?;
        }
        Ok(())
    })();
    if fin.is_err() {
        let (sig, msg) = sh.log.lock().unwrap().fails.first().cloned().unwrap();
        o.fail(sig, msg);
        return o;
    }
    if skipfree::verif::take_use_after_free() {
        o.fail("use-after-free:live", "a freed node was dereferenced while the list was alive".to_string());
        return o;
    }

    // (e) an iterator outlives the list handle.
    let Shared { sl, .. } = match Arc::try_unwrap(sh) {
        Ok(s) => s,
        Err(_) => {
            o.inconclusive = true;
            o.label("harness-error: list still shared after the run");
            return o;
        }
    };
    let start = sel(c.hold, keys.len() + 1);
    let mut it = sl.iter();
    if start == keys.len() {
        it.seek_to_first();
    } else {
        it.seek(&keys[start]);
    }
    let mut back = sl.iter();
    back.seek_to_last();
    let expect: Vec<u64> = if start == keys.len() { keys.clone() } else { keys[start..].to_vec() };
    drop(sl);
    if let Some((sig, msg)) = held(&mut it, &mut back, &expect, &keys) {
        o.fail(sig, msg);
        // the iterators may point into freed memory: do not run their destructors
        std::mem::forget(it);
        std::mem::forget(back);
        return o;
    }
    drop(it);
    drop(back);
    if skipfree::verif::take_use_after_free() {
        o.fail("use-after-free:drop", "a freed node was dereferenced while the last iterator was dropped".to_string());
    }
    o
}

fn held(it: &mut SkipListIterator<u64, u64>, back: &mut SkipListIterator<u64, u64>, expect: &[u64], keys: &[u64]) -> Option<(String, String)> {
    let uaf = |what: &str| -> Option<(String, String)> {
        if skipfree::verif::take_use_after_free() {
            Some(("held-iterator:use-after-free".to_string(), format!("an iterator held across the drop of its SkipList dereferenced a freed node in {what}")))
        } else {
            None
        }
    };
    if let Some(f) = uaf("drop(list)") {
        return Some(f);
    }
    let mut seen = vec![];
    while it.is_valid() {
        let k = *it.key();
        if let Some(f) = uaf("key()") {
            return Some(f);
        }
        let v = *it.value();
        if let Some(f) = uaf("value()") {
            return Some(f);
        }
        if v != val(k) {
            return Some(("held-iterator:value".to_string(), format!("held iterator: key {k} carries value {v:#x}")));
        }
        seen.push(k);
        if seen.len() > keys.len() {
            break;
        }
        it.next();
        if let Some(f) = uaf("next()") {
            return Some(f);
        }
    }
    if seen != expect {
        return Some(("held-iterator:missed".to_string(), format!("an iterator held across the drop of its SkipList yields {seen:?}, expected {expect:?}")));
    }
    let mut seen = vec![];
    back.prev();
    if let Some(f) = uaf("prev()") {
        return Some(f);
    }
    while back.is_valid() {
        let k = *back.key();
        if let Some(f) = uaf("key()") {
            return Some(f);
        }
        seen.push(k);
        if seen.len() > keys.len() {
            break;
        }
        back.prev();
        if let Some(f) = uaf("prev()") {
            return Some(f);
        }
    }
    let mut rev = keys.to_vec();
    rev.reverse();
    if seen != rev {
        return Some(("held-iterator:missed".to_string(), format!("a backward iterator held across the drop of its SkipList yields {seen:?}, expected {rev:?}")));
    }
    None
}

pub struct SkipTokens;

impl Property for SkipTokens {
    type Case = SkipCase;
    fn name(&self) -> String {
        "skiplist-token-schedules".into()
    }
    fn cases(&self, tier: Tier) -> u64 {
        tier.pick(20_000, 300_000)
    }
    fn strategy(&self, _ctx: &Ctx) -> BoxedStrategy<SkipCase> {
        strategy().boxed()
    }
    fn max_shrink_iters(&self) -> u32 {
        6000
    }
    fn record_current(&self) -> bool {
        true
    }
    fn run(&self, _ctx: &Ctx, c: &SkipCase) -> Outcome {
        crate::install_hooks();
        run_case(c)
    }
}
