//! Real-thread stress: the same workloads without the token, on real cores, for the memory-ordering
//! behaviour the sequentially consistent token scheduler cannot show.
//!
//! Writer w inserts its keys in a fixed order and publishes two counters with Release stores:
//! `started[w] = j+1` before insert j, `completed[w] = j+1` after it returned.  A reader takes an
//! Acquire snapshot of every `completed` counter BEFORE an observation and of every `started`
//! counter AFTER it, so "completed before it began ⊆ seen ⊆ started before it ended" is decided
//! without any clock.

use std::collections::HashMap;
use std::sync::Arc;
use std::sync::Mutex;
use std::sync::atomic::{AtomicBool, AtomicUsize, Ordering};

use proptest::prelude::*;
use serde::{Deserialize, Serialize};
use skipfree::SkipList;
use vcore::{Ctx, Outcome, Property, Tier, mix};

use crate::skip::val;

#[derive(Clone, Copy, Debug, PartialEq, Eq, Serialize, Deserialize)]
pub enum Layout {
    /// writer w owns the block [w*n, (w+1)*n)
    Partitioned,
    /// key = j*W + w: neighbours belong to different writers
    Interleaved,
    /// a bijective scramble of the interleaved keys over all of u64
    Scattered,
}

#[derive(Clone, Copy, Debug, PartialEq, Eq, Serialize, Deserialize)]
pub enum Target {
    Skip,
    List,
}

#[derive(Clone, Debug, PartialEq, Eq, Serialize, Deserialize)]
pub struct StressCase {
    pub target: Target,
    pub writers: u8,
    pub readers: u8,
    /// keys per writer
    pub per_writer: u16,
    pub layout: Layout,
    /// odd writers insert their keys in descending order
    pub odd_descending: bool,
    /// source of the tower heights and of the readers' probe positions
    pub seed: u64,
}

pub fn strategy() -> impl Strategy<Value = StressCase> {
    (
        prop_oneof![4 => Just(Target::Skip), 1 => Just(Target::List)],
        2u8..=8,
        1u8..=4,
        prop_oneof![2 => 1u16..40, 3 => 40u16..1250, 1 => Just(1250u16)],
        prop_oneof![Just(Layout::Partitioned), Just(Layout::Interleaved), Just(Layout::Scattered)],
        any::<bool>(),
        any::<u64>(),
    )
        .prop_map(|(target, writers, readers, per_writer, layout, odd_descending, seed)| StressCase {
            target,
            writers,
            readers,
            per_writer,
            layout,
            odd_descending,
            seed,
        })
}

fn key_of(c: &StressCase, w: usize, j: usize) -> u64 {
    let n = c.per_writer as usize;
    let wn = c.writers as usize;
    let jj = if c.odd_descending && w & 1 == 1 { n - 1 - j } else { j };
    match c.layout {
        Layout::Partitioned => (w * n + jj) as u64,
        Layout::Interleaved => (jj * wn + w) as u64,
        Layout::Scattered => mix((jj * wn + w) as u64),
    }
}

fn height_of(seed: u64, w: usize, j: usize) -> usize {
    let mut x = mix(seed ^ mix(((w as u64) << 32) | j as u64));
    let mut h = 1;
    while h < 12 && x & 3 == 0 {
        h += 1;
        x >>= 2;
    }
    h
}

struct Board {
    started: Vec<AtomicUsize>,
    completed: Vec<AtomicUsize>,
    writers_done: AtomicUsize,
    stop: AtomicBool,
    fails: Mutex<Vec<(String, String)>>,
    observations: AtomicUsize,
    /// observations that ran while at least one writer was still inserting and saw a strict
    /// subset of the keys
    concurrent: AtomicUsize,
    finished: Mutex<usize>,
    finished_cv: std::sync::Condvar,
}

/// Set once a stress case had to abandon threads that never came back: the remaining stress
/// cases of this process are skipped (inconclusive), the abandoned threads die with the process.
static ABANDONED: AtomicBool = AtomicBool::new(false);
const CASE_BUDGET: std::time::Duration = std::time::Duration::from_secs(60);

fn new_board(wn: usize) -> Board {
    Board {
        started: (0..wn).map(|_| AtomicUsize::new(0)).collect(),
        completed: (0..wn).map(|_| AtomicUsize::new(0)).collect(),
        writers_done: AtomicUsize::new(0),
        stop: AtomicBool::new(false),
        fails: Mutex::new(vec![]),
        observations: AtomicUsize::new(0),
        concurrent: AtomicUsize::new(0),
        finished: Mutex::new(0),
        finished_cv: std::sync::Condvar::new(),
    }
}

/// Wait for the case's threads; false if they did not all come back within the budget (they are
/// then abandoned: real threads stuck inside the code under test cannot be stopped).
fn collect(bd: &Board, hs: Vec<std::thread::JoinHandle<()>>) -> bool {
    let n = hs.len();
    let t0 = std::time::Instant::now();
    let mut g = bd.finished.lock().unwrap();
    while *g < n {
        let Some(left) = CASE_BUDGET.checked_sub(t0.elapsed()) else { break };
        let (ng, _) = bd.finished_cv.wait_timeout(g, left.min(std::time::Duration::from_millis(200))).unwrap();
        g = ng;
    }
    if *g < n {
        bd.stop.store(true, Ordering::SeqCst);
        let t1 = std::time::Instant::now();
        while *g < n && t1.elapsed() < std::time::Duration::from_secs(3) {
            let (ng, _) = bd.finished_cv.wait_timeout(g, std::time::Duration::from_millis(100)).unwrap();
            g = ng;
        }
    }
    let ok = *g >= n;
    drop(g);
    if ok {
        for h in hs {
            let _ = h.join();
        }
    } else {
        ABANDONED.store(true, Ordering::SeqCst);
    }
    ok
}

fn timed_out(mut o: Outcome) -> Outcome {
    o.inconclusive = true;
    o.label(format!("threads did not return within {}s; abandoned", CASE_BUDGET.as_secs()));
    o
}

impl Board {
    fn fail(&self, sig: &str, msg: String) {
        self.fails.lock().unwrap().push((sig.to_string(), msg));
        self.stop.store(true, Ordering::SeqCst);
    }
    fn snap(v: &[AtomicUsize]) -> Vec<usize> {
        v.iter().map(|a| a.load(Ordering::Acquire)).collect()
    }
}

fn run_skip(c: &StressCase) -> Outcome {
    let wn = c.writers as usize;
    let n = c.per_writer as usize;
    let total = wn * n;
    let mut owner: HashMap<u64, (u32, u32)> = HashMap::with_capacity(total);
    for w in 0..wn {
        for j in 0..n {
            owner.insert(key_of(c, w, j), (w as u32, j as u32));
        }
    }
    let mut o = Outcome::pass();
    if owner.len() != total {
        o.inconclusive = true;
        o.label("harness-error: keys not distinct");
        return o;
    }
    let owner = Arc::new(owner);
    let sl: Arc<SkipList<u64, u64>> = Arc::new(SkipList::default());
    let bd = Arc::new(new_board(wn));
    let gate = Arc::new(std::sync::Barrier::new(wn + c.readers as usize));
    let mut hs = vec![];
    for w in 0..wn {
        let (sl, bd, gate, c) = (Arc::clone(&sl), Arc::clone(&bd), Arc::clone(&gate), c.clone());
        hs.push(std::thread::spawn(move || {
            let r = vcore::guard(|| {
                skipfree::verif::set_heights(Some((0..n).rev().map(|j| height_of(c.seed, w, j)).collect()));
                gate.wait();
                for j in 0..n {
                    if bd.stop.load(Ordering::Relaxed) {
                        break;
                    }
                    let k = key_of(&c, w, j);
                    bd.started[w].store(j + 1, Ordering::Release);
                    sl.insert(k, val(k));
                    bd.completed[w].store(j + 1, Ordering::Release);
                }
                skipfree::verif::set_heights(None);
            });
            if let Err(f) = r {
                bd.fail(&f.signature, format!("writer {w} panicked: {}", f.message));
            }
            bd.writers_done.fetch_add(1, Ordering::SeqCst);
            *bd.finished.lock().unwrap() += 1;
            bd.finished_cv.notify_all();
        }));
    }
    for r in 0..c.readers as usize {
        let (sl, bd, gate, c, owner) = (Arc::clone(&sl), Arc::clone(&bd), Arc::clone(&gate), c.clone(), Arc::clone(&owner));
        hs.push(std::thread::spawn(move || {
            let res = vcore::guard(|| {
                gate.wait();
                let mut round = 0u64;
                loop {
                    let done = bd.writers_done.load(Ordering::SeqCst) == wn;
                    observe_skip(&c, &sl, &bd, &owner, r, round);
                    round += 1;
                    if done || bd.stop.load(Ordering::Relaxed) {
                        break;
                    }
                }
            });
            if let Err(f) = res {
                bd.fail(&f.signature, format!("reader {r} panicked: {}", f.message));
            }
            *bd.finished.lock().unwrap() += 1;
            bd.finished_cv.notify_all();
        }));
    }
    if !collect(&bd, hs) {
        return timed_out(o);
    }
    o.label(format!("skip:layout={:?}", c.layout));
    o.label(format!("skip:writers={}", c.writers));
    let conc = bd.concurrent.load(Ordering::SeqCst);
    o.label(format!("skip:concurrent_observations={}", crate::sched::bucket(conc as u64, &[0, 9, 99])));
    o.nontrivial = conc >= 1;
    if let Some((sig, msg)) = bd.fails.lock().unwrap().first().cloned() {
        o.fail(sig, msg);
        return o;
    }
    // (d) quiescent state
    let mut want: Vec<u64> = owner.keys().copied().collect();
    want.sort();
    let mut it = sl.iter();
    it.seek_to_first();
    let mut got = Vec::with_capacity(total);
    while it.is_valid() && got.len() <= total {
        if *it.value() != val(*it.key()) {
            o.fail("stress-final:value", format!("key {} carries value {:#x}", it.key(), it.value()));
            return o;
        }
        got.push(*it.key());
        it.next();
    }
    if got != want {
        let missing: Vec<u64> = want.iter().filter(|k| got.binary_search(k).is_err()).take(8).copied().collect();
        o.fail("stress-final:missed", format!("after all {total} inserts returned the forward iteration has {} keys; first missing {missing:?}", got.len()));
        return o;
    }
    let mut it = sl.iter();
    it.seek_to_last();
    it.prev();
    let mut got = Vec::with_capacity(total);
    while it.is_valid() && got.len() <= total {
        got.push(*it.key());
        it.prev();
    }
    got.reverse();
    if got != want {
        o.fail("stress-final:missed", format!("after all {total} inserts returned the backward iteration has {} keys", got.len()));
        return o;
    }
    for k in want.iter() {
        if !sl.contains(k) {
            o.fail("stress-final:missed", format!("after all inserts returned contains({k}) is false"));
            return o;
        }
    }
    o
}

fn observe_skip(c: &StressCase, sl: &SkipList<u64, u64>, bd: &Board, owner: &HashMap<u64, (u32, u32)>, r: usize, round: u64) {
    let wn = c.writers as usize;
    let n = c.per_writer as usize;
    let total = wn * n;
    let before = Board::snap(&bd.completed);
    let mode = (round + r as u64) & 3;
    bd.observations.fetch_add(1, Ordering::Relaxed);
    match mode {
        0 | 1 => {
            let fwd = mode == 0;
            let what = if fwd { "stress-fwd" } else { "stress-bwd" };
            let mut it = sl.iter();
            if fwd {
                it.seek_to_first();
            } else {
                it.seek_to_last();
                it.prev();
            }
            let mut seen: Vec<u64> = Vec::with_capacity(total);
            while it.is_valid() {
                let k = *it.key();
                if *it.value() != val(k) {
                    bd.fail(&format!("{what}:value"), format!("reader {r}: key {k} carries value {:#x}", it.value()));
                    return;
                }
                if let Some(l) = seen.last() {
                    if (fwd && *l >= k) || (!fwd && *l <= k) {
                        bd.fail(&format!("{what}:order"), format!("reader {r}: iteration not strictly monotone: … {l}, {k}"));
                        return;
                    }
                }
                seen.push(k);
                if seen.len() > total {
                    bd.fail(&format!("{what}:order"), format!("reader {r}: iteration yields more than {total} keys"));
                    return;
                }
                if fwd { it.next() } else { it.prev() }
            }
            if fwd {
                // the same iterator, off the end: one step back must reach the greatest key whose
                // insert had returned before that step began (an append may have completed since the
                // iteration ran off the end)
                let done = Board::snap(&bd.completed);
                let top = (0..wn).flat_map(|w| (0..done[w]).map(move |j| (w, j))).map(|(w, j)| key_of(c, w, j)).max();
                it.prev();
                let landed = if it.is_valid() { Some(*it.key()) } else { None };
                if let Some(t) = top {
                    match landed {
                        Some(g) if g >= t => {}
                        other => {
                            bd.fail("stress-prev-after-end:missed", format!("reader {r}: prev() from the end of a forward iteration landed on {other:?} although the insert of {t} had returned before"));
                            return;
                        }
                    }
                }
            }
            let after = Board::snap(&bd.started);
            let mut count = vec![0usize; wn];
            for k in seen.iter() {
                match owner.get(k) {
                    None => {
                        bd.fail(&format!("{what}:phantom"), format!("reader {r}: iteration yields {k}, which nobody inserts"));
                        return;
                    }
                    Some((w, j)) => {
                        let (w, j) = (*w as usize, *j as usize);
                        if j >= after[w] {
                            bd.fail(&format!("{what}:phantom"), format!("reader {r}: iteration yields {k} (writer {w} #{j}) but that writer had only started {} inserts when the iteration ended", after[w]));
                            return;
                        }
                        if j < before[w] {
                            count[w] += 1;
                        }
                    }
                }
            }
            for w in 0..wn {
                if count[w] != before[w] {
                    let have: std::collections::HashSet<u64> = seen.iter().copied().collect();
                    let missing: Vec<u64> = (0..before[w]).map(|j| key_of(c, w, j)).filter(|k| !have.contains(k)).take(6).collect();
                    bd.fail(&format!("{what}:missed"), format!("reader {r}: iteration of {} keys lacks {} of writer {w}'s {} inserts that had returned before it began, e.g. {missing:?}", seen.len(), before[w] - count[w], before[w]));
                    return;
                }
            }
            if seen.len() < total && !seen.is_empty() {
                bd.concurrent.fetch_add(1, Ordering::Relaxed);
            }
        }
        2 => {
            // contains on sampled positions
            let mut res = vec![];
            for i in 0..48u64 {
                let x = mix(c.seed ^ mix(round << 20 ^ (r as u64) << 8 ^ i));
                let w = ((x >> 32) as usize * wn) >> 32;
                let j = (((x & 0xffff_ffff) as usize) * n) >> 32;
                let k = key_of(c, w, j);
                res.push((w, j, k, sl.contains(&k)));
                // a neighbour that may or may not be a key
                let k2 = k.wrapping_add(1);
                if !owner.contains_key(&k2) && sl.contains(&k2) {
                    bd.fail("stress-contains:phantom", format!("reader {r}: contains({k2}) is true but nobody inserts it"));
                    return;
                }
            }
            let after = Board::snap(&bd.started);
            for (w, j, k, found) in res {
                if j < before[w] && !found {
                    bd.fail("stress-contains:missed", format!("reader {r}: contains({k}) is false although writer {w}'s insert #{j} had returned before ({} completed)", before[w]));
                    return;
                }
                if j >= after[w] && found {
                    bd.fail("stress-contains:phantom", format!("reader {r}: contains({k}) is true although writer {w} had started only {} inserts afterwards", after[w]));
                    return;
                }
            }
        }
        _ => {
            // seek to sampled keys, then a few steps in both directions
            for i in 0..24u64 {
                let x = mix(c.seed ^ mix(round << 20 ^ (r as u64) << 8 ^ i ^ 0x5eed));
                let w = ((x >> 32) as usize * wn) >> 32;
                let j = (((x & 0xffff_ffff) as usize) * n) >> 32;
                let k = key_of(c, w, j);
                let mut it = sl.iter();
                it.seek(&k);
                let landed = if it.is_valid() { Some(*it.key()) } else { None };
                if let Some(g) = landed {
                    if g < k || !owner.contains_key(&g) {
                        bd.fail("stress-seek:order", format!("reader {r}: seek({k}) landed on {g}"));
                        return;
                    }
                }
                if j < before[w] && landed != Some(k) {
                    bd.fail("stress-seek:missed", format!("reader {r}: seek({k}) landed on {landed:?} although the insert of {k} had returned before"));
                    return;
                }
                if let Some(mut p) = landed {
                    for _ in 0..3 {
                        it.next();
                        if !it.is_valid() {
                            break;
                        }
                        let g = *it.key();
                        if g <= p {
                            bd.fail("stress-next:order", format!("reader {r}: next() moved from {p} to {g}"));
                            return;
                        }
                        p = g;
                    }
                    if it.is_valid() {
                        for _ in 0..3 {
                            it.prev();
                            if !it.is_valid() {
                                break;
                            }
                            let g = *it.key();
                            if g >= p {
                                bd.fail("stress-prev:order", format!("reader {r}: prev() moved from {p} to {g}"));
                                return;
                            }
                            p = g;
                        }
                    }
                }
            }
        }
    }
}

fn run_list(c: &StressCase) -> Outcome {
    let wn = c.writers as usize;
    let n = c.per_writer as usize;
    let total = wn * n;
    let list: Arc<listfree::List<u64>> = Arc::new(listfree::List::default());
    let bd = Arc::new(new_board(wn));
    let gate = Arc::new(std::sync::Barrier::new(wn + c.readers as usize));
    let mut hs = vec![];
    for w in 0..wn {
        let (list, bd, gate) = (Arc::clone(&list), Arc::clone(&bd), Arc::clone(&gate));
        hs.push(std::thread::spawn(move || {
            let r = vcore::guard(|| {
                gate.wait();
                for j in 0..n {
                    if bd.stop.load(Ordering::Relaxed) {
                        break;
                    }
                    bd.started[w].store(j + 1, Ordering::Release);
                    list.prepend(((w as u64) << 32) | j as u64);
                    bd.completed[w].store(j + 1, Ordering::Release);
                }
            });
            if let Err(f) = r {
                bd.fail(&f.signature, format!("writer {w} panicked: {}", f.message));
            }
            bd.writers_done.fetch_add(1, Ordering::SeqCst);
            *bd.finished.lock().unwrap() += 1;
            bd.finished_cv.notify_all();
        }));
    }
    // An iteration must show, for every writer, exactly its elements m-1, m-2, …, 0 in that order,
    // with completed-before <= m <= started-after.
    fn check(bd: &Board, who: &str, seen: &[u64], wn: usize, before: &[usize], after: &[usize]) -> bool {
        let mut next: Vec<Option<usize>> = vec![None; wn];
        let mut first: Vec<usize> = vec![0; wn];
        for e in seen {
            let (w, j) = ((e >> 32) as usize, (e & 0xffff_ffff) as usize);
            if w >= wn {
                bd.fail("stress-list:phantom", format!("{who}: element {e:#x} was never prepended"));
                return false;
            }
            match next[w] {
                None => {
                    first[w] = j + 1;
                    next[w] = Some(j);
                }
                Some(x) if x == j + 1 => next[w] = Some(j),
                Some(x) => {
                    bd.fail("stress-list:order", format!("{who}: writer {w}'s element #{j} follows its #{x} (must be newest first, each exactly once)"));
                    return false;
                }
            }
        }
        for w in 0..wn {
            if let Some(x) = next[w] {
                if x != 0 {
                    bd.fail("stress-list:missed", format!("{who}: writer {w}'s elements stop at #{x}, older ones are missing"));
                    return false;
                }
            }
            if first[w] < before[w] {
                bd.fail("stress-list:missed", format!("{who}: sees {} of writer {w}'s elements although {} prepends had returned before it began", first[w], before[w]));
                return false;
            }
            if first[w] > after[w] {
                bd.fail("stress-list:phantom", format!("{who}: sees {} of writer {w}'s elements although only {} prepends had started when it ended", first[w], after[w]));
                return false;
            }
        }
        true
    }
    for r in 0..c.readers as usize {
        let (list, bd, gate) = (Arc::clone(&list), Arc::clone(&bd), Arc::clone(&gate));
        hs.push(std::thread::spawn(move || {
            let res = vcore::guard(|| {
                gate.wait();
                loop {
                    let done = bd.writers_done.load(Ordering::SeqCst) == wn;
                    let before = Board::snap(&bd.completed);
                    let seen: Vec<u64> = list.iter().copied().take(total + 1).collect();
                    let after = Board::snap(&bd.started);
                    bd.observations.fetch_add(1, Ordering::Relaxed);
                    if seen.len() > total {
                        bd.fail("stress-list:duplicate", format!("reader {r}: iteration yields more than the {total} elements ever prepended"));
                        break;
                    }
                    if !check(&bd, &format!("reader {r}"), &seen, wn, &before, &after) {
                        break;
                    }
                    if !seen.is_empty() && seen.len() < total {
                        bd.concurrent.fetch_add(1, Ordering::Relaxed);
                    }
                    if done || bd.stop.load(Ordering::Relaxed) {
                        break;
                    }
                }
            });
            if let Err(f) = res {
                bd.fail(&f.signature, format!("reader {r} panicked: {}", f.message));
            }
            *bd.finished.lock().unwrap() += 1;
            bd.finished_cv.notify_all();
        }));
    }
    let mut o = Outcome::pass();
    if !collect(&bd, hs) {
        return timed_out(o);
    }
    o.label(format!("list:writers={}", c.writers));
    let conc = bd.concurrent.load(Ordering::SeqCst);
    o.label(format!("list:concurrent_observations={}", crate::sched::bucket(conc as u64, &[0, 9, 99])));
    o.nontrivial = conc >= 1;
    if let Some((sig, msg)) = bd.fails.lock().unwrap().first().cloned() {
        o.fail(sig, msg);
        return o;
    }
    let seen: Vec<u64> = list.iter().copied().take(total + 1).collect();
    let full = vec![n; wn];
    if seen.len() != total || !check(&bd, "final iteration", &seen, wn, &full, &full) {
        let f = bd.fails.lock().unwrap().first().cloned();
        let (sig, msg) = f.unwrap_or(("stress-list:missed".to_string(), format!("final iteration has {} of {total} elements", seen.len())));
        o.fail(sig, msg);
    }
    o
}

pub struct Stress;

impl Property for Stress {
    type Case = StressCase;
    fn name(&self) -> String {
        "real-thread-stress".into()
    }
    fn cases(&self, tier: Tier) -> u64 {
        tier.pick(60, 1_500)
    }
    fn strategy(&self, _ctx: &Ctx) -> BoxedStrategy<StressCase> {
        strategy().boxed()
    }
    fn max_shrink_iters(&self) -> u32 {
        64
    }
    fn record_current(&self) -> bool {
        true
    }
    fn run(&self, ctx: &Ctx, c: &StressCase) -> Outcome {
        crate::uninstall_hooks();
        if ABANDONED.load(Ordering::SeqCst) {
            let mut o = Outcome::pass();
            o.inconclusive = true;
            o.label("skipped: an earlier case of this process abandoned stuck threads");
            return o;
        }
        // The OS owns these schedules: a saved case is re-run several times.
        let runs = if ctx.replay || ctx.strict { 40 } else { 1 };
        let mut last = Outcome::pass();
        for _ in 0..runs {
            last = match c.target {
                Target::Skip => run_skip(c),
                Target::List => run_list(c),
            };
            if last.failed() || last.inconclusive {
                break;
            }
        }
        last
    }
}
