//! Damage to one fragment of a manifest that has ROLLED OVER: the directory holds the backups
//! `MANIFEST.1 .. MANIFEST.n` and the live `MANIFEST`.  One fragment (mostly a backup) is damaged;
//! the readers of that fragment (`ManifestIterator`, `Manifest::verify` over the directory) must
//! detect the damage or return the pristine content, and `Manifest::open` - which reads the live
//! file only - must be unaffected by damage to a backup.

use std::collections::BTreeSet;
use std::path::PathBuf;

use proptest::prelude::*;
use serde::{Deserialize, Serialize};

use vcore::{Ctx, Outcome, Tier};

use crate::alloc;
use crate::damage::{self, Dmg};
use crate::engine::Target;
use crate::formats::{self, ManiLayout};
use crate::manipart::{self, State, Txn};
use crate::sstpart::HUGE;

#[derive(Clone, Debug, Serialize, Deserialize)]
pub struct Step {
    pub txn: Txn,
    /// call `Manifest::rollover()` after applying the edit (the writer also rolls over by itself
    /// when the file outgrows `log_rollover_ratio` x the state)
    pub roll: bool,
}

#[derive(Clone, Debug, Serialize, Deserialize)]
pub struct BackupSpec {
    pub steps: Vec<Step>,
    /// damage the live MANIFEST (with pristine backups beside it) instead of a backup
    pub live: bool,
    /// which backup (selector over MANIFEST.1 .. MANIFEST.n in order)
    pub victim: u16,
}

pub struct BackupPristine {
    pub dir: PathBuf,
    /// (file name, bytes) in chain order: backups by index, then the live file
    pub fragments: Vec<(String, Vec<u8>)>,
    pub victim: usize,
    pub layout: ManiLayout,
    pub edits: Vec<Txn>,
    pub items: BTreeSet<String>,
    /// what `Manifest::open` holds for the pristine directory
    pub live_state: (State, u64),
}

fn backup_index(name: &str) -> Option<u64> {
    name.strip_prefix("MANIFEST.").and_then(|n| n.parse::<u64>().ok())
}

pub struct BackupDamage;

impl BackupDamage {
    /// A fresh directory `dir/d` holding the fragments, the victim replaced by `victim_bytes`.
    fn lay_out(&self, p: &BackupPristine, victim_bytes: &[u8]) -> (PathBuf, PathBuf) {
        let d = p.dir.join("d");
        let _ = std::fs::remove_dir_all(&d);
        std::fs::create_dir_all(&d).expect("backup dir");
        for (i, (name, bytes)) in p.fragments.iter().enumerate() {
            std::fs::write(d.join(name), if i == p.victim { victim_bytes } else { bytes.as_slice() }).expect("write fragment");
        }
        let path = d.join(&p.fragments[p.victim].0);
        (d, path)
    }
}

impl Target for BackupDamage {
    type Spec = BackupSpec;
    type Pristine = BackupPristine;

    fn name(&self) -> String {
        "manifest-backup-damage".into()
    }
    fn files(&self, tier: Tier) -> u64 {
        tier.pick(300, 4_000)
    }
    fn plans_per_file(&self, tier: Tier) -> u64 {
        tier.pick(30, 50)
    }
    fn spec_strategy(&self, _: Tier) -> BoxedStrategy<BackupSpec> {
        let step = (manipart::txn_strategy(), prop::bool::weighted(0.35)).prop_map(|(txn, roll)| Step { txn, roll });
        (prop::collection::vec(step, 2..9), prop::bool::weighted(0.2), any::<u16>()).prop_map(|(steps, live, victim)| BackupSpec { steps, live, victim }).boxed()
    }
    fn plan_strategy(&self) -> BoxedStrategy<Vec<Dmg>> {
        damage::plan_strategy(formats::MANI_CLASSES.iter().map(|c| (*c, if *c == "payload" || *c == "crc" { 2 } else { 1 })).collect())
    }

    fn build(&self, ctx: &Ctx, spec: &BackupSpec) -> Result<BackupPristine, String> {
        let dir = ctx.scratch.join("c09-mani-backup");
        let build = dir.join("build");
        let _ = std::fs::remove_dir_all(&build);
        std::fs::create_dir_all(&dir).map_err(|e| format!("mkdir:{e}"))?;
        {
            let mut m = mani::Manifest::open(mani::ManifestOptions::default(), &build).map_err(|e| format!("open:{}", manipart::short(&e)))?;
            for s in spec.steps.iter() {
                m.apply(manipart::to_edit(&s.txn)).map_err(|e| format!("apply:{}", manipart::short(&e)))?;
                if s.roll {
                    m.rollover().map_err(|e| format!("rollover:{}", manipart::short(&e)))?;
                }
            }
        }
        let mut backups: Vec<(u64, String, Vec<u8>)> = vec![];
        let mut live = None;
        for e in std::fs::read_dir(&build).map_err(|e| format!("read_dir:{e}"))?.flatten() {
            let name = e.file_name().to_string_lossy().to_string();
            if name == "MANIFEST" {
                live = Some(std::fs::read(e.path()).map_err(|e| format!("read:{e}"))?);
            } else if let Some(i) = backup_index(&name) {
                backups.push((i, name, std::fs::read(e.path()).map_err(|e| format!("read:{e}"))?));
            }
        }
        let _ = std::fs::remove_dir_all(&build);
        backups.sort();
        let live = live.ok_or("no-live-manifest")?;
        if backups.is_empty() {
            return Err("no-backup(never-rolled-over)".into());
        }
        let nb = backups.len();
        let mut fragments: Vec<(String, Vec<u8>)> = backups.into_iter().map(|(_, n, b)| (n, b)).collect();
        fragments.push(("MANIFEST".into(), live));
        let victim = if spec.live { nb } else { vcore::gens::sel(spec.victim, nb) };
        let bytes = &fragments[victim].1;
        let layout = formats::mani_layout(bytes).unwrap_or_else(|e| panic!("the independent walker cannot tag the pristine fragment {}: {e}", fragments[victim].0));
        let edits = manipart::parse_pristine(bytes).map_err(|e| format!("parse:{e}"))?;
        let items = edits.iter().flat_map(manipart::items_of).collect();
        let want_state = manipart::fold(&spec.steps.iter().map(|s| s.txn.clone()).collect::<Vec<_>>());
        let mut p = BackupPristine { dir, fragments, victim, layout, edits, items, live_state: (want_state.clone(), 0) };
        // the pristine directory: the fragment reads back as parsed, verify is silent, open holds
        // the applied state (C13's business; everything below compares against it)
        let (d, path) = self.lay_out(&p, &p.fragments[p.victim].1);
        let obs = manipart::observe_dir(&d, &path, p.edits.len() + 2);
        let _ = std::fs::remove_dir_all(&d);
        let read_back = obs.iter_open_err.is_none() && obs.err.is_none() && obs.edits.iter().cloned().collect::<Option<Vec<Txn>>>().as_ref() == Some(&p.edits);
        let verify_silent = obs.verify.as_ref().map(|v| v.is_empty()).unwrap_or(false);
        match &obs.open {
            Some(Ok((st, size))) if read_back && verify_silent && *st == want_state => p.live_state.1 = *size,
            _ => panic!("pristine rolled-over manifest directory does not read back as written: {:?}", obs),
        }
        Ok(p)
    }

    fn regions<'a>(&self, p: &'a BackupPristine) -> &'a formats::Regions {
        &p.layout.regions
    }
    fn sweepable(&self, _: &BackupPristine, _: usize) -> bool {
        false
    }

    fn eval(&self, _ctx: &Ctx, p: &BackupPristine, plan: &[Dmg]) -> Outcome {
        let mut o = Outcome::pass();
        let pristine = &p.fragments[p.victim].1;
        let (damaged, applied) = damage::apply(pristine, &p.layout.regions, plan);
        let what = format!("{} [fragment {} of {:?}]", damage::describe_plan(&applied), p.fragments[p.victim].0, p.fragments.iter().map(|f| f.0.as_str()).collect::<Vec<_>>());
        for a in applied.iter() {
            o.label(a.label());
        }
        o.label(format!("damages:{}", plan.len()));
        let is_live = p.victim + 1 == p.fragments.len();
        let changed = damaged != *pristine;
        o.nontrivial = changed && p.edits.len() >= 2;
        if !changed {
            o.label("outcome:file-unchanged");
        }
        if p.edits.len() >= 2 {
            o.label("file:victim-has->=2-edits");
        }
        o.label(format!("file:backups:{}", match p.fragments.len() - 1 { 1 => "1", 2 => "2", 3 => "3", _ => ">=4" }));
        o.label(if is_live { "victim:live-MANIFEST(beside-pristine-backups)" } else if p.victim == 0 && p.fragments.len() > 2 { "victim:oldest-backup" } else if p.victim + 2 == p.fragments.len() { "victim:newest-backup" } else { "victim:middle-backup" });
        let (d, path) = self.lay_out(p, &damaged);
        alloc::arm();
        let got = manipart::observe_dir(&d, &path, 4 * p.edits.len() + 8);
        let peak = alloc::disarm();
        let _ = std::fs::remove_dir_all(&d);
        let kinds: Vec<&str> = applied.iter().filter(|a| a.effective).map(|a| a.kind).collect();
        let (labels, failure) = manipart::judge(&p.edits, &p.items, &damaged, &got, &kinds, &what, is_live);
        for l in labels {
            o.label(l);
        }
        if let Some(f) = failure {
            o.fail(f.signature, f.message);
        }
        if !is_live {
            // open() reads the live file and the NAMES of the backups only
            match &got.open {
                Some(Ok((st, size))) if *st == p.live_state.0 && *size == p.live_state.1 => o.label("open:live-state-unaffected-by-backup-damage"),
                Some(Ok((st, size))) => o.fail("mani:open-affected-by-backup-damage", format!("Manifest::open holds {st:?} (size {size}) instead of {:?} (size {}) although only a backup fragment was damaged; damage: {what}", p.live_state.0, p.live_state.1)),
                Some(Err(e)) => o.fail("mani:open-fails-on-backup-damage", format!("Manifest::open fails ({e}) although only a backup fragment, which it does not read, was damaged; damage: {what}")),
                None => {}
            }
        }
        if peak > HUGE && peak > 16 * damaged.len() {
            o.fail("mani:alloc-huge", format!("a single allocation of {peak} bytes was requested for a {}-byte manifest fragment; damage: {what}", damaged.len()));
        }
        o
    }
}
