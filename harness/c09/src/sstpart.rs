//! SST damage: `Sst::new` + forward walk + backward walk + `load` of every original key +
//! `metadata()` + `fast_setsum()` + a few generated cursor programs (seeks, steps, direction
//! reversals) on the damaged file, compared with the pristine file.

use std::path::{Path, PathBuf};

use proptest::prelude::*;
use serde::{Deserialize, Serialize};

use sst::Cursor;
use vcore::gens::show;
use vcore::refcursor::{CursorOp, Entry, RefCursor};
use vcore::{Ctx, Failure, Outcome, Tier};
use vsst::tables::{self, BuildOpts, Table};

use crate::alloc;
use crate::damage::{self, Dmg};
use crate::engine::Target;
use crate::formats::{self, SstLayout};

pub const HUGE: usize = 64 << 20;

#[derive(Clone, Debug, Serialize, Deserialize)]
pub struct SstSpec {
    pub table: Table,
    pub opts: BuildOpts,
    /// cursor programs run on every damaged version of the file (absent in cases saved before
    /// programs existed)
    #[serde(default)]
    pub programs: Vec<Vec<POp>>,
}

/// One cursor call; seek targets are selected among the neighbours of the table's keys.
#[derive(Clone, Debug, PartialEq, Eq, Serialize, Deserialize)]
pub enum POp {
    First,
    Last,
    Seek(u16),
    Next,
    Prev,
}

/// Seek targets: every key of the table and its byte-order neighbours, the empty key and a key
/// above every universe.
pub fn seek_targets(entries: &[Entry]) -> Vec<Vec<u8>> {
    let mut t: Vec<Vec<u8>> = vec![vec![], vec![0xff; 12]];
    for k in tables::keys_of(entries) {
        t.extend(vcore::gens::neighbours(&k));
    }
    t.sort();
    t.dedup();
    t
}

/// Resolve a generated program; the position of a fresh cursor is not documented, so a program
/// always starts with an absolute call.
pub fn resolve(prog: &[POp], targets: &[Vec<u8>]) -> Vec<CursorOp> {
    let mut out: Vec<CursorOp> = prog
        .iter()
        .map(|op| match op {
            POp::First => CursorOp::SeekToFirst,
            POp::Last => CursorOp::SeekToLast,
            POp::Seek(s) => CursorOp::Seek(targets[vcore::gens::sel(*s, targets.len())].clone()),
            POp::Next => CursorOp::Next,
            POp::Prev => CursorOp::Prev,
        })
        .collect();
    if matches!(out.first(), Some(CursorOp::Next) | Some(CursorOp::Prev)) {
        out.insert(0, CursorOp::SeekToFirst);
    }
    out
}

fn program_strategy() -> impl Strategy<Value = Vec<POp>> {
    let first = prop_oneof![1 => Just(POp::First), 1 => Just(POp::Last), 4 => any::<u16>().prop_map(POp::Seek)];
    let rest = prop_oneof![35 => Just(POp::Next), 32 => Just(POp::Prev), 18 => any::<u16>().prop_map(POp::Seek), 4 => Just(POp::First), 5 => Just(POp::Last)];
    (first, prop::collection::vec(rest, 0..14)).prop_map(|(f, mut r)| {
        r.insert(0, f);
        r
    })
}

/// What one program did on a file.
#[derive(Clone, Debug, PartialEq, Eq)]
pub enum ProgRes {
    /// every call returned Ok and left the cursor where the reference is
    Agreed,
    /// call #n returned an error; the calls before it agreed (the cursor is not used afterwards)
    ErrAt(usize, String),
    /// call #n returned Ok but the cursor disagrees with the reference
    Mismatch(usize, String),
}

/// Run `prog` on a fresh cursor, comparing with the reference (over the PRISTINE entries) after
/// every call: position, and key() / value() against key_value().
pub fn run_program<C: Cursor>(c: &mut C, reference: &mut RefCursor, prog: &[CursorOp]) -> ProgRes {
    reference.pos = vcore::refcursor::Pos::BeforeFirst;
    for (i, op) in prog.iter().enumerate() {
        if let Err(e) = tables::apply(c, op) {
            return ProgRes::ErrAt(i, short(&e));
        }
        reference.apply(op);
        let got = tables::current(c);
        let want = reference.current();
        if got.as_ref() != want {
            return ProgRes::Mismatch(i, format!("after call #{i} {} of the program {} the cursor is at {} but the pristine file's entries put it at {}", show_op(op), show_prog(&prog[..=i]), show_e(got.as_ref()), show_e(want)));
        }
        let k = c.key().map(|k| (k.key.to_vec(), k.timestamp));
        if k != want.map(|e| (e.0.clone(), e.1)) || c.value().map(|v| v.to_vec()) != want.and_then(|e| e.2.clone()) {
            return ProgRes::Mismatch(i, format!("after call #{i} {} key() / value() disagree with key_value()", show_op(op)));
        }
    }
    ProgRes::Agreed
}

fn show_op(op: &CursorOp) -> String {
    match op {
        CursorOp::Seek(k) => format!("seek({})", show(k)),
        CursorOp::SeekToFirst => "seek_to_first".into(),
        CursorOp::SeekToLast => "seek_to_last".into(),
        CursorOp::Next => "next".into(),
        CursorOp::Prev => "prev".into(),
    }
}

fn show_prog(p: &[CursorOp]) -> String {
    format!("[{}]", p.iter().map(show_op).collect::<Vec<_>>().join(", "))
}

#[derive(Clone, Debug, Default, PartialEq, Eq)]
pub struct Walk {
    pub got: Vec<Entry>,
    pub err: Option<String>,
}

#[derive(Clone, Debug, PartialEq, Eq)]
pub struct Meta {
    pub setsum: [u8; 32],
    pub first_key: Vec<u8>,
    pub last_key: Vec<u8>,
    pub smallest_timestamp: u64,
    pub biggest_timestamp: u64,
    pub file_size: u64,
}

pub type Load = Result<(Option<Vec<u8>>, bool), String>;

#[derive(Clone, Debug, Default)]
pub struct SstObs {
    pub open_err: Option<String>,
    pub fwd: Walk,
    /// in walk order (descending)
    pub bwd: Walk,
    pub loads: Vec<Load>,
    pub meta: Option<Result<Meta, String>>,
    pub fast: Option<[u8; 32]>,
    pub programs: Vec<ProgRes>,
}

fn short(e: &handled::SError) -> String {
    vcore::truncate(&format!("{e:?}").replace('\n', " "), 240)
}

pub fn walk<C: Cursor>(c: &mut C, forward: bool, cap: usize) -> Walk {
    let mut w = Walk::default();
    let r = if forward { c.seek_to_first() } else { c.seek_to_last() };
    if let Err(e) = r {
        w.err = Some(short(&e));
        return w;
    }
    loop {
        let r = if forward { c.next() } else { c.prev() };
        if let Err(e) = r {
            w.err = Some(short(&e));
            return w;
        }
        match tables::current(c) {
            Some(e) => w.got.push(e),
            None => return w,
        }
        if w.got.len() > cap {
            w.err = Some("walk-exceeds-cap".into());
            return w;
        }
    }
}

/// Everything the property lets an observer see of the SST at `path`.
pub fn observe(path: &Path, probes: &[(Vec<u8>, u64)], cap: usize, programs: &[Vec<CursorOp>], reference: &mut RefCursor) -> SstObs {
    let mut o = SstObs::default();
    let table = match sst::Sst::<sst::file_manager::FileHandle>::new(sst::SstOptions::default(), path) {
        Ok(t) => t,
        Err(e) => {
            o.open_err = Some(short(&e));
            return o;
        }
    };
    o.fwd = walk(&mut table.cursor(), true, cap);
    o.bwd = walk(&mut table.cursor(), false, cap);
    for (k, ts) in probes {
        let mut tomb = false;
        o.loads.push(match table.load(k, *ts, &mut tomb) {
            Ok(v) => Ok((v, tomb)),
            Err(e) => Err(short(&e)),
        });
    }
    o.meta = Some(match table.metadata() {
        Ok(m) => Ok(Meta { setsum: m.setsum, first_key: m.first_key, last_key: m.last_key, smallest_timestamp: m.smallest_timestamp, biggest_timestamp: m.biggest_timestamp, file_size: m.file_size }),
        Err(e) => Err(short(&e)),
    });
    o.fast = Some(table.fast_setsum().digest());
    for prog in programs {
        o.programs.push(run_program(&mut table.cursor(), reference, prog));
    }
    o
}

pub fn probes_of(entries: &[Entry]) -> Vec<(Vec<u8>, u64)> {
    let mut p: Vec<(Vec<u8>, u64)> = vec![];
    for k in tables::keys_of(entries) {
        p.push((k, u64::MAX));
    }
    for e in entries {
        p.push((e.0.clone(), e.1));
        if e.1 > 0 {
            p.push((e.0.clone(), e.1 - 1));
        }
    }
    // a few absent keys: a damaged filter or index must not invent them
    for k in tables::keys_of(entries).into_iter().take(3) {
        let mut a = k.clone();
        a.push(0);
        if !entries.iter().any(|e| e.0 == a) {
            p.push((a, u64::MAX));
        }
    }
    p
}

fn show_e(e: Option<&Entry>) -> String {
    tables::show_entry(e)
}

pub struct Verdict {
    pub labels: Vec<String>,
    pub failure: Option<Failure>,
    pub excluded: Vec<String>,
}

/// Compare the observation of the damaged file with the pristine one.
/// `len_changed`: the plan truncated or extended the file (file_size is then not compared);
/// `r_o_touched`: some damage touched the un-checksummed final block (known finding R-O).
pub fn judge(pristine: &SstObs, got: &SstObs, probes: &[(Vec<u8>, u64)], what: &str, len_changed: bool, r_o_touched: bool, strict: bool) -> Verdict {
    let mut v = Verdict { labels: vec![], failure: None, excluded: vec![] };
    let mut fail = |sig: &str, msg: String| {
        if v.failure.is_none() {
            v.failure = Some(Failure::new(sig, format!("{msg}; damage: {what}")));
        }
    };
    if got.open_err.is_some() {
        v.labels.push("outcome:detected-at-open".into());
        return v;
    }
    let mut later_err = false;
    let mut partial = false;
    // forward walk: a genuine prefix, complete unless it ends in an error
    let p = &pristine.fwd.got;
    let g = &got.fwd.got;
    let common = p.iter().zip(g.iter()).take_while(|(a, b)| a == b).count();
    if common < g.len() {
        fail("sst:forward-walk-different-data", format!("forward walk entry #{common} is {} but the pristine file holds {} there", show_e(g.get(common)), show_e(p.get(common))));
    } else if got.fwd.err.is_none() && g.len() < p.len() {
        fail("sst:forward-walk-silently-short", format!("forward walk ended without error after {} of {} entries", g.len(), p.len()));
    }
    if got.fwd.err.is_some() {
        later_err = true;
        partial |= !g.is_empty();
    }
    // backward walk: a genuine suffix
    let pb = &pristine.bwd.got;
    let gb = &got.bwd.got;
    let common = pb.iter().zip(gb.iter()).take_while(|(a, b)| a == b).count();
    if common < gb.len() {
        fail("sst:backward-walk-different-data", format!("backward walk entry #{common} (from the end) is {} but the pristine file holds {} there", show_e(gb.get(common)), show_e(pb.get(common))));
    } else if got.bwd.err.is_none() && gb.len() < pb.len() {
        fail("sst:backward-walk-silently-short", format!("backward walk ended without error after {} of {} entries", gb.len(), pb.len()));
    }
    if got.bwd.err.is_some() {
        later_err = true;
        partial |= !gb.is_empty();
    }
    // point reads
    for (i, (pl, gl)) in pristine.loads.iter().zip(got.loads.iter()).enumerate() {
        match gl {
            Err(_) => later_err = true,
            Ok(x) => {
                if pl.as_ref().ok() != Some(x) {
                    let (k, ts) = &probes[i];
                    fail("sst:load-different-data", format!("load({}, {ts}) returned {:?} but the pristine file returns {:?}", show(k), x.0.as_ref().map(|v| v.len()).map(|n| format!("value[{n}]")).unwrap_or_else(|| if x.1 { "TOMBSTONE".into() } else { "None".into() }), pl.as_ref().map(|y| (y.0.as_ref().map(|v| v.len()), y.1))));
                }
            }
        }
    }
    if got.loads.len() != pristine.loads.len() {
        fail("harness:probe-count", "probe count differs".into());
    }
    // cursor programs: every call is an error (the cursor is dropped then) or agrees with the
    // reference cursor over the pristine entries
    let (mut prog_err0, mut prog_err_later, mut prog_ok) = (false, false, false);
    for r in got.programs.iter() {
        match r {
            ProgRes::Agreed => prog_ok = true,
            ProgRes::ErrAt(0, _) => prog_err0 = true,
            ProgRes::ErrAt(..) => prog_err_later = true,
            ProgRes::Mismatch(_, msg) => fail("sst:program-different-data", msg.clone()),
        }
    }
    if got.programs.len() != pristine.programs.len() {
        fail("harness:program-count", "program count differs".into());
    }
    if prog_err0 || prog_err_later {
        later_err = true;
    }
    if prog_ok {
        v.labels.push("program:every-call-agrees".into());
    }
    if prog_err0 {
        v.labels.push("program:error-at-first-call".into());
    }
    if prog_err_later {
        v.labels.push("program:error-after-agreeing-calls".into());
    }
    // metadata
    let mut r_o_hit = false;
    match (&pristine.meta, &got.meta) {
        (Some(Ok(pm)), Some(Ok(gm))) => {
            if pm.first_key != gm.first_key || pm.last_key != gm.last_key {
                fail("sst:metadata-keys-silently-changed", format!("metadata() first/last key changed: {}..{} instead of {}..{}", show(&gm.first_key), show(&gm.last_key), show(&pm.first_key), show(&pm.last_key)));
            }
            if !len_changed && pm.file_size != gm.file_size {
                fail("sst:metadata-file-size-changed", format!("metadata().file_size {} instead of {}", gm.file_size, pm.file_size));
            }
            let same = pm.setsum == gm.setsum && pm.smallest_timestamp == gm.smallest_timestamp && pm.biggest_timestamp == gm.biggest_timestamp && got.fast == pristine.fast;
            if !same {
                if r_o_touched {
                    r_o_hit = true;
                    if strict {
                        fail(
                            "sst:metadata-silently-changed:final-block-fields",
                            format!(
                                "metadata()/fast_setsum() silently changed: setsum {} (pristine {}), smallest_timestamp {} (pristine {}), biggest_timestamp {} (pristine {}); every returned entry and load is unchanged",
                                setsum::Setsum::from_digest(gm.setsum).hexdigest(),
                                setsum::Setsum::from_digest(pm.setsum).hexdigest(),
                                gm.smallest_timestamp,
                                pm.smallest_timestamp,
                                gm.biggest_timestamp,
                                pm.biggest_timestamp
                            ),
                        );
                    } else {
                        v.excluded.push("R-O".into());
                    }
                } else {
                    fail(
                        "sst:metadata-silently-changed:outside-final-block",
                        format!("metadata()/fast_setsum() silently changed although no damage touched the final block: {:?} fast={:?} instead of {:?} fast={:?}", gm, got.fast.map(|d| setsum::Setsum::from_digest(d).hexdigest()), pm, pristine.fast.map(|d| setsum::Setsum::from_digest(d).hexdigest())),
                    );
                }
            }
        }
        (_, Some(Err(_))) => later_err = true,
        (Some(Err(e)), _) => fail("pristine:metadata-error", format!("metadata() of the pristine file failed: {e}")),
        _ => {}
    }
    if r_o_touched && !r_o_hit {
        v.labels.push("final-block-touched:metadata-unchanged-or-error".into());
    }
    if r_o_hit {
        v.labels.push("outcome:R-O-metadata-silently-changed(entries-and-loads-unchanged)".into());
    } else if later_err {
        v.labels.push(if partial { "outcome:detected-after-genuine-prefix".into() } else { "outcome:detected-after-open".into() });
    } else {
        v.labels.push("outcome:harmless".into());
    }
    v
}

/// SST reads are bounded by the file: every block and the filter lie inside it, so a single request
/// above 64 MiB that is also above 16 x the file size is a failure (no documented constant excuses it).
pub fn alloc_verdict(peak: usize, file_len: usize, what: &str, kind: &str) -> Option<Failure> {
    if peak > HUGE && peak > 16 * file_len {
        return Some(Failure::new(format!("{kind}:alloc-huge"), format!("a single allocation of {peak} bytes was requested while reading a {file_len}-byte file; damage: {what}")));
    }
    None
}

pub struct SstPristine {
    pub dir: PathBuf,
    pub bytes: Vec<u8>,
    pub layout: SstLayout,
    pub probes: Vec<(Vec<u8>, u64)>,
    pub obs: SstObs,
    pub entries: usize,
    pub programs: Vec<Vec<CursorOp>>,
    /// the reference cursor over the pristine entries (one copy per file, re-positioned per program)
    pub reference: std::cell::RefCell<RefCursor>,
}

pub struct SstDamage;

pub fn sst_classes() -> Vec<(&'static str, u32)> {
    formats::SST_CLASSES.iter().map(|c| (*c, if *c == "data.body" { 5 } else { 1 })).collect()
}

impl Target for SstDamage {
    type Spec = SstSpec;
    type Pristine = SstPristine;

    fn name(&self) -> String {
        "sst-damage".into()
    }
    fn files(&self, tier: Tier) -> u64 {
        tier.pick(1_000, 12_000)
    }
    fn plans_per_file(&self, tier: Tier) -> u64 {
        tier.pick(40, 60)
    }
    fn spec_strategy(&self, _: Tier) -> BoxedStrategy<SstSpec> {
        // SstOptions clamps the target block size to >= 4096 bytes, so several data blocks need
        // tables of >= 8 KiB: mostly large tables with large values
        let table = prop_oneof![4 => tables::table(24, 5, true).boxed(), 1 => tables::table(12, 5, false).boxed()];
        let block_size = prop_oneof![6 => Just(4096u32), 1 => Just(8192u32), 1 => Just(65536u32)];
        (table, tables::build_opts(), block_size, prop::collection::vec(program_strategy(), 3)).prop_map(|(table, mut opts, block_size, programs)| {
            opts.block_size = block_size;
            SstSpec { table, opts, programs }
        }).boxed()
    }
    fn plan_strategy(&self) -> BoxedStrategy<Vec<Dmg>> {
        damage::plan_strategy(sst_classes())
    }

    fn build(&self, ctx: &Ctx, spec: &SstSpec) -> Result<SstPristine, String> {
        if spec.table.entries.is_empty() {
            return Err("empty-table".into());
        }
        let dir = ctx.scratch.join("c09-sst");
        std::fs::create_dir_all(&dir).map_err(|e| format!("mkdir:{e}"))?;
        let path = dir.join("pristine.sst");
        let _ = std::fs::remove_file(&path);
        tables::build_sst(&path, &spec.table.entries, &spec.opts).map_err(|e| format!("build-error:{}", sst::error_code(&e).unwrap_or("?")))?;
        let bytes = std::fs::read(&path).map_err(|e| format!("read:{e}"))?;
        let layout = formats::sst_layout(&bytes).unwrap_or_else(|e| panic!("the independent walker cannot tag the pristine sst: {e}"));
        let probes = probes_of(&spec.table.entries);
        let targets = seek_targets(&spec.table.entries);
        let programs: Vec<Vec<CursorOp>> = spec.programs.iter().map(|p| resolve(p, &targets)).collect();
        let mut reference = RefCursor::new(spec.table.entries.clone());
        let obs = observe(&path, &probes, spec.table.entries.len() + 2, &programs, &mut reference);
        let _ = std::fs::remove_file(&path);
        // the pristine file must read back as the model (C10's business; a mismatch would make every
        // comparison below meaningless, so it is reported as its own failure)
        if obs.open_err.is_some() || obs.fwd.err.is_some() || obs.fwd.got != spec.table.entries {
            panic!("pristine file does not read back as generated: open={:?} fwd.err={:?} got {} of {} entries", obs.open_err, obs.fwd.err, obs.fwd.got.len(), spec.table.entries.len());
        }
        // ... and obey the reference cursor under every program (C10's business as well)
        if let Some(bad) = obs.programs.iter().find(|r| **r != ProgRes::Agreed) {
            panic!("pristine file disagrees with the reference cursor under a generated program: {bad:?}");
        }
        Ok(SstPristine { dir, bytes, layout, probes, obs, entries: spec.table.entries.len(), programs, reference: std::cell::RefCell::new(reference) })
    }

    fn regions<'a>(&self, p: &'a SstPristine) -> &'a formats::Regions {
        &p.layout.regions
    }
    fn sweepable(&self, p: &SstPristine, max_len: usize) -> bool {
        p.layout.data_blocks.len() >= 2 && p.bytes.len() <= max_len
    }

    fn eval(&self, ctx: &Ctx, p: &SstPristine, plan: &[Dmg]) -> Outcome {
        let mut o = Outcome::pass();
        let (damaged, applied) = damage::apply(&p.bytes, &p.layout.regions, plan);
        let what = damage::describe_plan(&applied);
        for a in applied.iter() {
            let mut l = a.label();
            if a.effective && a.region.starts_with("data.") {
                let i = p.layout.data_blocks.iter().position(|r| r.contains(&a.offset)).unwrap_or(0);
                let n = p.layout.data_blocks.len();
                l.push_str(if n == 1 { "[only]" } else if i == 0 { "[first]" } else if i + 1 == n { "[last]" } else { "[middle]" });
            }
            o.label(l);
        }
        o.label(format!("damages:{}", plan.len()));
        let changed = damaged != p.bytes;
        o.nontrivial = changed && p.layout.data_blocks.len() >= 2;
        if !changed {
            o.label("outcome:file-unchanged");
        }
        if p.layout.data_blocks.len() >= 2 {
            o.label("file:>=2-data-blocks");
        }
        let path = p.dir.join("damaged.sst");
        let _ = std::fs::remove_file(&path);
        std::fs::write(&path, &damaged).expect("write damaged file");
        alloc::arm();
        let got = observe(&path, &p.probes, p.entries + 2, &p.programs, &mut p.reference.borrow_mut());
        let peak = alloc::disarm();
        let _ = std::fs::remove_file(&path);
        if p.programs.iter().any(|pr| tables::has_reversal(pr)) {
            o.label("file:program-with-direction-reversal");
        }
        if p.programs.iter().any(|pr| pr.windows(2).any(|w| matches!((&w[0], &w[1]), (CursorOp::Seek(_), CursorOp::Prev)))) {
            o.label("file:program-with-seek-then-prev");
        }
        let len_changed = applied.iter().any(|a| a.effective && damage::changes_length(a.kind));
        // a run can start in one region and end in another: every class it overwrote counts
        let r_o_touched = applied.iter().any(|a| a.effective && a.touched_classes(&p.layout.regions).iter().any(|c| formats::in_final_block(c)));
        let v = judge(&p.obs, &got, &p.probes, &what, len_changed, r_o_touched, ctx.strict);
        for l in v.labels {
            o.label(l);
        }
        o.excluded = v.excluded;
        if let Some(f) = v.failure {
            o.fail(f.signature, f.message);
        }
        if let Some(f) = alloc_verdict(peak, damaged.len(), &what, "sst") {
            o.fail(f.signature, f.message);
        }
        o
    }
}
