//! Development tools (not used by the registered commands): `dump` prints the region map of a
//! generated file, `sweep` applies every single-bit flip and every truncation to generated files
//! in strict mode and tallies the verdicts per region.

use std::collections::BTreeMap;
use std::path::PathBuf;

use proptest::strategy::{Strategy, ValueTree};
use proptest::test_runner::{Config, RngSeed, TestRunner};

use vcore::{Ctx, Tier};

use crate::damage::Dmg;
use crate::engine::Target;
use crate::formats::Regions;
use crate::logpart::LogDamage;
use crate::manipart::ManiDamage;
use crate::sstpart::SstDamage;

fn ctx(strict: bool) -> Ctx {
    let scratch = PathBuf::from(format!("/dev/shm/c09-tool-{}", std::process::id()));
    let _ = std::fs::remove_dir_all(&scratch);
    std::fs::create_dir_all(&scratch).expect("scratch");
    Ctx { prop: "C09".into(), tier: Tier::Quick, seed: 0, worker: 0, nworkers: 1, scratch, strict, replay: false }
}

fn print_regions(r: &Regions) {
    for (c, v) in r.classes.iter() {
        let total: usize = v.iter().map(|x| x.len()).sum();
        let shown: Vec<String> = v.iter().take(6).map(|x| format!("{}..{}", x.start, x.end)).collect();
        println!("  {c:<20} {total:>8} bytes in {:>4} ranges: {}{}", v.len(), shown.join(" "), if v.len() > 6 { " …" } else { "" });
    }
}

pub fn dump(args: &[String]) -> i32 {
    let ctx = ctx(true);
    let seed: u64 = args.get(1).and_then(|s| s.parse().ok()).unwrap_or(1);
    let mut runner = TestRunner::new(Config { rng_seed: RngSeed::Fixed(seed), failure_persistence: None, ..Config::default() });
    match args.first().map(|s| s.as_str()).unwrap_or("sst") {
        "sst" => loop {
            let spec = SstDamage.spec_strategy(Tier::Quick).new_tree(&mut runner).unwrap().current();
            let Ok(p) = SstDamage.build(&ctx, &spec) else { continue };
            println!("sst: {} bytes, {} entries, {} data blocks, opts {:?}", p.bytes.len(), p.entries, p.layout.data_blocks.len(), spec.opts);
            print_regions(&p.layout.regions);
            let fb = &p.bytes[p.layout.final_block.clone()];
            println!("  final block: {}", fb.iter().map(|b| format!("{b:02x}")).collect::<Vec<_>>().join(" "));
            break;
        },
        "log" => loop {
            let mut spec = LogDamage.spec_strategy(Tier::Quick).new_tree(&mut runner).unwrap().current();
            if args.get(2).is_some() {
                spec.filler = 5;
            }
            let Ok(p) = LogDamage.build(&ctx, &spec) else { continue };
            println!("log: {} bytes, {} batches, {} frames, split={}", p.bytes.len(), p.batches.len(), p.layout.frames.len(), p.split);
            print_regions(&p.layout.regions);
            break;
        },
        _ => loop {
            let spec = ManiDamage.spec_strategy(Tier::Quick).new_tree(&mut runner).unwrap().current();
            let Ok(p) = ManiDamage.build(&ctx, &spec) else { continue };
            println!("manifest: {} bytes, {} edits", p.bytes.len(), p.edits.len());
            print_regions(&p.layout.regions);
            println!("{}", String::from_utf8_lossy(&p.bytes));
            break;
        },
    }
    let _ = std::fs::remove_dir_all(&ctx.scratch);
    0
}


fn sweep_one<T: Target>(t: &T, ctx: &Ctx, p: &T::Pristine, regions: &Regions, tally: &mut BTreeMap<(String, String, String), u64>, examples: &mut BTreeMap<String, String>) {
    for (class, ranges) in regions.classes.iter() {
        let total: usize = ranges.iter().map(|x| x.len()).sum();
        if total >= 65536 {
            continue;
        }
        for idx in 0..total {
            let pos = crate::engine::selector_for(idx, total);
            debug_assert_eq!(vcore::gens::sel(pos, total), idx);
            let mut plans: Vec<Dmg> = (0..8).map(|bit| Dmg::Flip { region: class.clone(), pos, bit }).collect();
            plans.push(Dmg::Truncate { region: class.clone(), pos });
            plans.push(Dmg::Set { region: class.clone(), pos, val: 0 });
            plans.push(Dmg::Set { region: class.clone(), pos, val: 0xff });
            for d in plans {
                let kind = d.kind().to_string();
                let out = t.eval(ctx, p, std::slice::from_ref(&d));
                let verdict = match &out.failure {
                    Some(f) => format!("FAIL {}", f.signature),
                    None => out.labels.iter().find(|l| l.starts_with("outcome:")).cloned().unwrap_or_else(|| "?".into()),
                };
                if let Some(f) = &out.failure {
                    examples.entry(f.signature.clone()).or_insert_with(|| f.message.clone());
                }
                *tally.entry((class.clone(), kind, verdict)).or_default() += 1;
            }
        }
    }
}

pub fn sweep(args: &[String]) -> i32 {
    let ctx = ctx(true);
    let what = args.first().map(|s| s.as_str()).unwrap_or("sst").to_string();
    let files: usize = args.get(1).and_then(|s| s.parse().ok()).unwrap_or(3);
    let seed: u64 = args.get(2).and_then(|s| s.parse().ok()).unwrap_or(1);
    let max_len: usize = args.get(3).and_then(|s| s.parse().ok()).unwrap_or(12_000);
    let mut runner = TestRunner::new(Config { rng_seed: RngSeed::Fixed(seed), failure_persistence: None, ..Config::default() });
    let mut tally = BTreeMap::new();
    let mut examples = BTreeMap::new();
    let mut done = 0;
    let mut bytes_total = 0;
    while done < files {
        match what.as_str() {
            "sst" => {
                let spec = SstDamage.spec_strategy(Tier::Quick).new_tree(&mut runner).unwrap().current();
                let Ok(p) = SstDamage.build(&ctx, &spec) else { continue };
                if p.bytes.len() > max_len || p.layout.data_blocks.len() < 2 {
                    continue;
                }
                eprintln!("sst file {done}: {} bytes, {} blocks", p.bytes.len(), p.layout.data_blocks.len());
                bytes_total += p.bytes.len();
                sweep_one(&SstDamage, &ctx, &p, &p.layout.regions, &mut tally, &mut examples);
            }
            "log" => {
                let spec = LogDamage.spec_strategy(Tier::Quick).new_tree(&mut runner).unwrap().current();
                let Ok(p) = LogDamage.build(&ctx, &spec) else { continue };
                if p.bytes.len() > max_len || p.batches.len() < 2 {
                    continue;
                }
                eprintln!("log file {done}: {} bytes, {} batches", p.bytes.len(), p.batches.len());
                bytes_total += p.bytes.len();
                sweep_one(&LogDamage, &ctx, &p, &p.layout.regions, &mut tally, &mut examples);
            }
            _ => {
                let spec = ManiDamage.spec_strategy(Tier::Quick).new_tree(&mut runner).unwrap().current();
                let Ok(p) = ManiDamage.build(&ctx, &spec) else { continue };
                if p.bytes.len() > max_len || p.edits.len() < 2 {
                    continue;
                }
                eprintln!("manifest file {done}: {} bytes, {} edits", p.bytes.len(), p.edits.len());
                bytes_total += p.bytes.len();
                sweep_one(&ManiDamage, &ctx, &p, &p.layout.regions, &mut tally, &mut examples);
            }
        }
        done += 1;
    }
    println!("{what}: {files} files, {bytes_total} bytes; per (region, kind): verdict counts");
    for ((class, kind, verdict), n) in tally.iter() {
        println!("  {class:<20} {kind:<9} {n:>8}  {verdict}");
    }
    for (sig, msg) in examples.iter() {
        println!("example {sig}: {}", vcore::truncate(msg, 500));
    }
    let _ = std::fs::remove_dir_all(&ctx.scratch);
    0
}

/// `explain <replay.json>`: run one saved case (non-strict unless the file says so) and print
/// the labels, exclusions and verdict it produces (development aid for hand-made regression cases).
pub fn explain(args: &[String]) -> i32 {
    use crate::engine::{Case, Target};
    let Some(file) = args.first() else {
        eprintln!("usage: explain <replay.json>");
        return 2;
    };
    let v: serde_json::Value = match std::fs::read(file).ok().and_then(|b| serde_json::from_slice(&b).ok()) {
        Some(v) => v,
        None => {
            eprintln!("cannot read {file}");
            return 2;
        }
    };
    let ctx = ctx(v["strict"].as_bool().unwrap_or(false));
    fn run<T: Target>(t: &T, ctx: &Ctx, case: &serde_json::Value) -> Option<vcore::Outcome> {
        let c: Case<T::Spec> = serde_json::from_value(case.clone()).ok()?;
        let p = t.build(ctx, &c.spec).ok()?;
        Some(t.eval(ctx, &p, &c.plan))
    }
    let part = v["part"].as_str().unwrap_or("");
    let out = match part {
        "sst-damage" => run(&SstDamage, &ctx, &v["case"]),
        "log-damage" => run(&LogDamage, &ctx, &v["case"]),
        "manifest-damage" => run(&ManiDamage, &ctx, &v["case"]),
        "manifest-backup-damage" => run(&crate::backuppart::BackupDamage, &ctx, &v["case"]),
        _ => None,
    };
    let _ = std::fs::remove_dir_all(&ctx.scratch);
    match out {
        None => {
            eprintln!("case of part {part:?} could not be parsed or built");
            2
        }
        Some(o) => {
            println!("part {part}: nontrivial={} excluded={:?}", o.nontrivial, o.excluded);
            for l in o.labels.iter() {
                println!("  {l}");
            }
            match o.failure {
                Some(f) => {
                    println!("FAIL {}: {}", f.signature, f.message);
                    1
                }
                None => {
                    println!("pass");
                    0
                }
            }
        }
    }
}
