//! A counting global allocator and a last-gasp "which case was running" dump.
//!
//! While `arm()`ed, the allocator records the largest single allocation request.  A request above
//! `REFUSE_ABOVE` (twice the documented table bound plus slack) is *refused* (null is returned), so
//! that a corrupted length field can never take the machine down; the Rust runtime then aborts the
//! process.  A signal handler for SIGABRT/SIGSEGV/SIGBUS writes `<scratch>/current.json` from
//! pre-serialised buffers so that the parent process attributes the abort to the running case.

use std::alloc::{GlobalAlloc, Layout, System};
use std::sync::atomic::{AtomicBool, AtomicPtr, AtomicUsize, Ordering};

pub struct Counting;

static ARMED: AtomicBool = AtomicBool::new(false);
static PEAK: AtomicUsize = AtomicUsize::new(0);
static REFUSED: AtomicUsize = AtomicUsize::new(0);

/// The reader's documented bound is `TABLE_FULL_SIZE` per frame/table; a split log frame
/// accumulates two frames in one buffer.
pub const DOCUMENTED_BOUND: usize = 2 * sst::TABLE_FULL_SIZE;
pub const REFUSE_ABOVE: usize = DOCUMENTED_BOUND + (64 << 20);

#[inline]
fn note(size: usize) -> bool {
    if ARMED.load(Ordering::Relaxed) {
        PEAK.fetch_max(size, Ordering::Relaxed);
        if size > REFUSE_ABOVE {
            REFUSED.store(size, Ordering::Relaxed);
            return false;
        }
    }
    true
}

unsafe impl GlobalAlloc for Counting {
    unsafe fn alloc(&self, layout: Layout) -> *mut u8 {
        if !note(layout.size()) {
            return std::ptr::null_mut();
        }
        unsafe { System.alloc(layout) }
    }
    unsafe fn alloc_zeroed(&self, layout: Layout) -> *mut u8 {
        if !note(layout.size()) {
            return std::ptr::null_mut();
        }
        unsafe { System.alloc_zeroed(layout) }
    }
    unsafe fn realloc(&self, ptr: *mut u8, layout: Layout, new_size: usize) -> *mut u8 {
        if !note(new_size) {
            return std::ptr::null_mut();
        }
        unsafe { System.realloc(ptr, layout, new_size) }
    }
    unsafe fn dealloc(&self, ptr: *mut u8, layout: Layout) {
        unsafe { System.dealloc(ptr, layout) }
    }
}

/// Start measuring; returns nothing.  `disarm()` yields the largest single request seen.
pub fn arm() {
    PEAK.store(0, Ordering::Relaxed);
    ARMED.store(true, Ordering::Relaxed);
}

pub fn disarm() -> usize {
    ARMED.store(false, Ordering::Relaxed);
    PEAK.load(Ordering::Relaxed)
}

///////////////////////////////////////////// last gasp /////////////////////////////////////////////

struct Current {
    path: std::ffi::CString,
    head: std::sync::Arc<Vec<u8>>,
    plan: Vec<u8>,
    tail: Vec<u8>,
}

static CURRENT: AtomicPtr<Current> = AtomicPtr::new(std::ptr::null_mut());
static HANDLERS: std::sync::Once = std::sync::Once::new();

extern "C" fn on_fatal(sig: libc::c_int) {
    let p = CURRENT.load(Ordering::SeqCst);
    if !p.is_null() {
        // only async-signal-safe calls on buffers prepared beforehand
        unsafe {
            let c = &*p;
            let fd = libc::open(c.path.as_ptr(), libc::O_WRONLY | libc::O_CREAT | libc::O_TRUNC, 0o644);
            if fd >= 0 {
                for part in [&*c.head, &c.plan, &c.tail] {
                    let mut off = 0usize;
                    while off < part.len() {
                        let n = libc::write(fd, part.as_ptr().add(off) as *const libc::c_void, part.len() - off);
                        if n <= 0 {
                            break;
                        }
                        off += n as usize;
                    }
                }
                libc::close(fd);
            }
        }
    }
    unsafe {
        libc::signal(sig, libc::SIG_DFL);
        libc::raise(sig);
    }
}

fn install_handlers() {
    HANDLERS.call_once(|| unsafe {
        for sig in [libc::SIGABRT, libc::SIGSEGV, libc::SIGBUS, libc::SIGILL] {
            let mut sa: libc::sigaction = std::mem::zeroed();
            sa.sa_sigaction = on_fatal as *const () as usize;
            sa.sa_flags = libc::SA_ONSTACK | libc::SA_NODEFER;
            libc::sigemptyset(&mut sa.sa_mask);
            libc::sigaction(sig, &sa, std::ptr::null_mut());
        }
    });
}

/// Remember the case that is about to run: `{"part": part, "case": {"spec": <spec_json>, "plan": <plan_json>}}`.
/// `spec_json` is serialised once per file, `plan_json` once per evaluation.
pub struct CurrentCase {
    path: std::path::PathBuf,
    head: std::sync::Arc<Vec<u8>>,
}

impl CurrentCase {
    pub fn new(scratch: &std::path::Path, part: &str, spec_json: &[u8]) -> Self {
        install_handlers();
        let mut head = format!("{{\"part\":{},\"case\":{{\"spec\":", serde_json::to_string(part).unwrap()).into_bytes();
        head.extend_from_slice(spec_json);
        head.extend_from_slice(b",\"plan\":");
        Self { path: scratch.join("current.json"), head: std::sync::Arc::new(head) }
    }

    pub fn set_plan(&self, plan_json: Vec<u8>) {
        let cur = Box::new(Current {
            path: std::ffi::CString::new(self.path.to_string_lossy().as_bytes()).unwrap(),
            head: self.head.clone(),
            plan: plan_json,
            tail: b"}}".to_vec(),
        });
        let old = CURRENT.swap(Box::into_raw(cur), Ordering::SeqCst);
        if !old.is_null() {
            drop(unsafe { Box::from_raw(old) });
        }
    }
}

pub fn clear_current() {
    let old = CURRENT.swap(std::ptr::null_mut(), Ordering::SeqCst);
    if !old.is_null() {
        drop(unsafe { Box::from_raw(old) });
    }
}
