//! C09 — damage to persistent files is detected or harmless, never silent, never a panic.

mod alloc;
mod backuppart;
mod bytes_oracle;
mod corpus;
mod damage;
mod engine;
mod formats;
mod logpart;
mod manipart;
mod sstpart;
mod tools;

use vcore::Check;

#[global_allocator]
static GLOBAL: alloc::Counting = alloc::Counting;

fn check() -> Check {
    Check::new(
        "C09",
        "exploration",
        "A pristine SST / write-ahead log / manifest is produced by the real writers from generated contents and builder options, \
         every byte is tagged with its region by an independent walker, and 1-3 damages {bit flip, byte overwrite, truncation, appended random / zero / \
         same-file-slice suffix} are drawn per REGION CLASS (so the few bytes of the final block, trailer, headers and separators are hit as often as the data); \
         each damage plan is one evaluation. A case is non-trivial when the damaged file differs from the pristine one and the pristine file had \
         >= 2 data blocks (SST) / >= 2 batches (log) / >= 2 edits (manifest). *-every-offset: for a few generated files (the same in every worker) EVERY single-bit flip, EVERY truncation length and the overwrites 0x00/0xff at EVERY offset are enumerated (label every-offset-of-this-file-enumerated), the offsets being divided among the workers. fuzz-corpus-replay: every file under /verif/fuzz/seeds/<target>/ is run through \
         the reference-free oracle of the libFuzzer targets; non-trivial = non-empty input.",
    )
    .assume("Damage is 1-3 of: single bit flip, single byte overwrite, truncation to a length, appended suffix (random bytes, zeros, or a slice of the same pristine file). A suffix that is itself well-formed content is outside 'damage': an appended slice that happens to consist of whole CRC-valid log frames / manifest lines of the same file replays them and no per-record checksum can tell; such outcomes are accepted only when the plan contains an appended same-file slice AND every extra batch / line is a whole pristine one (label outcome:replayed-*).")
    .assume("A truncation that removes whole trailing batches / transactions (or leaves a torn final one) yields a genuine prefix without an error; that is the documented torn-tail behaviour and is accepted only when the plan contains a truncation. Without a truncation a clean end before the last pristine entry is a failure (silently-short).")
    .assume("metadata().file_size is compared only when the plan neither truncates nor appends: it is the length of the file, not of its data.")
    .assume("Allocation oracle: the largest single allocation request made while the damaged file is read is recorded by a counting global allocator. A request is suspicious only if it exceeds BOTH 64 MiB and 16 x the damaged file's size (64 MiB is far above every legitimate buffer: the readers' 2 MiB BufReader, the 1 MiB log block, and blocks/filters bounded by the file size; the 16x factor keeps large pristine files out). The log reader trusts a frame's size field up to the documented constant TABLE_FULL_SIZE (two frames of a split batch share one buffer), so requests up to 2 x TABLE_FULL_SIZE are bounded by a documented constant: they are counted by a label (the property speaks of unbounded allocations; a 960 MiB zero-filled buffer for a 226-byte log is an observation recorded in DESIGN.md, not a violation) and only requests above that bound fail. Requests above 2 x TABLE_FULL_SIZE + 64 MiB are refused by the harness allocator (the process aborts and the parent attributes the abort to the running case).")
    .assume("Known finding R-O: the SST final block carries no checksum; when a damage touches the bytes of its setsum / smallest_timestamp / biggest_timestamp fields (region tag computed from the pristine file by an independent protobuf walker) the comparison of metadata().{setsum,smallest_timestamp,biggest_timestamp} and fast_setsum() is excluded in non-strict mode and counted; entries, loads and first/last key stay asserted.")
    .assume("Manifest info keys are printable ASCII characters (Edit and Manifest expose no iterator over info fields; the harness probes those keys and cross-checks Manifest::size()). Manifest::open rewrites the file, so every observation works on a fresh copy.")
    .assume("SST tables are non-empty (an empty builder is C10's business).")
    .part(engine::DamagePart(sstpart::SstDamage))
    .part(engine::DamagePart(logpart::LogDamage))
    .part(engine::DamagePart(manipart::ManiDamage))
    .part(engine::DamagePart(backuppart::BackupDamage))
    .part(engine::ExhaustivePart { target: sstpart::SstDamage, name: "sst-every-offset", quick_files: 2, thorough_files: 40, max_len: 14_000 })
    .part(engine::ExhaustivePart { target: logpart::LogDamage, name: "log-every-offset", quick_files: 3, thorough_files: 60, max_len: 6_000 })
    .part(engine::ExhaustivePart { target: manipart::ManiDamage, name: "manifest-every-offset", quick_files: 4, thorough_files: 80, max_len: 3_000 })
    .part(corpus::CorpusReplay)
}

fn main() {
    vcore::main_with(vec![check()], &[("seed-corpus", corpus::seed_corpus), ("dump", tools::dump), ("sweep", tools::sweep)]);
}
