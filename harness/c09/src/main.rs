//! C09 — damage to persistent files is detected or harmless, never silent, never a panic.

mod alloc;
mod backuppart;
mod bytes_oracle;
mod corpus;
mod damage;
mod engine;
mod formats;
mod logpart;
mod manipart;
mod sstpart;
mod tools;

use vcore::Check;

#[global_allocator]
static GLOBAL: alloc::Counting = alloc::Counting;

fn check() -> Check {
    Check::new(
        "C09",
        "exploration",
        "A pristine SST / write-ahead log / manifest is produced by the real writers from generated contents and builder options, \
         every byte is tagged with its region by an independent walker, and 1-3 damages {bit flip, byte overwrite, truncation, appended random / zero / \
         same-file-slice suffix, overwritten RUN of 2-64 consecutive bytes (zeros, 0xff, random, or a copy of another region of the same file at an offset congruent modulo 4096 / 512 / 64 / 8 / 1)} are drawn per REGION CLASS (so the few bytes of the final block, trailer, headers and separators are hit as often as the data); \
         each damage plan is one evaluation. A case is non-trivial when the damaged file differs from the pristine one and the pristine file had \
         >= 2 data blocks (SST) / >= 2 batches (log) / >= 2 edits (manifest). Readers observed on every damaged file: SST - Sst::new, forward walk, backward walk, load of every key / version / a few absent keys, metadata, fast_setsum and three generated cursor programs per file (first call absolute, then up to 14 of next / prev / seek to a key or a byte-order neighbour of a key / seek_to_first / seek_to_last; every call returns Err - the cursor is dropped then - or leaves the cursor exactly where a reference cursor over the pristine entries is); log - LogIterator drain, log_to_setsum, log_to_builder into a call-recording builder and (logs below 256 KiB whose drain ends cleanly) into a real SstBuilder whose sealed table is walked, truncate_final_partial_frame; manifest - ManifestIterator, Manifest::verify over the directory, Manifest::open. manifest-backup-damage: manifests that have rolled over (explicit rollover() calls and the writer's own), the directory holding MANIFEST.1..n and MANIFEST; ONE fragment is damaged (a backup in 80 % of the files, the live file beside pristine backups otherwise) and ManifestIterator over that fragment, Manifest::verify over the directory and Manifest::open are observed; non-trivial = the fragment changed and held >= 2 edits. *-every-offset: for a few generated files (the same in every worker) EVERY single-bit flip, EVERY truncation length and the overwrites 0x00/0xff and the runs 64 x 0x00 / 5 x 0xff at EVERY offset are enumerated (label every-offset-of-this-file-enumerated), the offsets being divided among the workers. fuzz-corpus-replay: every file under /verif/fuzz/seeds/<target>/ is run through \
         the reference-free oracle of the libFuzzer targets; non-trivial = non-empty input.",
    )
    .assume("Damage is 1-3 of: single bit flip, single byte overwrite, truncation to a length, appended suffix (random bytes, zeros, or a slice of the same pristine file), overwritten run of 2-64 bytes. A copied run that is itself a whole CRC-valid log frame / whole manifest lines of the same file and lands on a frame / line boundary is well-formed content exactly like an appended slice: accepted only when the plan contains a copied run AND every foreign batch / line item is a whole pristine one (label outcome:replayed-*(copied-run-*)). A suffix that is itself well-formed content is outside 'damage': an appended slice that happens to consist of whole CRC-valid log frames / manifest lines of the same file replays them and no per-record checksum can tell; such outcomes are accepted only when the plan contains an appended same-file slice AND every extra batch / line is a whole pristine one (label outcome:replayed-*).")
    .assume("A truncation that removes whole trailing batches / transactions (or leaves a torn final one) yields a genuine prefix without an error; that is the documented torn-tail behaviour and is accepted only when the plan contains a truncation. Without a truncation a clean end before the last pristine entry is a failure (silently-short).")
    .assume("metadata().file_size is compared only when the plan neither truncates nor appends: it is the length of the file, not of its data.")
    .assume("Allocation oracle: the largest single allocation request made while the damaged file is read is recorded by a counting global allocator. A request is suspicious only if it exceeds BOTH 64 MiB and 16 x the damaged file's size (64 MiB is far above every legitimate buffer: the readers' 2 MiB BufReader, the 1 MiB log block, and blocks/filters bounded by the file size; the 16x factor keeps large pristine files out). The log reader trusts a frame's size field up to the documented constant TABLE_FULL_SIZE (two frames of a split batch share one buffer), so requests up to 2 x TABLE_FULL_SIZE are bounded by a documented constant: they are counted by a label (the property speaks of unbounded allocations; a 960 MiB zero-filled buffer for a 226-byte log is an observation recorded in DESIGN.md, not a violation) and only requests above that bound fail. Requests above 2 x TABLE_FULL_SIZE + 64 MiB are refused by the harness allocator (the process aborts and the parent attributes the abort to the running case).")
    .assume("Known finding R-O: the SST final block carries no checksum; when a damage touches the bytes of its setsum / smallest_timestamp / biggest_timestamp fields (region tag computed from the pristine file by an independent protobuf walker) the comparison of metadata().{setsum,smallest_timestamp,biggest_timestamp} and fast_setsum() is excluded in non-strict mode and counted; entries, loads and first/last key stay asserted. An overwritten run counts as touching every region class it overwrote a byte of.")
    .assume("log_to_builder reads the whole log before it feeds the builder: it must fail whenever the drain of the same bytes fails, and otherwise feed the builder exactly the drained entries in (key ascending, timestamp descending) order (stable). An SstBuilder refuses a log that holds the same (key, timestamp) twice or starts with (empty key, u64::MAX): that refusal (predicted from the drained entries by the harness) is the builder's, not damage, and is only labelled.")
    .assume("truncate_final_partial_frame is a probe for one corruption shape, not a verifier: None and Err are always acceptable on a damaged file. Some(off) is judged against d = the first byte at which the damaged file differs from the pristine one (for a truncation: the cut) and b0 = the last pristine batch boundary <= d: off >= b0 (no batch that lies entirely before the damage is cut away), off <= d implies off == b0 (inside the undamaged prefix the offset is a pristine batch boundary; for a pure truncation it is therefore THE last batch boundary at or before the cut), off <= file length. Beyond d nothing is demanded because frame headers carry no checksum (a damaged discriminant makes the walker accept or skip CRC-valid frames). On an unchanged file the answer must be the pristine one (None).")
    .assume("Manifest::verify reads every fragment with the reader ManifestIterator uses: it must report >= 1 error whenever the iteration of the damaged fragment fails and nothing when the damaged fragment still iterates to the pristine edits; when the fragment iterates cleanly to a genuine prefix (truncation) or to replayed lines, a reported roll-over mismatch and silence are both acceptable. Manifest::open reads the live file and only the NAMES of the backups: after damage to a backup it must succeed with exactly the pristine state and size.")
    .assume("Manifest info keys are printable ASCII characters (Edit and Manifest expose no iterator over info fields; the harness probes those keys and cross-checks Manifest::size()). Manifest::open rewrites the file, so every observation works on a fresh copy.")
    .assume("SST tables are non-empty (an empty builder is C10's business).")
    .part(engine::DamagePart(sstpart::SstDamage))
    .part(engine::DamagePart(logpart::LogDamage))
    .part(engine::DamagePart(manipart::ManiDamage))
    .part(engine::DamagePart(backuppart::BackupDamage))
    .part(engine::ExhaustivePart { target: sstpart::SstDamage, name: "sst-every-offset", quick_files: 2, thorough_files: 40, max_len: 14_000 })
    .part(engine::ExhaustivePart { target: logpart::LogDamage, name: "log-every-offset", quick_files: 3, thorough_files: 60, max_len: 6_000 })
    .part(engine::ExhaustivePart { target: manipart::ManiDamage, name: "manifest-every-offset", quick_files: 4, thorough_files: 80, max_len: 3_000 })
    .part(corpus::CorpusReplay)
}

fn main() {
    vcore::main_with(vec![check()], &[("seed-corpus", corpus::seed_corpus), ("dump", tools::dump), ("sweep", tools::sweep), ("explain", tools::explain)]);
}
