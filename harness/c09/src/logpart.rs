//! Write-ahead-log damage: `LogIterator` drain + `log_to_setsum` on the damaged file.

use std::path::{Path, PathBuf};

use proptest::prelude::*;
use serde::{Deserialize, Serialize};

use sst::Builder;
use vcore::gens::{self, KeyFamily};
use vcore::refcursor::Entry;
use vcore::{Ctx, Failure, Outcome, Tier};

use crate::alloc;
use crate::damage::{self, Dmg};
use crate::engine::Target;
use crate::formats::{self, LogLayout};
use crate::sstpart::HUGE;

#[derive(Clone, Debug, Serialize, Deserialize)]
pub struct LogSpec {
    /// number of leading filler batches of 8 x 30 000-byte values (0 for small logs); 5 or more push
    /// the log across the 1 MiB block boundary so that a split frame and padding exist
    pub filler: u8,
    pub batches: Vec<Vec<Entry>>,
}

pub fn filler_batch(i: usize) -> Vec<Entry> {
    (0..8).map(|j| (format!("filler/{i:02}/{j}").into_bytes(), (i * 8 + j) as u64 + 1, Some(gens::value((i * 8 + j) as u32 + 1000, 7)))).collect()
}

pub fn all_batches(spec: &LogSpec) -> Vec<Vec<Entry>> {
    let mut b: Vec<Vec<Entry>> = (0..spec.filler as usize).map(filler_batch).collect();
    b.extend(spec.batches.iter().filter(|x| !x.is_empty()).cloned());
    b
}

pub fn build_log(batches: &[Vec<Entry>]) -> Result<Vec<u8>, String> {
    let mut buf: Vec<u8> = vec![];
    {
        let mut lb = sst::LogBuilder::from_write(sst::LogOptions::default(), &mut buf).map_err(|e| format!("{e:?}"))?;
        for b in batches {
            let mut wb = sst::log::WriteBatch::default();
            for (k, t, v) in b {
                match v {
                    Some(v) => wb.put(k, *t, v),
                    None => wb.del(k, *t),
                }
                .map_err(|e| format!("batch:{}", sst::error_code(&e).unwrap_or("?")))?;
            }
            lb.append(&wb).map_err(|e| format!("append:{}", sst::error_code(&e).unwrap_or("?")))?;
        }
        lb.seal().map_err(|e| format!("{e:?}"))?;
    }
    Ok(buf)
}

#[derive(Clone, Debug, Default)]
pub struct LogObs {
    pub open_err: Option<String>,
    pub got: Vec<Entry>,
    pub err: Option<String>,
    pub setsum: Option<Result<[u8; 32], String>>,
}

fn short(e: &handled::SError) -> String {
    vcore::truncate(&format!("{e:?}").replace('\n', " "), 240)
}

pub fn drain<R: std::io::Read + std::io::Seek>(mut it: sst::LogIterator<R>, cap: usize, o: &mut LogObs) {
    loop {
        match it.next() {
            Ok(Some(kvr)) => o.got.push((kvr.key.to_vec(), kvr.timestamp, kvr.value.map(|v| v.to_vec()))),
            Ok(None) => return,
            Err(e) => {
                o.err = Some(short(&e));
                return;
            }
        }
        if o.got.len() > cap {
            o.err = Some("drain-exceeds-cap".into());
            return;
        }
    }
}

pub fn observe(bytes: &[u8], path: Option<&Path>, cap: usize) -> LogObs {
    let mut o = LogObs::default();
    match sst::LogIterator::from_reader(sst::LogOptions::default(), std::io::Cursor::new(bytes.to_vec())) {
        Ok(it) => drain(it, cap, &mut o),
        Err(e) => {
            o.open_err = Some(short(&e));
            return o;
        }
    }
    if let Some(path) = path {
        o.setsum = Some(match sst::log::log_to_setsum(sst::LogOptions::default(), path) {
            Ok(s) => Ok(s.digest()),
            Err(e) => Err(short(&e)),
        });
    }
    o
}

pub fn setsum_of(entries: &[Entry]) -> [u8; 32] {
    let mut s = sst::Setsum::default();
    for (k, t, v) in entries {
        match v {
            Some(v) => s.put(k, *t, v),
            None => s.del(k, *t),
        }
    }
    s.digest()
}

/// `x` is the concatenation of some contiguous run of whole pristine batches.
fn is_replay_of_whole_batches(x: &[Entry], batches: &[Vec<Entry>]) -> bool {
    for i in 0..batches.len() {
        let mut at = 0;
        let mut j = i;
        while j < batches.len() && at < x.len() && x[at..].starts_with(&batches[j]) {
            at += batches[j].len();
            j += 1;
        }
        if at == x.len() && j > i {
            return true;
        }
    }
    false
}

pub struct LogPristine {
    pub dir: PathBuf,
    pub bytes: Vec<u8>,
    pub layout: LogLayout,
    pub batches: Vec<Vec<Entry>>,
    pub entries: Vec<Entry>,
    pub setsum: [u8; 32],
    pub split: bool,
}

pub struct LogDamage;

impl Target for LogDamage {
    type Spec = LogSpec;
    type Pristine = LogPristine;

    fn name(&self) -> String {
        "log-damage".into()
    }
    fn files(&self, tier: Tier) -> u64 {
        tier.pick(600, 7_500)
    }
    fn plans_per_file(&self, tier: Tier) -> u64 {
        tier.pick(40, 60)
    }
    fn spec_strategy(&self, _: Tier) -> BoxedStrategy<LogSpec> {
        let entry = (gens::key_family(), any::<u16>(), prop_oneof![6 => 1u64..40, 1 => Just(0u64), 1 => Just(u64::MAX), 1 => any::<u64>()], prop::bool::weighted(0.25), prop_oneof![6 => 0u8..4, 2 => Just(4u8), 1 => Just(5u8), 1 => Just(6u8)], any::<u32>()).prop_map(
            |(fam, ksel, ts, tomb, sz, tag): (KeyFamily, u16, u64, bool, u8, u32)| {
                let u = gens::universe(fam, 30);
                let k = u[gens::sel(ksel, u.len())].clone();
                (k, ts, if tomb { None } else { Some(gens::value(tag % 1000, sz)) })
            },
        );
        let batch = prop::collection::vec(entry, 1..6);
        (prop_oneof![40 => Just(0u8), 1 => Just(5u8), 1 => Just(6u8)], prop::collection::vec(batch, 1..7)).prop_map(|(filler, batches)| LogSpec { filler, batches }).boxed()
    }
    fn plan_strategy(&self) -> BoxedStrategy<Vec<Dmg>> {
        damage::plan_strategy(formats::LOG_CLASSES.iter().map(|c| (*c, if *c == "payload" { 2 } else { 1 })).collect())
    }

    fn build(&self, ctx: &Ctx, spec: &LogSpec) -> Result<LogPristine, String> {
        let batches = all_batches(spec);
        if batches.is_empty() {
            return Err("empty-log".into());
        }
        let bytes = build_log(&batches)?;
        let layout = formats::log_layout(&bytes).unwrap_or_else(|e| panic!("the independent walker cannot tag the pristine log: {e}"));
        let dir = ctx.scratch.join("c09-log");
        std::fs::create_dir_all(&dir).map_err(|e| format!("mkdir:{e}"))?;
        let path = dir.join("pristine.log");
        std::fs::write(&path, &bytes).map_err(|e| format!("write:{e}"))?;
        let entries: Vec<Entry> = batches.iter().flatten().cloned().collect();
        let obs = observe(&bytes, Some(&path), entries.len() + 2);
        let _ = std::fs::remove_file(&path);
        let setsum = setsum_of(&entries);
        if obs.open_err.is_some() || obs.err.is_some() || obs.got != entries || obs.setsum != Some(Ok(setsum)) {
            panic!("pristine log does not read back as generated: open={:?} err={:?} got {} of {} entries, setsum {:?}", obs.open_err, obs.err, obs.got.len(), entries.len(), obs.setsum.map(|r| r.is_ok()));
        }
        if layout.batch_ends.len() != batches.len() {
            panic!("independent log walker found {} batches, {} were written", layout.batch_ends.len(), batches.len());
        }
        let split = layout.frames.iter().any(|f| f.disc == 2);
        Ok(LogPristine { dir, bytes, layout, batches, entries, setsum, split })
    }

    fn regions<'a>(&self, p: &'a LogPristine) -> &'a formats::Regions {
        &p.layout.regions
    }
    fn sweepable(&self, p: &LogPristine, max_len: usize) -> bool {
        p.batches.len() >= 2 && p.bytes.len() <= max_len
    }

    fn eval(&self, _ctx: &Ctx, p: &LogPristine, plan: &[Dmg]) -> Outcome {
        let mut o = Outcome::pass();
        let (damaged, applied) = damage::apply(&p.bytes, &p.layout.regions, plan);
        let what = damage::describe_plan(&applied);
        for a in applied.iter() {
            o.label(a.label());
        }
        o.label(format!("damages:{}", plan.len()));
        let changed = damaged != p.bytes;
        o.nontrivial = changed && p.batches.len() >= 2;
        if !changed {
            o.label("outcome:file-unchanged");
        }
        if p.split {
            o.label("file:split-frame");
        }
        if p.batches.len() >= 2 {
            o.label("file:>=2-batches");
        }
        let path = p.dir.join("damaged.log");
        std::fs::write(&path, &damaged).expect("write damaged log");
        alloc::arm();
        let got = observe(&damaged, Some(&path), 4 * p.entries.len() + 8);
        let peak = alloc::disarm();
        let _ = std::fs::remove_file(&path);
        let v = judge(p, &got, &applied.iter().filter(|a| a.effective).map(|a| a.kind).collect::<Vec<_>>(), &what);
        for l in v.0 {
            o.label(l);
        }
        if let Some(f) = v.1 {
            o.fail(f.signature, f.message);
        }
        if peak > HUGE && peak > 16 * damaged.len() {
            let bounded = peak <= alloc::DOCUMENTED_BOUND + (4 << 20);
            o.label(format!("alloc:>64MiB-for-a-small-file({})", if bounded { "within-documented-bound" } else { "ABOVE-documented-bound" }));
            let msg = format!("the log reader requested a single allocation of {peak} bytes while reading a {}-byte file; damage: {what}", damaged.len());
            if !bounded {
                o.fail("log:alloc-above-documented-bound", msg);
            }
            // within the documented bound: the property ("never an unbounded allocation") holds; counted by the label above
        }
        o
    }
}

pub fn judge(p: &LogPristine, got: &LogObs, kinds: &[&str], what: &str) -> (Vec<String>, Option<Failure>) {
    let mut labels = vec![];
    let mut failure: Option<Failure> = None;
    let mut fail = |sig: &str, msg: String| {
        if failure.is_none() {
            failure = Some(Failure::new(sig, format!("{msg}; damage: {what}")));
        }
    };
    if got.open_err.is_some() {
        labels.push("outcome:detected-at-open".into());
        return (labels, failure);
    }
    let common = p.entries.iter().zip(got.got.iter()).take_while(|(a, b)| a == b).count();
    let extra = &got.got[common..];
    let truncated = kinds.contains(&"truncate");
    let mut replay = false;
    if !extra.is_empty() {
        if kinds.contains(&"append-slice") && is_replay_of_whole_batches(extra, &p.batches) {
            replay = true;
        } else {
            fail(
                "log:different-data",
                format!("entry #{common} read from the damaged log is {} but the pristine log holds {} there", vsst::tables::show_entry(got.got.get(common)), vsst::tables::show_entry(p.entries.get(common))),
            );
        }
    }
    if got.err.is_none() && common < p.entries.len() && !truncated {
        fail("log:silently-short", format!("the drain ended WITHOUT error after {common} of {} entries although nothing was truncated", p.entries.len()));
    }
    // log_to_setsum must agree with the drain of the same bytes
    match (&got.err, &got.setsum) {
        (Some(_), Some(Ok(_))) => fail("log:setsum-ignores-error", "log_to_setsum succeeded on a log whose drain fails".into()),
        (None, Some(Err(e))) => fail("log:setsum-error-on-clean-drain", format!("log_to_setsum failed ({e}) on a log whose drain ends cleanly")),
        (None, Some(Ok(d))) => {
            let want = if got.got == p.entries { p.setsum } else { setsum_of(&got.got) };
            if *d != want {
                fail("log:setsum-different", "log_to_setsum differs from the setsum of the entries the drain returned".into());
            }
        }
        _ => {}
    }
    labels.push(
        match (got.err.is_some(), common, replay) {
            (_, _, true) => "outcome:replayed-whole-batches(appended-slice-is-wellformed)",
            (true, 0, _) => "outcome:detected-before-any-data",
            (true, c, _) if c < p.entries.len() => "outcome:detected-after-genuine-prefix",
            (true, _, _) => "outcome:detected-after-all-data",
            (false, c, _) if c < p.entries.len() => "outcome:torn-tail-genuine-prefix(truncation)",
            (false, _, _) => "outcome:harmless",
        }
        .to_string(),
    );
    (labels, failure)
}
