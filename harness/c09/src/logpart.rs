//! Write-ahead-log damage: `LogIterator` drain + `log_to_setsum` + `log_to_builder` (into a
//! collecting builder and into a real `SstBuilder`, the `KeyValueStore::open` replay path) +
//! `truncate_final_partial_frame` on the damaged file.

use std::path::{Path, PathBuf};

use proptest::prelude::*;
use serde::{Deserialize, Serialize};

use sst::Builder;
use vcore::gens::{self, KeyFamily};
use vcore::refcursor::Entry;
use vcore::{Ctx, Failure, Outcome, Tier};

use crate::alloc;
use crate::damage::{self, Dmg};
use crate::engine::Target;
use crate::formats::{self, LogLayout};
use crate::sstpart::HUGE;

#[derive(Clone, Debug, Serialize, Deserialize)]
pub struct LogSpec {
    /// number of leading filler batches of 8 x 30 000-byte values (0 for small logs); 5 or more push
    /// the log across the 1 MiB block boundary so that a split frame and padding exist
    pub filler: u8,
    pub batches: Vec<Vec<Entry>>,
}

pub fn filler_batch(i: usize) -> Vec<Entry> {
    (0..8).map(|j| (format!("filler/{i:02}/{j}").into_bytes(), (i * 8 + j) as u64 + 1, Some(gens::value((i * 8 + j) as u32 + 1000, 7)))).collect()
}

pub fn all_batches(spec: &LogSpec) -> Vec<Vec<Entry>> {
    let mut b: Vec<Vec<Entry>> = (0..spec.filler as usize).map(filler_batch).collect();
    b.extend(spec.batches.iter().filter(|x| !x.is_empty()).cloned());
    b
}

pub fn build_log(batches: &[Vec<Entry>]) -> Result<Vec<u8>, String> {
    let mut buf: Vec<u8> = vec![];
    {
        let mut lb = sst::LogBuilder::from_write(sst::LogOptions::default(), &mut buf).map_err(|e| format!("{e:?}"))?;
        for b in batches {
            let mut wb = sst::log::WriteBatch::default();
            for (k, t, v) in b {
                match v {
                    Some(v) => wb.put(k, *t, v),
                    None => wb.del(k, *t),
                }
                .map_err(|e| format!("batch:{}", sst::error_code(&e).unwrap_or("?")))?;
            }
            lb.append(&wb).map_err(|e| format!("append:{}", sst::error_code(&e).unwrap_or("?")))?;
        }
        lb.seal().map_err(|e| format!("{e:?}"))?;
    }
    Ok(buf)
}

#[derive(Clone, Debug, Default)]
pub struct LogObs {
    pub open_err: Option<String>,
    pub got: Vec<Entry>,
    pub err: Option<String>,
    pub setsum: Option<Result<[u8; 32], String>>,
    /// `log_to_builder` into a builder that records the calls it receives, in order
    pub collected: Option<Result<Option<Vec<Entry>>, String>>,
    /// `log_to_builder` into an `SstBuilder`; the entries are the forward walk of the sealed table
    pub table: Option<Result<Option<Vec<Entry>>, String>>,
    /// the sealed table could not be walked (a failure of its own)
    pub table_walk_err: Option<String>,
    pub tfpf: Option<Result<Option<u64>, String>>,
}

pub const REAL_TABLE_MAX: usize = 256 << 10;

/// A `Builder` that records what it is fed.
#[derive(Default)]
pub struct Collect(pub Vec<Entry>);

impl Builder for Collect {
    type Sealed = Vec<Entry>;
    fn approximate_size(&self) -> usize {
        0
    }
    fn put(&mut self, key: &[u8], timestamp: u64, value: &[u8]) -> Result<(), handled::SError> {
        self.0.push((key.to_vec(), timestamp, Some(value.to_vec())));
        Ok(())
    }
    fn del(&mut self, key: &[u8], timestamp: u64) -> Result<(), handled::SError> {
        self.0.push((key.to_vec(), timestamp, None));
        Ok(())
    }
    fn seal(self) -> Result<Vec<Entry>, handled::SError> {
        Ok(self.0)
    }
}

/// `SstBuilder` accepts strictly increasing (key ascending, timestamp descending) input after its
/// initial "last key" (empty key, u64::MAX): a sorted log holding the same (key, timestamp) twice,
/// or starting with that initial key, is refused by the builder, not by the log reader.
pub fn sst_builder_refuses(sorted: &[Entry]) -> bool {
    sorted.first().map(|e| e.0.is_empty() && e.1 == u64::MAX).unwrap_or(false) || sorted.windows(2).any(|w| w[0].0 == w[1].0 && w[0].1 == w[1].1)
}

pub fn sorted(entries: &[Entry]) -> Vec<Entry> {
    let mut v = entries.to_vec();
    // stable, like the sort inside log_to_builder
    vcore::refcursor::sort_entries(&mut v);
    v
}

fn short(e: &handled::SError) -> String {
    vcore::truncate(&format!("{e:?}").replace('\n', " "), 240)
}

pub fn drain<R: std::io::Read + std::io::Seek>(mut it: sst::LogIterator<R>, cap: usize, o: &mut LogObs) {
    loop {
        match it.next() {
            Ok(Some(kvr)) => o.got.push((kvr.key.to_vec(), kvr.timestamp, kvr.value.map(|v| v.to_vec()))),
            Ok(None) => return,
            Err(e) => {
                o.err = Some(short(&e));
                return;
            }
        }
        if o.got.len() > cap {
            o.err = Some("drain-exceeds-cap".into());
            return;
        }
    }
}

pub fn observe(bytes: &[u8], path: Option<&Path>, cap: usize) -> LogObs {
    let mut o = LogObs::default();
    match sst::LogIterator::from_reader(sst::LogOptions::default(), std::io::Cursor::new(bytes.to_vec())) {
        Ok(it) => drain(it, cap, &mut o),
        Err(e) => {
            o.open_err = Some(short(&e));
            return o;
        }
    }
    if let Some(path) = path {
        o.setsum = Some(match sst::log::log_to_setsum(sst::LogOptions::default(), path) {
            Ok(s) => Ok(s.digest()),
            Err(e) => Err(short(&e)),
        });
        o.collected = Some(match sst::log::log_to_builder(sst::LogOptions::default(), path, Collect::default()) {
            Ok(v) => Ok(v),
            Err(e) => Err(short(&e)),
        });
        // the real table builder (the KeyValueStore::open replay path) for logs below 256 KiB whose
        // drain ends cleanly: log_to_builder reads the whole log before it touches the builder, so
        // on a log whose drain fails the builder type cannot matter (the collecting builder above
        // covers it), and the multi-block filler logs cost milliseconds per table
        let out = path.with_extension("replayed.sst");
        let _ = std::fs::remove_file(&out);
        o.table = if bytes.len() > REAL_TABLE_MAX || o.err.is_some() { None } else { Some(match sst::SstBuilder::new(sst::SstOptions::default(), &out) {
            Ok(b) => match sst::log::log_to_builder(sst::LogOptions::default(), path, b) {
                Ok(None) => Ok(None),
                Ok(Some(table)) => {
                    let w = crate::sstpart::walk(&mut table.cursor(), true, cap);
                    o.table_walk_err = w.err;
                    Ok(Some(w.got))
                }
                Err(e) => Err(short(&e)),
            },
            Err(e) => Err(format!("SstBuilder::new: {}", short(&e))),
        }) };
        let _ = std::fs::remove_file(&out);
        o.tfpf = Some(sst::log::truncate_final_partial_frame(sst::LogOptions::default(), path).map_err(|e| short(&e)));
    }
    o
}

pub fn setsum_of(entries: &[Entry]) -> [u8; 32] {
    let mut s = sst::Setsum::default();
    for (k, t, v) in entries {
        match v {
            Some(v) => s.put(k, *t, v),
            None => s.del(k, *t),
        }
    }
    s.digest()
}

/// `x` is the concatenation of some contiguous run of whole pristine batches.
fn is_replay_of_whole_batches(x: &[Entry], batches: &[Vec<Entry>]) -> bool {
    for i in 0..batches.len() {
        let mut at = 0;
        let mut j = i;
        while j < batches.len() && at < x.len() && x[at..].starts_with(&batches[j]) {
            at += batches[j].len();
            j += 1;
        }
        if at == x.len() && j > i {
            return true;
        }
    }
    false
}

/// `x` is a concatenation of whole pristine batches in any order (a copied run can replace one
/// whole small frame by another).
fn is_concat_of_whole_batches(x: &[Entry], batches: &[Vec<Entry>]) -> bool {
    let mut reach = vec![false; x.len() + 1];
    reach[0] = true;
    for at in 0..x.len() {
        if !reach[at] {
            continue;
        }
        for b in batches {
            if !b.is_empty() && x[at..].starts_with(b) {
                reach[at + b.len()] = true;
            }
        }
    }
    !x.is_empty() && reach[x.len()]
}

pub struct LogPristine {
    pub dir: PathBuf,
    pub bytes: Vec<u8>,
    pub layout: LogLayout,
    pub batches: Vec<Vec<Entry>>,
    pub entries: Vec<Entry>,
    pub setsum: [u8; 32],
    pub split: bool,
}

pub struct LogDamage;

impl Target for LogDamage {
    type Spec = LogSpec;
    type Pristine = LogPristine;

    fn name(&self) -> String {
        "log-damage".into()
    }
    fn files(&self, tier: Tier) -> u64 {
        tier.pick(600, 7_500)
    }
    fn plans_per_file(&self, tier: Tier) -> u64 {
        tier.pick(40, 60)
    }
    fn spec_strategy(&self, _: Tier) -> BoxedStrategy<LogSpec> {
        let entry = (gens::key_family(), any::<u16>(), prop_oneof![6 => 1u64..40, 1 => Just(0u64), 1 => Just(u64::MAX), 1 => any::<u64>()], prop::bool::weighted(0.25), prop_oneof![6 => 0u8..4, 2 => Just(4u8), 1 => Just(5u8), 1 => Just(6u8)], any::<u32>()).prop_map(
            |(fam, ksel, ts, tomb, sz, tag): (KeyFamily, u16, u64, bool, u8, u32)| {
                let u = gens::universe(fam, 30);
                let k = u[gens::sel(ksel, u.len())].clone();
                (k, ts, if tomb { None } else { Some(gens::value(tag % 1000, sz)) })
            },
        );
        let batch = prop::collection::vec(entry, 1..6);
        (prop_oneof![40 => Just(0u8), 1 => Just(5u8), 1 => Just(6u8)], prop::collection::vec(batch, 1..7)).prop_map(|(filler, batches)| LogSpec { filler, batches }).boxed()
    }
    fn plan_strategy(&self) -> BoxedStrategy<Vec<Dmg>> {
        damage::plan_strategy(formats::LOG_CLASSES.iter().map(|c| (*c, if *c == "payload" { 2 } else { 1 })).collect())
    }

    fn build(&self, ctx: &Ctx, spec: &LogSpec) -> Result<LogPristine, String> {
        let batches = all_batches(spec);
        if batches.is_empty() {
            return Err("empty-log".into());
        }
        let bytes = build_log(&batches)?;
        let layout = formats::log_layout(&bytes).unwrap_or_else(|e| panic!("the independent walker cannot tag the pristine log: {e}"));
        let dir = ctx.scratch.join("c09-log");
        std::fs::create_dir_all(&dir).map_err(|e| format!("mkdir:{e}"))?;
        let path = dir.join("pristine.log");
        std::fs::write(&path, &bytes).map_err(|e| format!("write:{e}"))?;
        let entries: Vec<Entry> = batches.iter().flatten().cloned().collect();
        let obs = observe(&bytes, Some(&path), entries.len() + 2);
        let _ = std::fs::remove_file(&path);
        let setsum = setsum_of(&entries);
        if obs.open_err.is_some() || obs.err.is_some() || obs.got != entries || obs.setsum != Some(Ok(setsum)) {
            panic!("pristine log does not read back as generated: open={:?} err={:?} got {} of {} entries, setsum {:?}", obs.open_err, obs.err, obs.got.len(), entries.len(), obs.setsum.map(|r| r.is_ok()));
        }
        // the replay path and the torn-tail probe on the PRISTINE file (C12's business; everything
        // below compares against it)
        let want = sorted(&entries);
        if obs.collected != Some(Ok(Some(want.clone()))) {
            panic!("log_to_builder on the pristine log does not feed the builder the sorted entries of the log: {:?}", obs.collected.as_ref().map(|r| r.as_ref().map(|t| t.as_ref().map(|t| t.len()))));
        }
        let refused = sst_builder_refuses(&want);
        match &obs.table {
            None if bytes.len() > REAL_TABLE_MAX => {}
            Some(Ok(Some(t))) if !refused && *t == want && obs.table_walk_err.is_none() => {}
            Some(Err(_)) if refused => {}
            other => panic!("log_to_builder(SstBuilder) on the pristine log: expected {}, got {:?} (walk error {:?})", if refused { "a refusal by the builder" } else { "the sorted entries" }, other.as_ref().map(|r| r.as_ref().map(|t| t.as_ref().map(|t| t.len()))), obs.table_walk_err),
        }
        if obs.tfpf != Some(Ok(None)) {
            panic!("truncate_final_partial_frame on the pristine log says {:?}", obs.tfpf);
        }
        if layout.batch_ends.len() != batches.len() {
            panic!("independent log walker found {} batches, {} were written", layout.batch_ends.len(), batches.len());
        }
        let split = layout.frames.iter().any(|f| f.disc == 2);
        Ok(LogPristine { dir, bytes, layout, batches, entries, setsum, split })
    }

    fn regions<'a>(&self, p: &'a LogPristine) -> &'a formats::Regions {
        &p.layout.regions
    }
    fn sweepable(&self, p: &LogPristine, max_len: usize) -> bool {
        p.batches.len() >= 2 && p.bytes.len() <= max_len
    }

    fn eval(&self, _ctx: &Ctx, p: &LogPristine, plan: &[Dmg]) -> Outcome {
        let mut o = Outcome::pass();
        let (damaged, applied) = damage::apply(&p.bytes, &p.layout.regions, plan);
        let what = damage::describe_plan(&applied);
        for a in applied.iter() {
            o.label(a.label());
        }
        o.label(format!("damages:{}", plan.len()));
        let changed = damaged != p.bytes;
        o.nontrivial = changed && p.batches.len() >= 2;
        if !changed {
            o.label("outcome:file-unchanged");
        }
        if p.split {
            o.label("file:split-frame");
        }
        if p.batches.len() >= 2 {
            o.label("file:>=2-batches");
        }
        let path = p.dir.join("damaged.log");
        std::fs::write(&path, &damaged).expect("write damaged log");
        alloc::arm();
        let got = observe(&damaged, Some(&path), 4 * p.entries.len() + 8);
        let peak = alloc::disarm();
        let _ = std::fs::remove_file(&path);
        if sst_builder_refuses(&sorted(&p.entries)) {
            o.label("file:repeats-a-key@timestamp(SstBuilder-refuses-the-pristine-replay)");
        }
        let v = judge(p, &got, &damaged, &applied.iter().filter(|a| a.effective).map(|a| a.kind).collect::<Vec<_>>(), &what);
        for l in v.0 {
            o.label(l);
        }
        if let Some(f) = v.1 {
            o.fail(f.signature, f.message);
        }
        if peak > HUGE && peak > 16 * damaged.len() {
            let bounded = peak <= alloc::DOCUMENTED_BOUND + (4 << 20);
            o.label(format!("alloc:>64MiB-for-a-small-file({})", if bounded { "within-documented-bound" } else { "ABOVE-documented-bound" }));
            let msg = format!("the log reader requested a single allocation of {peak} bytes while reading a {}-byte file; damage: {what}", damaged.len());
            if !bounded {
                o.fail("log:alloc-above-documented-bound", msg);
            }
            // within the documented bound: the property ("never an unbounded allocation") holds; counted by the label above
        }
        o
    }
}

pub fn judge(p: &LogPristine, got: &LogObs, damaged: &[u8], kinds: &[&str], what: &str) -> (Vec<String>, Option<Failure>) {
    let mut labels = vec![];
    let mut failure: Option<Failure> = None;
    let mut fail = |sig: &str, msg: String| {
        if failure.is_none() {
            failure = Some(Failure::new(sig, format!("{msg}; damage: {what}")));
        }
    };
    if got.open_err.is_some() {
        labels.push("outcome:detected-at-open".into());
        return (labels, failure);
    }
    judge_tfpf(p, got, damaged, &mut labels, &mut fail);
    let common = p.entries.iter().zip(got.got.iter()).take_while(|(a, b)| a == b).count();
    let extra = &got.got[common..];
    let truncated = kinds.contains(&"truncate");
    let mut replay = false;
    let mut copied = false;
    if !extra.is_empty() {
        if kinds.contains(&"append-slice") && is_replay_of_whole_batches(extra, &p.batches) {
            replay = true;
        } else if kinds.contains(&"run-copy") && is_concat_of_whole_batches(extra, &p.batches) {
            // a copied run that is itself a whole CRC-valid frame of the same file, landing on a
            // frame boundary: well-formed content, like an appended slice (see the assumptions)
            replay = true;
            copied = true;
        } else {
            fail(
                "log:different-data",
                format!("entry #{common} read from the damaged log is {} but the pristine log holds {} there", vsst::tables::show_entry(got.got.get(common)), vsst::tables::show_entry(p.entries.get(common))),
            );
        }
    }
    if got.err.is_none() && common < p.entries.len() && !truncated && !copied {
        fail("log:silently-short", format!("the drain ended WITHOUT error after {common} of {} entries although nothing was truncated", p.entries.len()));
    }
    // log_to_setsum must agree with the drain of the same bytes
    match (&got.err, &got.setsum) {
        (Some(_), Some(Ok(_))) => fail("log:setsum-ignores-error", "log_to_setsum succeeded on a log whose drain fails".into()),
        (None, Some(Err(e))) => fail("log:setsum-error-on-clean-drain", format!("log_to_setsum failed ({e}) on a log whose drain ends cleanly")),
        (None, Some(Ok(d))) => {
            let want = if got.got == p.entries { p.setsum } else { setsum_of(&got.got) };
            if *d != want {
                fail("log:setsum-different", "log_to_setsum differs from the setsum of the entries the drain returned".into());
            }
        }
        _ => {}
    }
    // log_to_builder (the replay path) must agree with the drain of the same bytes: an error
    // whenever the drain fails, otherwise exactly the drained entries in sorted order
    let capped = got.err.as_deref() == Some("drain-exceeds-cap");
    let want = sorted(&got.got);
    for (name, res) in [("a collecting builder", &got.collected), ("an SstBuilder", &got.table)] {
        let real = name.contains("Sst");
        match (&got.err, res) {
            _ if capped => {}
            (Some(e), Some(Ok(t))) => fail("log:replay-ignores-error", format!("log_to_builder into {name} succeeded ({} entries) on a log whose drain fails after {} entries with {e}", t.as_ref().map(|t| t.len()).unwrap_or(0), got.got.len())),
            (None, Some(Ok(None))) => {
                if !want.is_empty() {
                    fail("log:replay-different-data", format!("log_to_builder into {name} produced nothing but the drain of the same bytes returns {} entries", want.len()));
                }
            }
            (None, Some(Ok(Some(t)))) => {
                if *t != want {
                    let i = t.iter().zip(want.iter()).take_while(|(a, b)| a == b).count();
                    fail(
                        "log:replay-different-data",
                        format!("log_to_builder into {name} produced {} entries, the drain of the same bytes returns {}; in sorted order entry #{i} is {} but should be {}", t.len(), want.len(), vsst::tables::show_entry(t.get(i)), vsst::tables::show_entry(want.get(i))),
                    );
                } else if real && got.table_walk_err.is_some() {
                    fail("log:replayed-table-unreadable", format!("the table sealed by log_to_builder cannot be walked: {:?}", got.table_walk_err));
                }
            }
            (None, Some(Err(e))) => {
                if real && sst_builder_refuses(&want) {
                    labels.push("replay:SstBuilder-refused(repeated-key@timestamp)".into());
                } else {
                    fail("log:replay-error-on-clean-drain", format!("log_to_builder into {name} failed ({e}) on a log whose drain ends cleanly after {} entries", got.got.len()));
                }
            }
            _ => {}
        }
    }
    if let (Some(Ok(Some(t))), None) = (&got.table, &got.err) {
        labels.push(if t.len() == p.entries.len() { "replay:table-holds-all-pristine-entries".into() } else { "replay:table-holds-a-genuine-prefix-or-replay".to_string() });
    }
    if got.err.is_some() && matches!(got.collected, Some(Err(_))) {
        labels.push("replay:error-like-the-drain".into());
    }
    labels.push(
        match (got.err.is_some(), common, replay) {
            (_, _, true) if copied => "outcome:replayed-whole-batches(copied-run-is-a-wellformed-frame)",
            (_, _, true) => "outcome:replayed-whole-batches(appended-slice-is-wellformed)",
            (true, 0, _) => "outcome:detected-before-any-data",
            (true, c, _) if c < p.entries.len() => "outcome:detected-after-genuine-prefix",
            (true, _, _) => "outcome:detected-after-all-data",
            (false, c, _) if c < p.entries.len() => "outcome:torn-tail-genuine-prefix(truncation)",
            (false, _, _) => "outcome:harmless",
        }
        .to_string(),
    );
    (labels, failure)
}

/// `truncate_final_partial_frame` walks the frames (CRC-checked) and names the end of the last
/// WHOLE / SECOND frame when the file ends after a FIRST frame.  What is sound to demand of
/// `Some(off)` for ANY damage: with d = the first byte at which the damaged file differs from the
/// pristine one (the cut point of a truncation) and b0 = the last pristine batch boundary <= d,
/// every frame that ends at or before d is a pristine frame, so (1) off >= b0 (no intact batch
/// before the damage is cut away), (2) off <= d implies off == b0 (an offset inside the undamaged
/// prefix is a pristine batch boundary - for a pure truncation this is always the case: the
/// offset is THE last batch boundary at or before the cut), (3) off <= file length.  Beyond d
/// nothing is demanded: headers carry no checksum, so a damaged discriminant can make the walker
/// accept or skip frames; `None` / `Err` are always acceptable (the function is a probe for one
/// corruption shape, not a verifier).  On an unchanged file the answer is the pristine one (None).
fn judge_tfpf(p: &LogPristine, got: &LogObs, damaged: &[u8], labels: &mut Vec<String>, fail: &mut impl FnMut(&str, String)) {
    let Some(res) = &got.tfpf else { return };
    if damaged == p.bytes.as_slice() {
        if *res != Ok(None) {
            fail("log:tfpf-differs-on-unchanged-file", format!("truncate_final_partial_frame says {res:?} on a file equal to the pristine one (pristine: Ok(None))"));
        }
        return;
    }
    let d = damage::first_difference(&p.bytes, damaged);
    let b0 = p.layout.batch_ends.iter().copied().filter(|b| *b <= d).max().unwrap_or(0);
    let pure_cut = damaged.len() < p.bytes.len() && d == damaged.len();
    match res {
        Err(_) => labels.push("tfpf:error".into()),
        Ok(None) => labels.push("tfpf:none".into()),
        Ok(Some(off)) => {
            let off = *off as usize;
            if off > damaged.len() {
                fail("log:tfpf-offset-beyond-file", format!("truncate_final_partial_frame names offset {off} in a file of {} bytes", damaged.len()));
            } else if off < b0 {
                fail("log:tfpf-cuts-intact-batch", format!("truncate_final_partial_frame names offset {off}, but the batch ending at {b0} lies entirely before the first damaged byte ({d}) and would be cut away"));
            } else if off <= d && off != b0 {
                fail("log:tfpf-not-a-batch-boundary", format!("truncate_final_partial_frame names offset {off}, inside the undamaged prefix (first damaged byte {d}) but not a batch boundary of the pristine file (the last one is {b0})"));
            }
            labels.push(if pure_cut { "tfpf:some(pure-truncation:last-batch-boundary-before-the-cut)".into() } else if off <= d { "tfpf:some(last-intact-batch-boundary)".into() } else { "tfpf:some(beyond-first-damaged-byte:nothing-demanded)".to_string() });
        }
    }
}
