//! Reference-free oracles over raw file bytes, shared (via `#[path]`) by the libFuzzer targets in
//! /verif/fuzz and by the `fuzz-corpus-replay` part.  No pristine file is known here, so the
//! oracle is internal consistency: no panic (the callers catch or crash on it), walks are strictly
//! ordered, the backward walk is the reverse of the forward walk, every walked entry is found by
//! `load`, `metadata()` names the first and last walked key, `Manifest::open` agrees with
//! `ManifestIterator`.  The setsum / timestamp fields of the SST final block are NOT checked
//! against the contents here: that is known finding R-O and would stop every campaign at once.
//!
//! Depends on `sst`, `mani` and std only.

use std::path::Path;

use sst::Cursor;

pub type Entry = (Vec<u8>, u64, Option<Vec<u8>>);
pub type Verdict = Result<Vec<&'static str>, (String, String)>;

fn walk<C: Cursor>(c: &mut C, forward: bool, cap: usize) -> (Vec<Entry>, bool) {
    let mut out = vec![];
    if (if forward { c.seek_to_first() } else { c.seek_to_last() }).is_err() {
        return (out, true);
    }
    loop {
        if (if forward { c.next() } else { c.prev() }).is_err() {
            return (out, true);
        }
        match c.key_value() {
            Some(kv) => out.push((kv.key.to_vec(), kv.timestamp, kv.value.map(|v| v.to_vec()))),
            None => return (out, false),
        }
        if out.len() > cap {
            return (out, true);
        }
    }
}

fn e(sig: &str, msg: String) -> Verdict {
    Err((sig.to_string(), msg))
}

pub fn sst_file(path: &Path, file_len: usize) -> Verdict {
    let mut labels = vec![];
    let table = match sst::Sst::<sst::file_manager::FileHandle>::new(sst::SstOptions::default(), path) {
        Ok(t) => t,
        Err(_) => return Ok(vec!["sst:rejected-at-open"]),
    };
    labels.push("sst:opened");
    // an entry takes at least 2 bytes of file
    let cap = file_len + 16;
    let (fwd, ferr) = walk(&mut table.cursor(), true, cap);
    let (mut bwd, berr) = walk(&mut table.cursor(), false, cap);
    bwd.reverse();
    for w in fwd.windows(2) {
        let ord = w[0].0.cmp(&w[1].0).then(w[1].1.cmp(&w[0].1));
        if ord != std::cmp::Ordering::Less {
            return e("sst-bytes:forward-walk-not-strictly-ordered", format!("{:?}@{} is followed by {:?}@{}", w[0].0, w[0].1, w[1].0, w[1].1));
        }
    }
    if !ferr && !berr {
        labels.push("sst:both-walks-complete");
        if fwd != bwd {
            return e("sst-bytes:backward-walk-differs", format!("forward walk has {} entries, backward walk {} and they are not mirror images", fwd.len(), bwd.len()));
        }
    } else {
        labels.push("sst:walk-error");
        // whatever the backward walk returned must be a suffix-compatible set of sorted entries
        for w in bwd.windows(2) {
            let ord = w[0].0.cmp(&w[1].0).then(w[1].1.cmp(&w[0].1));
            if ord != std::cmp::Ordering::Less {
                return e("sst-bytes:backward-walk-not-strictly-ordered", format!("{:?}@{} precedes {:?}@{}", w[0].0, w[0].1, w[1].0, w[1].1));
            }
        }
    }
    let n = fwd.len();
    for (i, (k, ts, v)) in fwd.iter().enumerate() {
        if i >= 48 && i + 48 < n {
            continue;
        }
        let mut tomb = false;
        match table.load(k, *ts, &mut tomb) {
            Err(_) => labels.push("sst:load-error"),
            Ok(got) => {
                if got != *v || tomb != v.is_none() {
                    return e("sst-bytes:load-differs-from-walk", format!("load({k:?}, {ts}) = {:?}/tombstone={tomb} but the walk returned {:?}", got.map(|x| x.len()), v.as_ref().map(|x| x.len())));
                }
            }
        }
    }
    if let Ok(m) = table.metadata() {
        if !ferr && !berr {
            if let (Some(f), Some(l)) = (fwd.first(), fwd.last()) {
                if m.first_key != f.0 || m.last_key != l.0 {
                    return e("sst-bytes:metadata-keys-differ-from-walk", format!("metadata() says {:?}..{:?}, the walk {:?}..{:?}", m.first_key, m.last_key, f.0, l.0));
                }
            }
        }
    }
    let _ = table.fast_setsum();
    labels.dedup();
    Ok(labels)
}

pub fn log_bytes(bytes: &[u8]) -> Verdict {
    let mut it = match sst::LogIterator::from_reader(sst::LogOptions::default(), std::io::Cursor::new(bytes.to_vec())) {
        Ok(it) => it,
        Err(_) => return Ok(vec!["log:rejected-at-open"]),
    };
    let mut n = 0usize;
    let mut payload = 0usize;
    loop {
        match it.next() {
            Ok(Some(kv)) => {
                n += 1;
                payload += kv.key.len() + kv.value.map(|v| v.len()).unwrap_or(0);
                // every entry returned was carried by CRC-covered bytes of the input
                if payload > bytes.len() {
                    return e("log-bytes:more-data-than-file", format!("{n} entries carry {payload} bytes, the file has {}", bytes.len()));
                }
            }
            Ok(None) => return Ok(vec![if n > 0 { "log:clean-end-with-data" } else { "log:clean-end-empty" }]),
            Err(_) => return Ok(vec![if n > 0 { "log:error-after-data" } else { "log:error-before-data" }]),
        }
    }
}

/// `dir` is wiped; the bytes are examined as `dir/MANIFEST`.
pub fn manifest_bytes(bytes: &[u8], dir: &Path) -> Verdict {
    let _ = std::fs::remove_dir_all(dir);
    std::fs::create_dir_all(dir).expect("scratch dir");
    let path = dir.join("MANIFEST");
    std::fs::write(&path, bytes).expect("write");
    let mut edits = 0usize;
    let mut failed = false;
    match mani::ManifestIterator::open(&path) {
        Ok(it) => {
            for item in it {
                match item {
                    Ok(_) => edits += 1,
                    Err(_) => {
                        failed = true;
                        break;
                    }
                }
                if edits > bytes.len() + 1 {
                    return e("mani-bytes:more-edits-than-lines", format!("{edits} edits from {} bytes", bytes.len()));
                }
            }
        }
        Err(_) => failed = true,
    }
    let opened = mani::Manifest::open(mani::ManifestOptions::default(), dir);
    let r = match (failed, opened.is_ok()) {
        (true, true) => e("mani-bytes:open-ignores-corruption", "Manifest::open succeeded on a file whose iteration fails".into()),
        (false, false) => e("mani-bytes:open-error-on-clean-file", "Manifest::open failed on a file whose iteration ends cleanly".into()),
        (true, false) => Ok(vec!["mani:rejected"]),
        (false, true) => Ok(vec![if edits > 0 { "mani:clean-with-edits" } else { "mani:clean-empty" }]),
    };
    drop(opened);
    let _ = std::fs::remove_dir_all(dir);
    r
}
