//! Manifest damage: `ManifestIterator` over the damaged file + `Manifest::verify` and
//! `Manifest::open` on a directory holding (a fresh copy of) it.

use std::collections::{BTreeMap, BTreeSet};
use std::path::{Path, PathBuf};

use proptest::prelude::*;
use serde::{Deserialize, Serialize};

use vcore::{Ctx, Failure, Outcome, Tier};

use crate::alloc;
use crate::damage::{self, Dmg};
use crate::engine::Target;
use crate::formats::{self, ManiLayout};
use crate::sstpart::HUGE;

#[derive(Clone, Debug, Default, PartialEq, Eq, Serialize, Deserialize)]
pub struct Txn {
    pub add: BTreeSet<String>,
    pub rm: BTreeSet<String>,
    pub info: BTreeMap<char, String>,
}

#[derive(Clone, Debug, Serialize, Deserialize)]
pub struct ManiSpec {
    pub txns: Vec<Txn>,
}

/// Info keys that are probed on `Edit` / `Manifest` (they expose no iterator over info fields):
/// every printable ASCII character except the add / remove actions.
fn info_candidates() -> impl Iterator<Item = char> {
    (0x20u8..0x7f).map(|b| b as char).filter(|c| *c != '+' && *c != '-')
}

pub fn to_edit(t: &Txn) -> mani::Edit {
    let mut e = mani::Edit::default();
    for s in t.add.iter() {
        e.add(s).expect("add");
    }
    for s in t.rm.iter() {
        e.rm(s).expect("rm");
    }
    for (c, s) in t.info.iter() {
        e.info(*c, s).expect("info");
    }
    e
}

/// Read an `Edit` back through its accessors; None if it holds something the accessors cannot
/// reach (an info key outside the probed set).
fn from_edit(e: &mani::Edit) -> Option<Txn> {
    let t = Txn { add: e.added().cloned().collect(), rm: e.rmed().cloned().collect(), info: info_candidates().filter_map(|c| e.get_info(c).map(|s| (c, s.clone()))).collect() };
    if to_edit(&t) == *e { Some(t) } else { None }
}

/// An independent parser of the text format (pristine files only).
pub fn parse_pristine(b: &[u8]) -> Result<Vec<Txn>, String> {
    let text = std::str::from_utf8(b).map_err(|_| "not utf-8")?;
    let mut out = vec![];
    let mut cur = Txn::default();
    let mut open = false;
    for line in text.split_terminator('\n') {
        if line == "--------" {
            out.push(std::mem::take(&mut cur));
            open = false;
            continue;
        }
        if line.len() < 9 || !line.is_char_boundary(8) {
            return Err("malformed line".into());
        }
        let want = u32::from_str_radix(&line[..8], 16).map_err(|_| "bad crc")?;
        if crc32c::crc32c(&line.as_bytes()[8..]) != want {
            return Err("crc mismatch".into());
        }
        let mut chars = line[8..].chars();
        let action = chars.next().unwrap();
        let payload = chars.as_str().to_string();
        open = true;
        match action {
            '+' => {
                cur.add.insert(payload);
            }
            '-' => {
                cur.rm.insert(payload);
            }
            c => {
                cur.info.insert(c, payload);
            }
        }
    }
    if open {
        return Err("unterminated transaction in a pristine file".into());
    }
    Ok(out)
}

/// The bytes after the last newline-terminated separator line are a non-empty sequence of whole
/// CRC-valid lines (the last may lack its newline) each of which is an item of the pristine
/// file.  Independent of `mani`.
pub fn unterminated_tail_of_pristine_lines(b: &[u8], items: &BTreeSet<String>) -> bool {
    let mut lines: Vec<&[u8]> = b.split(|c| *c == b'\n').collect();
    if lines.last().map(|l| l.is_empty()).unwrap_or(false) {
        lines.pop();
    }
    // a separator without its newline at the very end is not a separator line for this purpose
    let terminated = |i: usize| i + 1 < lines.len() || b.last() == Some(&b'\n');
    let start = lines.iter().enumerate().rposition(|(i, l)| *l == b"--------" && terminated(i)).map(|i| i + 1).unwrap_or(0);
    let tail = &lines[start..];
    !tail.is_empty()
        && tail.iter().all(|l| {
            let Ok(line) = std::str::from_utf8(l) else { return false };
            if line.len() < 9 || !line.is_char_boundary(8) {
                return false;
            }
            let Ok(want) = u32::from_str_radix(&line[..8], 16) else { return false };
            crc32c::crc32c(&line.as_bytes()[8..]) == want && items.contains(&line[8..])
        })
}

pub type State = (BTreeSet<String>, BTreeMap<char, String>);

pub fn fold(txns: &[Txn]) -> State {
    let mut strs = BTreeSet::new();
    let mut info = BTreeMap::new();
    for t in txns {
        for s in t.rm.iter() {
            strs.remove(s);
        }
        for s in t.add.iter() {
            strs.insert(s.clone());
        }
        for (c, s) in t.info.iter() {
            info.insert(*c, s.clone());
        }
    }
    (strs, info)
}

#[derive(Clone, Debug, Default)]
pub struct ManiObs {
    pub iter_open_err: Option<String>,
    /// None = an edit the accessors could not fully enumerate
    pub edits: Vec<Option<Txn>>,
    pub err: Option<String>,
    /// the errors `Manifest::verify` reports for the directory (before `open` rewrites it)
    pub verify: Option<Vec<String>>,
    pub open: Option<Result<(State, u64), String>>,
}

pub fn short(e: &handled::SError) -> String {
    vcore::truncate(&format!("{e:?}").replace('\n', " "), 240)
}

/// `file` holds the bytes to examine; `dir` is a scratch directory that is wiped and receives a
/// fresh copy as `dir/MANIFEST` (Manifest::open rewrites the file).
pub fn observe(bytes: &[u8], dir: &Path, cap: usize) -> ManiObs {
    let _ = std::fs::remove_dir_all(dir);
    std::fs::create_dir_all(dir).expect("mani dir");
    let path = dir.join("MANIFEST");
    std::fs::write(&path, bytes).expect("write manifest");
    let o = observe_dir(dir, &path, cap);
    let _ = std::fs::remove_dir_all(dir);
    o
}

/// Observe a prepared manifest directory: iterate the fragment at `path`, then `Manifest::verify`
/// (read-only), then `Manifest::open` (which rolls the live file over, so it comes last).
pub fn observe_dir(dir: &Path, path: &Path, cap: usize) -> ManiObs {
    let mut o = ManiObs::default();
    match mani::ManifestIterator::open(path) {
        Ok(it) => {
            for item in it {
                match item {
                    Ok(e) => o.edits.push(from_edit(&e)),
                    Err(e) => {
                        o.err = Some(short(&e));
                        break;
                    }
                }
                if o.edits.len() > cap {
                    o.err = Some("iteration-exceeds-cap".into());
                    break;
                }
            }
        }
        Err(e) => o.iter_open_err = Some(short(&e)),
    }
    o.verify = Some(mani::Manifest::verify(mani::ManifestOptions::default(), dir).map(|e| short(&e)).collect());
    o.open = Some(match mani::Manifest::open(mani::ManifestOptions::default(), dir) {
        Ok(m) => {
            let strs: BTreeSet<String> = m.strs().map(|s| s.to_string()).collect();
            let info: BTreeMap<char, String> = info_candidates().filter_map(|c| m.info(c).map(|s| (c, s.to_string()))).collect();
            Ok(((strs, info), m.size()))
        }
        Err(e) => Err(short(&e)),
    });
    o
}

pub struct ManiPristine {
    pub dir: PathBuf,
    pub bytes: Vec<u8>,
    pub layout: ManiLayout,
    pub edits: Vec<Txn>,
    pub items: BTreeSet<String>,
}

pub fn items_of(t: &Txn) -> Vec<String> {
    let mut v = vec![];
    v.extend(t.add.iter().map(|s| format!("+{s}")));
    v.extend(t.rm.iter().map(|s| format!("-{s}")));
    v.extend(t.info.iter().map(|(c, s)| format!("{c}{s}")));
    v
}

pub struct ManiDamage;

fn payload() -> impl Strategy<Value = String> {
    prop_oneof![
        // mostly setsum-like digests, as in lsmtk's manifests (long payloads also keep the writer from
        // rolling the file over into a single edit on every apply)
        3 => "[a-z0-9]{1,12}",
        8 => "[0-9a-f]{64}",
        1 => Just(String::new()),
        1 => "[a-z]{0,4}[éß→\u{1F980}][a-z]{0,4}",
        1 => "[ -~]{1,20}",
        1 => "-{8}",
    ]
}

pub fn txn_strategy() -> impl Strategy<Value = Txn> {
    let info_key = prop_oneof![Just('I'), Just('O'), Just('D'), Just('L'), Just('M'), Just('x'), Just('7')];
    (prop::collection::btree_set(payload(), 0..5), prop::collection::btree_set(payload(), 0..2), prop::collection::btree_map(info_key, payload(), 0..3)).prop_map(|(add, rm, info)| Txn { add, rm, info })
}

impl Target for ManiDamage {
    type Spec = ManiSpec;
    type Pristine = ManiPristine;

    fn name(&self) -> String {
        "manifest-damage".into()
    }
    fn files(&self, tier: Tier) -> u64 {
        tier.pick(800, 10_000)
    }
    fn plans_per_file(&self, tier: Tier) -> u64 {
        tier.pick(30, 50)
    }
    fn spec_strategy(&self, _: Tier) -> BoxedStrategy<ManiSpec> {
        prop::collection::vec(txn_strategy(), 1..7).prop_map(|txns| ManiSpec { txns }).boxed()
    }
    fn plan_strategy(&self) -> BoxedStrategy<Vec<Dmg>> {
        damage::plan_strategy(formats::MANI_CLASSES.iter().map(|c| (*c, if *c == "payload" || *c == "crc" { 2 } else { 1 })).collect())
    }

    fn build(&self, ctx: &Ctx, spec: &ManiSpec) -> Result<ManiPristine, String> {
        let dir = ctx.scratch.join("c09-mani");
        let build = dir.join("build");
        let _ = std::fs::remove_dir_all(&build);
        std::fs::create_dir_all(&dir).map_err(|e| format!("mkdir:{e}"))?;
        {
            let mut m = mani::Manifest::open(mani::ManifestOptions::default(), &build).map_err(|e| format!("open:{}", short(&e)))?;
            for t in spec.txns.iter() {
                m.apply(to_edit(t)).map_err(|e| format!("apply:{}", short(&e)))?;
            }
        }
        let bytes = std::fs::read(build.join("MANIFEST")).map_err(|e| format!("read:{e}"))?;
        let _ = std::fs::remove_dir_all(&build);
        let layout = formats::mani_layout(&bytes).unwrap_or_else(|e| panic!("the independent walker cannot tag the pristine manifest: {e}"));
        let edits = parse_pristine(&bytes).map_err(|e| format!("parse:{e}"))?;
        // the written file must carry the state the edits describe (C13's business; checked here
        // because everything below compares against it)
        if fold(&edits) != fold(&spec.txns) {
            panic!("pristine manifest does not carry the applied state");
        }
        let obs = observe(&bytes, &dir.join("d"), edits.len() + 2);
        let ok = obs.iter_open_err.is_none()
            && obs.err.is_none()
            && obs.edits.iter().cloned().collect::<Option<Vec<Txn>>>().as_ref() == Some(&edits)
            && matches!(&obs.open, Some(Ok((st, _))) if *st == fold(&edits))
            && obs.verify.as_ref().map(|v| v.is_empty()).unwrap_or(false);
        if !ok {
            panic!("pristine manifest does not read back as written: {:?}", obs);
        }
        let items = edits.iter().flat_map(items_of).collect();
        Ok(ManiPristine { dir, bytes, layout, edits, items })
    }

    fn regions<'a>(&self, p: &'a ManiPristine) -> &'a formats::Regions {
        &p.layout.regions
    }
    fn sweepable(&self, p: &ManiPristine, max_len: usize) -> bool {
        p.edits.len() >= 2 && p.bytes.len() <= max_len
    }

    fn eval(&self, _ctx: &Ctx, p: &ManiPristine, plan: &[Dmg]) -> Outcome {
        let mut o = Outcome::pass();
        let (damaged, applied) = damage::apply(&p.bytes, &p.layout.regions, plan);
        let what = damage::describe_plan(&applied);
        for a in applied.iter() {
            o.label(a.label());
        }
        o.label(format!("damages:{}", plan.len()));
        let changed = damaged != p.bytes;
        o.nontrivial = changed && p.edits.len() >= 2;
        if !changed {
            o.label("outcome:file-unchanged");
        }
        if p.edits.len() >= 2 {
            o.label("file:>=2-edits");
        }
        alloc::arm();
        let got = observe(&damaged, &p.dir.join("d"), 4 * p.edits.len() + 8);
        let peak = alloc::disarm();
        let kinds: Vec<&str> = applied.iter().filter(|a| a.effective).map(|a| a.kind).collect();
        let (labels, failure) = judge(&p.edits, &p.items, &damaged, &got, &kinds, &what, true);
        for l in labels {
            o.label(l);
        }
        if let Some(f) = failure {
            o.fail(f.signature, f.message);
        }
        if peak > HUGE && peak > 16 * damaged.len() {
            o.fail("mani:alloc-huge", format!("a single allocation of {peak} bytes was requested for a {}-byte manifest; damage: {what}", damaged.len()));
        }
        o
    }
}

/// `edits` / `items`: what the pristine version of the examined fragment holds.  `open_reads_it`:
/// the examined fragment is the live MANIFEST, so `Manifest::open` must agree with its iteration
/// (for a backup fragment the caller judges `open` itself).
pub fn judge(edits: &[Txn], items: &BTreeSet<String>, damaged: &[u8], got: &ManiObs, kinds: &[&str], what: &str, open_reads_it: bool) -> (Vec<String>, Option<Failure>) {
    struct P<'a> {
        edits: &'a [Txn],
        items: &'a BTreeSet<String>,
    }
    let p = P { edits, items };
    let mut labels = vec![];
    let mut failure: Option<Failure> = None;
    let mut fail = |sig: &str, msg: String| {
        if failure.is_none() {
            failure = Some(Failure::new(sig, format!("{msg}; damage: {what}")));
        }
    };
    let iter_failed = got.iter_open_err.is_some() || got.err.is_some();
    let common = p.edits.iter().zip(got.edits.iter()).take_while(|(a, b)| Some(*a) == b.as_ref()).count();
    let extra = &got.edits[common..];
    let mut replay = false;
    let mut copied = false;
    if !extra.is_empty() {
        let from_pristine_lines = extra.iter().all(|e| match e {
            Some(t) => items_of(t).iter().all(|i| p.items.contains(i)),
            None => false,
        });
        if kinds.contains(&"append-slice") && from_pristine_lines {
            replay = true;
        } else if kinds.contains(&"run-copy") && from_pristine_lines {
            // a copied run that consists of whole CRC-valid lines (or a separator) of the same
            // file, landing on a line boundary: well-formed content, like an appended slice
            replay = true;
            copied = true;
        } else {
            fail("mani:different-data", format!("edit #{common} read from the damaged manifest is {:?} but the pristine manifest holds {:?} there", extra[0], p.edits.get(common)));
        }
    }
    // a copied run that replaces the LAST separator by a whole CRC-valid line of the same file
    // (e.g. the 9 bytes `<crc>+` of an added empty string) leaves a file that ends in an
    // unterminated transaction of well-formed lines: indistinguishable from a transaction whose
    // separator was never written, which the reader documents as a clean end
    let lookalike = extra.is_empty() && kinds.contains(&"run-copy") && unterminated_tail_of_pristine_lines(damaged, p.items);
    if !iter_failed && common < p.edits.len() && !kinds.contains(&"truncate") && !copied && !lookalike {
        fail("mani:silently-short", format!("iteration ended WITHOUT error after {common} of {} edits although nothing was truncated", p.edits.len()));
    }
    // Manifest::verify reads every fragment with the same reader: it must report at least one
    // error when the iteration of the examined fragment fails, and exactly what it reports for
    // the pristine directory (nothing) when the fragment still holds the pristine edits
    let harmless = !iter_failed && got.edits.len() == p.edits.len() && common == p.edits.len();
    if let Some(errs) = &got.verify {
        if iter_failed && errs.is_empty() {
            fail("mani:verify-ignores-corruption", "Manifest::verify reports nothing for a directory holding a fragment whose iteration fails".into());
        } else if harmless && !errs.is_empty() {
            fail("mani:verify-error-on-unchanged-content", format!("Manifest::verify reports {} although the damaged fragment still reads as the pristine edits", vcore::truncate(&errs.join("; "), 300)));
        }
        labels.push(
            match (iter_failed, harmless, errs.is_empty()) {
                (true, _, _) => "verify:reports-the-unreadable-fragment",
                (false, true, _) => "verify:silent(content-unchanged)",
                (false, false, true) => "verify:silent(clean-prefix-or-replay)",
                (false, false, false) => "verify:reports-chain-mismatch(clean-prefix-or-replay)",
            }
            .to_string(),
        );
    }
    // Manifest::open must agree with the iterator over the same bytes
    match (&got.open, iter_failed) {
        _ if !open_reads_it => {}
        (Some(Ok(_)), true) => fail("mani:open-ignores-corruption", "Manifest::open succeeded on a file whose iteration fails".into()),
        (Some(Err(e)), false) => fail("mani:open-error-on-clean-file", format!("Manifest::open failed ({e}) on a file whose iteration ends cleanly")),
        (Some(Ok((state, size))), false) => {
            if let Some(edits) = got.edits.iter().cloned().collect::<Option<Vec<Txn>>>() {
                let want = fold(&edits);
                let want_size: u64 = want.0.iter().map(|s| s.len() as u64).sum::<u64>() + want.1.values().map(|s| s.len() as u64).sum::<u64>();
                if *state != want || *size != want_size {
                    fail("mani:open-different-state", format!("Manifest::open holds {state:?} (size {size}) but the edits of the file fold to {want:?} (size {want_size})"));
                }
            }
        }
        _ => {}
    }
    labels.push(
        match (iter_failed, common, replay) {
            (false, c, _) if lookalike && c < p.edits.len() => "outcome:unterminated-tail(copied-run-replaced-a-separator-by-a-wellformed-line)",
            (_, _, true) if copied => "outcome:replayed-whole-lines(copied-run-is-wellformed)",
            (_, _, true) => "outcome:replayed-whole-lines(appended-slice-is-wellformed)",
            (true, 0, _) => "outcome:detected-before-any-data",
            (true, c, _) if c < p.edits.len() => "outcome:detected-after-genuine-prefix",
            (true, _, _) => "outcome:detected-after-all-data",
            (false, c, _) if c < p.edits.len() => "outcome:torn-tail-genuine-prefix(truncation)",
            (false, _, _) => "outcome:harmless",
        }
        .to_string(),
    );
    (labels, failure)
}
