//! The explorer shared by the three damage parts: a proptest `TestRunner` is used as generator
//! only; each generated pristine file is damaged many times, and every damage plan counts as one
//! evaluation.  Failures are shrunk with the value trees proptest handed out (plan first, then the
//! file), so the saved replay is a small file with a short plan.

use std::fmt::Debug;

use proptest::strategy::{BoxedStrategy, Strategy, ValueTree};
use proptest::test_runner::{Config, RngSeed, TestRunner};
use serde::de::DeserializeOwned;
use serde::{Deserialize, Serialize};
use serde_json::{Value, json};

use vcore::{Ctx, Failure, Outcome, Part, Tier, ViolationRec, WorkerReport};

use crate::alloc;
use crate::damage::{Dmg, Fill};

pub trait Target: Sync {
    type Spec: Debug + Clone + Serialize + DeserializeOwned + 'static;
    type Pristine;
    fn name(&self) -> String;
    fn files(&self, tier: Tier) -> u64;
    fn plans_per_file(&self, tier: Tier) -> u64;
    fn spec_strategy(&self, tier: Tier) -> BoxedStrategy<Self::Spec>;
    fn plan_strategy(&self) -> BoxedStrategy<Vec<Dmg>>;
    /// Build the pristine file and observe it.  `Err` = the spec is outside the domain (counted).
    fn build(&self, ctx: &Ctx, spec: &Self::Spec) -> Result<Self::Pristine, String>;
    fn eval(&self, ctx: &Ctx, pristine: &Self::Pristine, plan: &[Dmg]) -> Outcome;
    fn regions<'a>(&self, pristine: &'a Self::Pristine) -> &'a crate::formats::Regions;
    /// Suitable for the exhaustive part: structurally non-trivial and at most `max_len` bytes.
    fn sweepable(&self, pristine: &Self::Pristine, max_len: usize) -> bool;
}

#[derive(Clone, Debug, Serialize, Deserialize)]
pub struct Case<S> {
    pub spec: S,
    pub plan: Vec<Dmg>,
}

pub struct DamagePart<T: Target>(pub T);

fn eval_guarded<T: Target>(t: &T, ctx: &Ctx, pristine: &T::Pristine, plan: &[Dmg]) -> Outcome {
    match vcore::guard(|| t.eval(ctx, pristine, plan)) {
        Ok(o) => o,
        Err(f) => {
            alloc::disarm();
            Outcome { nontrivial: true, failure: Some(f), ..Default::default() }
        }
    }
}

/// proptest's shrink loop over one value tree; `fails` says whether a value still fails with the
/// wanted signature.  Returns the smallest failing value seen (the start value if none smaller).
fn shrink<V: ValueTree>(tree: &mut V, mut fails: impl FnMut(&V::Value) -> bool, mut budget: u32) -> V::Value {
    let mut best = tree.current();
    if !tree.simplify() {
        return best;
    }
    while budget > 0 {
        budget -= 1;
        let cur = tree.current();
        if fails(&cur) {
            best = cur;
            if !tree.simplify() {
                break;
            }
        } else if !tree.complicate() {
            break;
        }
    }
    best
}

impl<T: Target> DamagePart<T> {
    fn run_case(&self, ctx: &Ctx, case: &Case<T::Spec>) -> Outcome {
        match vcore::guard(|| self.0.build(ctx, &case.spec)) {
            Ok(Ok(p)) => eval_guarded(&self.0, ctx, &p, &case.plan),
            Ok(Err(why)) => {
                let mut o = Outcome::pass();
                o.label(format!("out-of-domain:{why}"));
                o
            }
            Err(f) => Outcome { nontrivial: true, failure: Some(Failure::new(format!("pristine:{}", f.signature), f.message)), ..Default::default() },
        }
    }
}

impl<T: Target> Part for DamagePart<T> {
    fn name(&self) -> String {
        self.0.name()
    }

    fn worker(&self, ctx: &Ctx) -> WorkerReport {
        let t = &self.0;
        let name = t.name();
        let mut rep = WorkerReport::default();
        let seed = vcore::mix(ctx.seed ^ vcore::mix(ctx.worker as u64 + 1) ^ vcore::hash_str(&name));
        let mut runner = TestRunner::new(Config { rng_seed: RngSeed::Fixed(seed), failure_persistence: None, ..Config::default() });
        let spec_strategy = t.spec_strategy(ctx.tier);
        let plan_strategy = t.plan_strategy();
        let files = t.files(ctx.tier);
        let per_file = t.plans_per_file(ctx.tier);
        let mut violations = 0;
        'files: for _ in 0..files {
            let mut spec_tree = spec_strategy.new_tree(&mut runner).expect("spec tree");
            let spec = spec_tree.current();
            let spec_json = serde_json::to_vec(&spec).unwrap_or_default();
            let spec_hash = vcore::hash_bytes(&spec_json);
            let pristine = match vcore::guard(|| t.build(ctx, &spec)) {
                Ok(Ok(p)) => p,
                Ok(Err(why)) => {
                    let mut o = Outcome::pass();
                    o.label(format!("out-of-domain:{why}"));
                    rep.record(&name, spec_hash, || Value::Null, &o);
                    continue;
                }
                Err(f) => {
                    // building or reading the PRISTINE file panicked: not damage-related, but a failure
                    let o = Outcome { nontrivial: true, failure: Some(Failure::new(format!("pristine:{}", f.signature), f.message.clone())), ..Default::default() };
                    rep.record(&name, spec_hash, || Value::Null, &o);
                    rep.violations.push(ViolationRec { part: name.clone(), case: json!({"spec": spec, "plan": []}), signature: format!("pristine:{}", f.signature), message: f.message, shrunk: false });
                    continue;
                }
            };
            let current = alloc::CurrentCase::new(&ctx.scratch, &name, &spec_json);
            for _ in 0..per_file {
                let mut plan_tree = plan_strategy.new_tree(&mut runner).expect("plan tree");
                let plan = plan_tree.current();
                let plan_json = serde_json::to_vec(&plan).unwrap_or_default();
                let hash = spec_hash ^ vcore::hash_bytes(&plan_json);
                current.set_plan(plan_json);
                let out = eval_guarded(t, ctx, &pristine, &plan);
                rep.record(&name, hash, || json!({"spec": spec, "plan": plan}), &out);
                let Some(f) = out.failure else { continue };
                // shrink: first the plan against the same file, then the file under the shrunk plan
                let sig = f.signature.clone();
                let plan = shrink(&mut plan_tree, |p| eval_guarded(t, ctx, &pristine, p).failure.map(|g| g.signature == sig).unwrap_or(false), 400);
                current.set_plan(serde_json::to_vec(&plan).unwrap_or_default());
                let small_spec = shrink(
                    &mut spec_tree,
                    |s| match vcore::guard(|| t.build(ctx, s)) {
                        Ok(Ok(p)) => eval_guarded(t, ctx, &p, &plan).failure.map(|g| g.signature == sig).unwrap_or(false),
                        _ => false,
                    },
                    300,
                );
                let case = Case { spec: small_spec, plan };
                let out = self.run_case(ctx, &case);
                let f = out.failure.unwrap_or(f);
                rep.violations.push(ViolationRec { part: name.clone(), case: serde_json::to_value(&case).unwrap_or(Value::Null), signature: f.signature, message: f.message, shrunk: true });
                violations += 1;
                if violations >= 6 {
                    rep.notes.push(format!("{name}: stopped after {violations} failing cases in this worker"));
                    break 'files;
                }
                continue 'files;
            }
        }
        alloc::clear_current();
        let _ = std::fs::remove_file(ctx.scratch.join("current.json"));
        rep
    }

    fn replay(&self, ctx: &Ctx, case: &Value) -> Outcome {
        match serde_json::from_value::<Case<T::Spec>>(case.clone()) {
            Ok(c) => self.run_case(ctx, &c),
            Err(e) => {
                let mut o = Outcome::pass();
                o.inconclusive = true;
                o.label(format!("replay-parse-error: {e}"));
                o
            }
        }
    }
}

/////////////////////////////////////////// exhaustive part //////////////////////////////////////////

/// Every single-bit flip, every truncation length and the overwrites 0x00 / 0xff at EVERY offset of
/// a few generated files.  The files are the same in all workers (the generator seed does not
/// include the worker index); worker w takes the offsets whose index is congruent to w.  A failing
/// case is reported under the corresponding damage part (same case format), so it replays there.
pub struct ExhaustivePart<T: Target> {
    pub target: T,
    pub name: &'static str,
    pub quick_files: u64,
    pub thorough_files: u64,
    pub max_len: usize,
}

/// The smallest selector that `sel` maps to `idx` of `total`.
pub fn selector_for(idx: usize, total: usize) -> u16 {
    (((idx as u64) << 16).div_ceil(total as u64)) as u16
}

impl<T: Target> Part for ExhaustivePart<T> {
    fn name(&self) -> String {
        self.name.to_string()
    }

    fn worker(&self, ctx: &Ctx) -> WorkerReport {
        let t = &self.target;
        let name = self.name();
        let mut rep = WorkerReport::default();
        let seed = vcore::mix(ctx.seed ^ vcore::hash_str(&name));
        let mut runner = TestRunner::new(Config { rng_seed: RngSeed::Fixed(seed), failure_persistence: None, ..Config::default() });
        let strategy = t.spec_strategy(ctx.tier);
        let files = ctx.tier.pick(self.quick_files, self.thorough_files);
        let mut done = 0;
        let mut tries = 0;
        let mut counter = 0usize;
        while done < files && tries < 5_000 {
            tries += 1;
            let spec = strategy.new_tree(&mut runner).expect("spec tree").current();
            let Ok(Ok(pristine)) = vcore::guard(|| t.build(ctx, &spec)) else { continue };
            if !t.sweepable(&pristine, self.max_len) {
                continue;
            }
            done += 1;
            let spec_json = serde_json::to_vec(&spec).unwrap_or_default();
            let spec_hash = vcore::hash_bytes(&spec_json);
            let current = alloc::CurrentCase::new(&ctx.scratch, &t.name(), &spec_json);
            let classes: Vec<(String, usize)> = t.regions(&pristine).classes.iter().map(|(c, v)| (c.clone(), v.iter().map(|r| r.len()).sum())).collect();
            for (class, total) in classes {
                if total == 0 || total > 65_536 {
                    continue;
                }
                for idx in 0..total {
                    counter += 1;
                    if counter % ctx.nworkers != ctx.worker {
                        continue;
                    }
                    let pos = selector_for(idx, total);
                    let mut plans: Vec<Dmg> = (0..8).map(|bit| Dmg::Flip { region: class.clone(), pos, bit }).collect();
                    plans.push(Dmg::Truncate { region: class.clone(), pos });
                    plans.push(Dmg::Set { region: class.clone(), pos, val: 0 });
                    plans.push(Dmg::Set { region: class.clone(), pos, val: 0xff });
                    plans.push(Dmg::Run { region: class.clone(), pos, len: 64, fill: Fill::Zeros });
                    plans.push(Dmg::Run { region: class.clone(), pos, len: 5, fill: Fill::Ones });
                    for d in plans {
                        let plan = vec![d];
                        let plan_json = serde_json::to_vec(&plan).unwrap_or_default();
                        let hash = spec_hash ^ vcore::hash_bytes(&plan_json);
                        current.set_plan(plan_json);
                        let mut out = eval_guarded(t, ctx, &pristine, &plan);
                        out.label("every-offset-of-this-file-enumerated");
                        rep.record(&name, hash, || json!({"spec": spec, "plan": plan}), &out);
                        if let Some(f) = out.failure {
                            if rep.violations.len() < 4 {
                                rep.violations.push(ViolationRec { part: t.name(), case: json!({"spec": spec, "plan": plan}), signature: f.signature, message: f.message, shrunk: false });
                            }
                        }
                    }
                }
            }
        }
        if done < files {
            rep.notes.push(format!("{name}: only {done} of {files} sweepable files were generated"));
        }
        alloc::clear_current();
        let _ = std::fs::remove_file(ctx.scratch.join("current.json"));
        rep
    }

    fn replay(&self, _ctx: &Ctx, _case: &Value) -> Outcome {
        // failures of this part are recorded under the damage part of the same file type
        let mut o = Outcome::pass();
        o.inconclusive = true;
        o.label("replay through the corresponding *-damage part");
        o
    }
}
