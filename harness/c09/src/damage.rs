//! Damage plans: 1–3 of {bit flip, byte overwrite, truncation, appended suffix, overwritten run of
//! 2–64 bytes}, positions drawn per region class so that small regions are hit as often as large
//! ones.

use proptest::prelude::*;
use serde::{Deserialize, Serialize};

use crate::formats::Regions;

#[derive(Clone, Debug, PartialEq, Eq, Serialize, Deserialize)]
pub enum Dmg {
    /// flip bit `bit` of the `pos`-selected byte of region class `region`
    Flip { region: String, pos: u16, bit: u8 },
    /// overwrite the `pos`-selected byte of the class with `val`
    Set { region: String, pos: u16, val: u8 },
    /// cut the file just before the `pos`-selected byte of the class
    Truncate { region: String, pos: u16 },
    /// flip a bit of the byte FOLLOWING the previous damage's byte (clustered damage: bursts that hit
    /// several bytes of one varint / header / trailer)
    FlipNext { bit: u8 },
    /// overwrite the byte following the previous damage's byte
    SetNext { val: u8 },
    AppendRandom { bytes: Vec<u8> },
    AppendZeros { n: u16 },
    /// append `file[from .. from+len]` of the pristine file (`to_end`: up to its end)
    AppendSlice { from: u16, len: u16, to_end: bool },
    /// overwrite a run of `len` (2..=64) consecutive bytes starting at the `pos`-selected byte of
    /// the class (a zeroed / garbage / misdirected sector fragment); the run is clipped at the
    /// current end of the file
    Run { region: String, pos: u16, len: u8, fill: Fill },
}

/// What a `Dmg::Run` writes.
#[derive(Clone, Debug, PartialEq, Eq, Serialize, Deserialize)]
pub enum Fill {
    Zeros,
    Ones,
    /// `bytes[i]` for the i-th byte of the run (0xa5 beyond the vector)
    Random { bytes: Vec<u8> },
    /// a copy of the pristine bytes at another offset of the same file that is congruent to the
    /// destination modulo `1 << align_log2` (a misdirected write); `from` selects among the
    /// candidate sources in file order; if the file has no other offset with that alignment the
    /// alignment is halved until one exists
    Copy { from: u16, align_log2: u8 },
}

impl Dmg {
    pub fn kind(&self) -> &'static str {
        match self {
            Dmg::Flip { .. } => "flip",
            Dmg::Set { .. } => "set",
            Dmg::Truncate { .. } => "truncate",
            Dmg::FlipNext { .. } => "flip",
            Dmg::SetNext { .. } => "set",
            Dmg::AppendRandom { .. } => "append-random",
            Dmg::AppendZeros { .. } => "append-zeros",
            Dmg::AppendSlice { .. } => "append-slice",
            Dmg::Run { fill: Fill::Zeros, .. } => "run-zeros",
            Dmg::Run { fill: Fill::Ones, .. } => "run-ones",
            Dmg::Run { fill: Fill::Random { .. }, .. } => "run-random",
            Dmg::Run { fill: Fill::Copy { .. }, .. } => "run-copy",
        }
    }
}

/// Kinds that change the length of the file (everything else overwrites in place).
pub fn changes_length(kind: &str) -> bool {
    matches!(kind, "truncate" | "append-random" | "append-zeros" | "append-slice")
}

/// The first offset at which `damaged` differs from `pristine` (the shorter length if one is a
/// prefix of the other; the common length if they are equal).
pub fn first_difference(pristine: &[u8], damaged: &[u8]) -> usize {
    pristine.iter().zip(damaged.iter()).position(|(a, b)| a != b).unwrap_or(pristine.len().min(damaged.len()))
}

/// What one damage did, resolved against the pristine file.
#[derive(Clone, Debug)]
pub struct Applied {
    pub kind: &'static str,
    /// region class of the touched byte (for appends: "eof")
    pub region: String,
    pub offset: usize,
    /// number of consecutive bytes overwritten in place starting at `offset` (1 for a flip or a
    /// single-byte overwrite, the clipped length for a run, 0 for truncations and appends)
    pub span: usize,
    pub detail: String,
    /// false if the damage could not be applied (empty class, offset beyond a previous truncation)
    /// or did not change anything
    pub effective: bool,
}

impl Applied {
    pub fn label(&self) -> String {
        if self.effective {
            format!("dmg:{}@{}", self.kind, self.region)
        } else {
            format!("dmg-noop:{}@{}", self.kind, self.region)
        }
    }
    /// Every region class that the damage overwrote a byte of ("eof" for bytes beyond the pristine
    /// length).  For single-byte damages, truncations and appends this is just `region`.
    pub fn touched_classes(&self, regions: &Regions) -> Vec<String> {
        if self.span <= 1 {
            return vec![self.region.clone()];
        }
        let mut v: Vec<String> = vec![];
        for o in self.offset..self.offset + self.span {
            let c = if o >= regions.len { "eof" } else { regions.class_of(o) };
            if !v.iter().any(|x| x == c) {
                v.push(c.to_string());
            }
        }
        v
    }
    pub fn describe(&self) -> String {
        format!("{} in {} at offset {}{}{}", self.kind, self.region, self.offset, if self.detail.is_empty() { "" } else { " " }, self.detail)
    }
}

pub fn apply(pristine: &[u8], regions: &Regions, plan: &[Dmg]) -> (Vec<u8>, Vec<Applied>) {
    let mut cur = pristine.to_vec();
    let mut out: Vec<Applied> = vec![];
    for d in plan {
        let kind = d.kind();
        // the byte after the previous in-place damage, if there was one
        let next = out.last().filter(|a| a.effective && a.region != "eof" && a.kind != "truncate").map(|a| a.offset + a.span.max(1)).filter(|o| *o < cur.len() && *o < pristine.len());
        let a = match d {
            Dmg::FlipNext { bit } => match next {
                Some(off) => {
                    let old = cur[off];
                    cur[off] ^= 1 << (bit & 7);
                    Applied { kind, region: regions.class_of(off).to_string(), offset: off, span: 1, detail: format!("bit {} ({old:#04x} -> {:#04x}) [adjacent]", bit & 7, cur[off]), effective: true }
                }
                None => Applied { kind, region: "adjacent".into(), offset: 0, span: 0, detail: "not applicable".into(), effective: false },
            },
            Dmg::SetNext { val } => match next {
                Some(off) => {
                    let old = cur[off];
                    cur[off] = *val;
                    Applied { kind, region: regions.class_of(off).to_string(), offset: off, span: 1, detail: format!("({old:#04x} -> {val:#04x}) [adjacent]"), effective: old != *val }
                }
                None => Applied { kind, region: "adjacent".into(), offset: 0, span: 0, detail: "not applicable".into(), effective: false },
            },
            Dmg::Flip { region, pos, bit } => match regions.pick(region, *pos) {
                Some(off) if off < cur.len() => {
                    let old = cur[off];
                    cur[off] ^= 1 << (bit & 7);
                    Applied { kind, region: region.clone(), offset: off, span: 1, detail: format!("bit {} ({old:#04x} -> {:#04x})", bit & 7, cur[off]), effective: true }
                }
                other => Applied { kind, region: region.clone(), offset: other.unwrap_or(0), span: 0, detail: "not applicable".into(), effective: false },
            },
            Dmg::Set { region, pos, val } => match regions.pick(region, *pos) {
                Some(off) if off < cur.len() => {
                    let old = cur[off];
                    cur[off] = *val;
                    Applied { kind, region: region.clone(), offset: off, span: 1, detail: format!("({old:#04x} -> {val:#04x})"), effective: old != *val }
                }
                other => Applied { kind, region: region.clone(), offset: other.unwrap_or(0), span: 0, detail: "not applicable".into(), effective: false },
            },
            Dmg::Truncate { region, pos } => match regions.pick(region, *pos) {
                Some(off) if off < cur.len() => {
                    let was = cur.len();
                    cur.truncate(off);
                    Applied { kind, region: region.clone(), offset: off, span: 0, detail: format!("(length {was} -> {off})"), effective: true }
                }
                other => Applied { kind, region: region.clone(), offset: other.unwrap_or(0), span: 0, detail: "not applicable".into(), effective: false },
            },
            Dmg::AppendRandom { bytes } => {
                let off = cur.len();
                cur.extend_from_slice(bytes);
                Applied { kind, region: "eof".into(), offset: off, span: 0, detail: format!("({} bytes)", bytes.len()), effective: !bytes.is_empty() }
            }
            Dmg::AppendZeros { n } => {
                let off = cur.len();
                cur.resize(off + *n as usize, 0);
                Applied { kind, region: "eof".into(), offset: off, span: 0, detail: format!("({n} zero bytes)"), effective: *n > 0 }
            }
            Dmg::AppendSlice { from, len, to_end } => {
                let off = cur.len();
                if pristine.is_empty() {
                    Applied { kind, region: "eof".into(), offset: off, span: 0, detail: "not applicable".into(), effective: false }
                } else {
                    let a = vcore::gens::sel(*from, pristine.len());
                    let b = if *to_end { pristine.len() } else { a + 1 + vcore::gens::sel(*len, pristine.len() - a) };
                    cur.extend_from_slice(&pristine[a..b]);
                    Applied { kind, region: "eof".into(), offset: off, span: 0, detail: format!("(pristine[{a}..{b}], first byte in {})", regions.class_of(a)), effective: true }
                }
            }
            Dmg::Run { region, pos, len, fill } => match regions.pick(region, *pos) {
                Some(off) if off < cur.len() => {
                    let n = ((*len).clamp(2, 64) as usize).min(cur.len() - off);
                    let source = match fill {
                        Fill::Copy { from, align_log2 } => copy_source(pristine.len(), off, n, *from, *align_log2),
                        _ => None,
                    };
                    if matches!(fill, Fill::Copy { .. }) && source.is_none() {
                        Applied { kind, region: region.clone(), offset: off, span: 0, detail: "not applicable (no other offset to copy from)".into(), effective: false }
                    } else {
                        let old = cur[off..off + n].to_vec();
                        for i in 0..n {
                            cur[off + i] = match fill {
                                Fill::Zeros => 0,
                                Fill::Ones => 0xff,
                                Fill::Random { bytes } => bytes.get(i).copied().unwrap_or(0xa5),
                                Fill::Copy { .. } => pristine[source.unwrap().0 + i],
                            };
                        }
                        let detail = match source {
                            Some((s, a)) => format!("({n} bytes copied from pristine[{s}..{}], offsets congruent modulo {a})", s + n),
                            None => format!("({n} bytes)"),
                        };
                        Applied { kind, region: region.clone(), offset: off, span: n, detail, effective: old != cur[off..off + n] }
                    }
                }
                other => Applied { kind, region: region.clone(), offset: other.unwrap_or(0), span: 0, detail: "not applicable".into(), effective: false },
            },
        };
        out.push(a);
    }
    (cur, out)
}

/// The source of a copied run: the `from`-selected offset `s != dst` with `s + n <= len` and
/// `s == dst (mod 1 << align_log2)`; the alignment is halved while no such offset exists.
/// Returns (source offset, alignment used).
pub fn copy_source(len: usize, dst: usize, n: usize, from: u16, align_log2: u8) -> Option<(usize, usize)> {
    if n == 0 || n > len {
        return None;
    }
    let mut a = 1usize << align_log2.min(12);
    loop {
        // candidates: dst % a + k * a for k = 0.. while the run fits, except dst itself
        let first = dst % a;
        let last_start = len - n;
        if first <= last_start {
            let count = (last_start - first) / a + 1;
            let dst_is_candidate = dst <= last_start;
            let usable = count - usize::from(dst_is_candidate);
            if usable > 0 {
                let mut k = vcore::gens::sel(from, usable);
                if dst_is_candidate && first + k * a >= dst {
                    k += 1;
                }
                return Some((first + k * a, a));
            }
        }
        if a == 1 {
            return None;
        }
        a /= 2;
    }
}

fn fill() -> impl Strategy<Value = Fill> {
    prop_oneof![
        2 => Just(Fill::Zeros),
        1 => Just(Fill::Ones),
        2 => prop::collection::vec(any::<u8>(), 64).prop_map(|bytes| Fill::Random { bytes }),
        3 => (any::<u16>(), prop_oneof![Just(12u8), Just(9u8), Just(6u8), Just(3u8), Just(0u8)]).prop_map(|(from, align_log2)| Fill::Copy { from, align_log2 }),
    ]
}

fn byte_value() -> impl Strategy<Value = u8> {
    prop_oneof![4 => any::<u8>(), 1 => Just(0u8), 1 => Just(0xffu8), 1 => Just(0x7fu8), 1 => Just(0x80u8), 1 => Just(1u8), 1 => Just(0x3fu8)]
}

/// `classes`: (name, weight).
pub fn plan_strategy(classes: Vec<(&'static str, u32)>) -> BoxedStrategy<Vec<Dmg>> {
    let total: u32 = classes.iter().map(|c| c.1).sum();
    let classes2 = classes.clone();
    let region = (0..total).prop_map(move |mut x| {
        for (c, w) in classes2.iter() {
            if x < *w {
                return c.to_string();
            }
            x -= w;
        }
        classes2[0].0.to_string()
    });
    let one = prop_oneof![
        45 => (region.clone(), any::<u16>(), 0u8..8).prop_map(|(region, pos, bit)| Dmg::Flip { region, pos, bit }),
        22 => (region.clone(), any::<u16>(), byte_value()).prop_map(|(region, pos, val)| Dmg::Set { region, pos, val }),
        15 => (region.clone(), any::<u16>()).prop_map(|(region, pos)| Dmg::Truncate { region, pos }),
        14 => (region, any::<u16>(), prop_oneof![4 => 2u8..=64, 1 => Just(64u8), 1 => 2u8..=8], fill()).prop_map(|(region, pos, len, fill)| Dmg::Run { region, pos, len, fill }),
        6 => prop::collection::vec(any::<u8>(), 1..40).prop_map(|bytes| Dmg::AppendRandom { bytes }),
        3 => prop_oneof![1u16..40, Just(4096u16)].prop_map(|n| Dmg::AppendZeros { n }),
        9 => (any::<u16>(), any::<u16>(), any::<bool>()).prop_map(|(from, len, to_end)| Dmg::AppendSlice { from, len, to_end }),
    ];
    // followers: a third of them hit the byte next to the previous damage
    let follow = prop_oneof![
        4 => one.clone(),
        1 => (0u8..8).prop_map(|bit| Dmg::FlipNext { bit }),
        1 => byte_value().prop_map(|val| Dmg::SetNext { val }),
    ];
    prop_oneof![
        70 => one.clone().prop_map(|a| vec![a]),
        20 => (one.clone(), follow.clone()).prop_map(|(a, b)| vec![a, b]),
        10 => (one, follow.clone(), follow).prop_map(|(a, b, c)| vec![a, b, c]),
    ]
    .boxed()
}

pub fn describe_plan(applied: &[Applied]) -> String {
    applied.iter().map(|a| a.describe()).collect::<Vec<_>>().join("; ")
}
