//! Damage plans: 1–3 of {bit flip, byte overwrite, truncation, appended suffix}, positions drawn
//! per region class so that small regions are hit as often as large ones.

use proptest::prelude::*;
use serde::{Deserialize, Serialize};

use crate::formats::Regions;

#[derive(Clone, Debug, PartialEq, Eq, Serialize, Deserialize)]
pub enum Dmg {
    /// flip bit `bit` of the `pos`-selected byte of region class `region`
    Flip { region: String, pos: u16, bit: u8 },
    /// overwrite the `pos`-selected byte of the class with `val`
    Set { region: String, pos: u16, val: u8 },
    /// cut the file just before the `pos`-selected byte of the class
    Truncate { region: String, pos: u16 },
    /// flip a bit of the byte FOLLOWING the previous damage's byte (clustered damage: bursts that hit
    /// several bytes of one varint / header / trailer)
    FlipNext { bit: u8 },
    /// overwrite the byte following the previous damage's byte
    SetNext { val: u8 },
    AppendRandom { bytes: Vec<u8> },
    AppendZeros { n: u16 },
    /// append `file[from .. from+len]` of the pristine file (`to_end`: up to its end)
    AppendSlice { from: u16, len: u16, to_end: bool },
}

impl Dmg {
    pub fn kind(&self) -> &'static str {
        match self {
            Dmg::Flip { .. } => "flip",
            Dmg::Set { .. } => "set",
            Dmg::Truncate { .. } => "truncate",
            Dmg::FlipNext { .. } => "flip",
            Dmg::SetNext { .. } => "set",
            Dmg::AppendRandom { .. } => "append-random",
            Dmg::AppendZeros { .. } => "append-zeros",
            Dmg::AppendSlice { .. } => "append-slice",
        }
    }
}

/// What one damage did, resolved against the pristine file.
#[derive(Clone, Debug)]
pub struct Applied {
    pub kind: &'static str,
    /// region class of the touched byte (for appends: "eof")
    pub region: String,
    pub offset: usize,
    pub detail: String,
    /// false if the damage could not be applied (empty class, offset beyond a previous truncation)
    /// or did not change anything
    pub effective: bool,
}

impl Applied {
    pub fn label(&self) -> String {
        if self.effective {
            format!("dmg:{}@{}", self.kind, self.region)
        } else {
            format!("dmg-noop:{}@{}", self.kind, self.region)
        }
    }
    pub fn describe(&self) -> String {
        format!("{} in {} at offset {}{}{}", self.kind, self.region, self.offset, if self.detail.is_empty() { "" } else { " " }, self.detail)
    }
}

pub fn apply(pristine: &[u8], regions: &Regions, plan: &[Dmg]) -> (Vec<u8>, Vec<Applied>) {
    let mut cur = pristine.to_vec();
    let mut out: Vec<Applied> = vec![];
    for d in plan {
        let kind = d.kind();
        // the byte after the previous in-place damage, if there was one
        let next = out.last().filter(|a| a.effective && a.region != "eof" && a.kind != "truncate").map(|a| a.offset + 1).filter(|o| *o < cur.len() && *o < pristine.len());
        let a = match d {
            Dmg::FlipNext { bit } => match next {
                Some(off) => {
                    let old = cur[off];
                    cur[off] ^= 1 << (bit & 7);
                    Applied { kind, region: regions.class_of(off).to_string(), offset: off, detail: format!("bit {} ({old:#04x} -> {:#04x}) [adjacent]", bit & 7, cur[off]), effective: true }
                }
                None => Applied { kind, region: "adjacent".into(), offset: 0, detail: "not applicable".into(), effective: false },
            },
            Dmg::SetNext { val } => match next {
                Some(off) => {
                    let old = cur[off];
                    cur[off] = *val;
                    Applied { kind, region: regions.class_of(off).to_string(), offset: off, detail: format!("({old:#04x} -> {val:#04x}) [adjacent]"), effective: old != *val }
                }
                None => Applied { kind, region: "adjacent".into(), offset: 0, detail: "not applicable".into(), effective: false },
            },
            Dmg::Flip { region, pos, bit } => match regions.pick(region, *pos) {
                Some(off) if off < cur.len() => {
                    let old = cur[off];
                    cur[off] ^= 1 << (bit & 7);
                    Applied { kind, region: region.clone(), offset: off, detail: format!("bit {} ({old:#04x} -> {:#04x})", bit & 7, cur[off]), effective: true }
                }
                other => Applied { kind, region: region.clone(), offset: other.unwrap_or(0), detail: "not applicable".into(), effective: false },
            },
            Dmg::Set { region, pos, val } => match regions.pick(region, *pos) {
                Some(off) if off < cur.len() => {
                    let old = cur[off];
                    cur[off] = *val;
                    Applied { kind, region: region.clone(), offset: off, detail: format!("({old:#04x} -> {val:#04x})"), effective: old != *val }
                }
                other => Applied { kind, region: region.clone(), offset: other.unwrap_or(0), detail: "not applicable".into(), effective: false },
            },
            Dmg::Truncate { region, pos } => match regions.pick(region, *pos) {
                Some(off) if off < cur.len() => {
                    let was = cur.len();
                    cur.truncate(off);
                    Applied { kind, region: region.clone(), offset: off, detail: format!("(length {was} -> {off})"), effective: true }
                }
                other => Applied { kind, region: region.clone(), offset: other.unwrap_or(0), detail: "not applicable".into(), effective: false },
            },
            Dmg::AppendRandom { bytes } => {
                let off = cur.len();
                cur.extend_from_slice(bytes);
                Applied { kind, region: "eof".into(), offset: off, detail: format!("({} bytes)", bytes.len()), effective: !bytes.is_empty() }
            }
            Dmg::AppendZeros { n } => {
                let off = cur.len();
                cur.resize(off + *n as usize, 0);
                Applied { kind, region: "eof".into(), offset: off, detail: format!("({n} zero bytes)"), effective: *n > 0 }
            }
            Dmg::AppendSlice { from, len, to_end } => {
                let off = cur.len();
                if pristine.is_empty() {
                    Applied { kind, region: "eof".into(), offset: off, detail: "not applicable".into(), effective: false }
                } else {
                    let a = vcore::gens::sel(*from, pristine.len());
                    let b = if *to_end { pristine.len() } else { a + 1 + vcore::gens::sel(*len, pristine.len() - a) };
                    cur.extend_from_slice(&pristine[a..b]);
                    Applied { kind, region: "eof".into(), offset: off, detail: format!("(pristine[{a}..{b}], first byte in {})", regions.class_of(a)), effective: true }
                }
            }
        };
        out.push(a);
    }
    (cur, out)
}

fn byte_value() -> impl Strategy<Value = u8> {
    prop_oneof![4 => any::<u8>(), 1 => Just(0u8), 1 => Just(0xffu8), 1 => Just(0x7fu8), 1 => Just(0x80u8), 1 => Just(1u8), 1 => Just(0x3fu8)]
}

/// `classes`: (name, weight).
pub fn plan_strategy(classes: Vec<(&'static str, u32)>) -> BoxedStrategy<Vec<Dmg>> {
    let total: u32 = classes.iter().map(|c| c.1).sum();
    let classes2 = classes.clone();
    let region = (0..total).prop_map(move |mut x| {
        for (c, w) in classes2.iter() {
            if x < *w {
                return c.to_string();
            }
            x -= w;
        }
        classes2[0].0.to_string()
    });
    let one = prop_oneof![
        45 => (region.clone(), any::<u16>(), 0u8..8).prop_map(|(region, pos, bit)| Dmg::Flip { region, pos, bit }),
        22 => (region.clone(), any::<u16>(), byte_value()).prop_map(|(region, pos, val)| Dmg::Set { region, pos, val }),
        15 => (region, any::<u16>()).prop_map(|(region, pos)| Dmg::Truncate { region, pos }),
        6 => prop::collection::vec(any::<u8>(), 1..40).prop_map(|bytes| Dmg::AppendRandom { bytes }),
        3 => prop_oneof![1u16..40, Just(4096u16)].prop_map(|n| Dmg::AppendZeros { n }),
        9 => (any::<u16>(), any::<u16>(), any::<bool>()).prop_map(|(from, len, to_end)| Dmg::AppendSlice { from, len, to_end }),
    ];
    // followers: a third of them hit the byte next to the previous damage
    let follow = prop_oneof![
        4 => one.clone(),
        1 => (0u8..8).prop_map(|bit| Dmg::FlipNext { bit }),
        1 => byte_value().prop_map(|val| Dmg::SetNext { val }),
    ];
    prop_oneof![
        70 => one.clone().prop_map(|a| vec![a]),
        20 => (one.clone(), follow.clone()).prop_map(|(a, b)| vec![a, b]),
        10 => (one, follow.clone(), follow).prop_map(|(a, b, c)| vec![a, b, c]),
    ]
    .boxed()
}

pub fn describe_plan(applied: &[Applied]) -> String {
    applied.iter().map(|a| a.describe()).collect::<Vec<_>>().join("; ")
}
