//! `seed-corpus <dir>`: write pristine files as libFuzzer seed corpora, and the part
//! `fuzz-corpus-replay` that runs every file under /verif/fuzz/seeds/<target>/ (seeds and committed
//! crash inputs alike) through the reference-free in-process oracle.

use std::path::{Path, PathBuf};

use proptest::strategy::{Strategy, ValueTree};
use proptest::test_runner::{Config, RngSeed, TestRunner};
use serde::{Deserialize, Serialize};
use serde_json::{Value, json};

use vcore::{Ctx, Outcome, Part, Tier, ViolationRec, WorkerReport};

use crate::alloc;
use crate::bytes_oracle;
use crate::engine::Target;
use crate::logpart::LogDamage;
use crate::manipart::ManiDamage;
use crate::sstpart::{SstDamage, HUGE};

pub const TARGETS: &[&str] = &["c09_sst_bytes", "c09_log_bytes", "c09_manifest_bytes"];

fn seeds_root() -> PathBuf {
    Path::new(vcore::VERIF_ROOT).join("fuzz").join("seeds")
}

fn ctx_for(scratch: &Path) -> Ctx {
    Ctx { prop: "C09".into(), tier: Tier::Quick, seed: 0, worker: 0, nworkers: 1, scratch: scratch.to_path_buf(), strict: false, replay: false }
}

/// `seed-corpus [dir]` (default /verif/fuzz/seeds): deterministic pristine files.
pub fn seed_corpus(args: &[String]) -> i32 {
    let root = args.first().map(PathBuf::from).unwrap_or_else(seeds_root);
    let scratch = PathBuf::from(format!("/dev/shm/c09-seed-{}", std::process::id()));
    let _ = std::fs::remove_dir_all(&scratch);
    std::fs::create_dir_all(&scratch).expect("scratch");
    let ctx = ctx_for(&scratch);
    let mut runner = TestRunner::new(Config { rng_seed: RngSeed::Fixed(0xC09), failure_persistence: None, ..Config::default() });
    let mut written = 0;
    let mut put = |target: &str, i: usize, bytes: &[u8]| {
        let d = root.join(target);
        std::fs::create_dir_all(&d).expect("seed dir");
        std::fs::write(d.join(format!("seed-{i:02}")), bytes).expect("write seed");
        written += 1;
    };
    // SSTs: keep the first few that have one block and the first few with several
    let (mut single, mut multi, mut i) = (0, 0, 0);
    let strat = SstDamage.spec_strategy(Tier::Quick);
    for _ in 0..400 {
        let spec = strat.new_tree(&mut runner).expect("tree").current();
        let Ok(p) = SstDamage.build(&ctx, &spec) else { continue };
        if p.bytes.len() > 48 << 10 {
            continue;
        }
        let many = p.layout.data_blocks.len() >= 2;
        if (many && multi < 5) || (!many && single < 3) {
            put("c09_sst_bytes", i, &p.bytes);
            i += 1;
            if many { multi += 1 } else { single += 1 }
        }
        if multi >= 5 && single >= 3 {
            break;
        }
    }
    let strat = LogDamage.spec_strategy(Tier::Quick);
    let mut i = 0;
    for _ in 0..200 {
        let mut spec = strat.new_tree(&mut runner).expect("tree").current();
        spec.filler = 0;
        let Ok(p) = LogDamage.build(&ctx, &spec) else { continue };
        put("c09_log_bytes", i, &p.bytes);
        i += 1;
        if i >= 8 {
            break;
        }
    }
    let strat = ManiDamage.spec_strategy(Tier::Quick);
    let mut i = 0;
    for _ in 0..200 {
        let spec = strat.new_tree(&mut runner).expect("tree").current();
        let Ok(p) = ManiDamage.build(&ctx, &spec) else { continue };
        put("c09_manifest_bytes", i, &p.bytes);
        i += 1;
        if i >= 8 {
            break;
        }
    }
    let _ = std::fs::remove_dir_all(&scratch);
    println!("wrote {written} seed files under {}", root.display());
    0
}

#[derive(Clone, Debug, Serialize, Deserialize)]
pub struct CorpusCase {
    pub target: String,
    pub name: String,
    pub hex: String,
}

fn to_hex(b: &[u8]) -> String {
    b.iter().map(|c| format!("{c:02x}")).collect()
}

fn from_hex(s: &str) -> Vec<u8> {
    (0..s.len() / 2).filter_map(|i| u8::from_str_radix(&s[2 * i..2 * i + 2], 16).ok()).collect()
}

pub fn run_bytes(ctx: &Ctx, target: &str, bytes: &[u8]) -> Outcome {
    let mut o = Outcome::pass();
    o.nontrivial = !bytes.is_empty();
    o.label(format!("target:{target}"));
    let dir = ctx.scratch.join("c09-corpus");
    let _ = std::fs::create_dir_all(&dir);
    alloc::arm();
    let r = vcore::guard(|| match target {
        "c09_sst_bytes" => {
            let path = dir.join("f.sst");
            std::fs::write(&path, bytes).expect("write");
            let v = bytes_oracle::sst_file(&path, bytes.len());
            let _ = std::fs::remove_file(&path);
            v
        }
        "c09_log_bytes" => bytes_oracle::log_bytes(bytes),
        "c09_manifest_bytes" => bytes_oracle::manifest_bytes(bytes, &dir.join("m")),
        other => Err(("harness:unknown-target".into(), other.to_string())),
    });
    let peak = alloc::disarm();
    match r {
        Err(f) => o.fail(f.signature, f.message),
        Ok(Err((sig, msg))) => o.fail(sig, msg),
        Ok(Ok(labels)) => {
            for l in labels {
                o.label(l);
            }
        }
    }
    if peak > HUGE && peak > 16 * bytes.len() {
        let bounded = target == "c09_log_bytes" && peak <= alloc::DOCUMENTED_BOUND + (4 << 20);
        if !bounded {
            o.fail(format!("{target}:alloc-huge"), format!("a single allocation of {peak} bytes was requested for a {}-byte input", bytes.len()));
        } else {
            o.label("alloc:>64MiB-for-a-small-file(within-documented-bound)");
        }
    }
    o
}

pub struct CorpusReplay;

impl Part for CorpusReplay {
    fn name(&self) -> String {
        "fuzz-corpus-replay".into()
    }

    fn worker(&self, ctx: &Ctx) -> WorkerReport {
        let mut rep = WorkerReport::default();
        let name = self.name();
        let mut all: Vec<(String, PathBuf)> = vec![];
        for t in TARGETS {
            let mut files: Vec<PathBuf> = std::fs::read_dir(seeds_root().join(t)).map(|rd| rd.flatten().map(|e| e.path()).filter(|p| p.is_file()).collect()).unwrap_or_default();
            files.sort();
            all.extend(files.into_iter().map(|f| (t.to_string(), f)));
        }
        if all.is_empty() && ctx.worker == 0 {
            rep.notes.push(format!("{name}: no seed files under {}", seeds_root().display()));
        }
        for (i, (target, file)) in all.iter().enumerate() {
            if i % ctx.nworkers != ctx.worker {
                continue;
            }
            let Ok(bytes) = std::fs::read(file) else { continue };
            let fname = file.file_name().map(|s| s.to_string_lossy().to_string()).unwrap_or_default();
            let case = CorpusCase { target: target.clone(), name: fname, hex: to_hex(&bytes) };
            // an abort is attributed through current.json, which here must hold the whole case
            let _ = std::fs::write(ctx.scratch.join("current.json"), serde_json::to_vec(&json!({"part": name, "case": case})).unwrap_or_default());
            let out = run_bytes(ctx, target, &bytes);
            let _ = std::fs::remove_file(ctx.scratch.join("current.json"));
            rep.record(&name, vcore::hash_bytes(&bytes) ^ vcore::hash_str(target), || json!({"target": target, "name": case.name, "len": bytes.len()}), &out);
            if let Some(f) = out.failure {
                rep.violations.push(ViolationRec { part: name.clone(), case: serde_json::to_value(&case).unwrap_or(Value::Null), signature: f.signature, message: format!("{} ({}/{})", f.message, target, case.name), shrunk: false });
            }
        }
        rep
    }

    fn replay(&self, ctx: &Ctx, case: &Value) -> Outcome {
        match serde_json::from_value::<CorpusCase>(case.clone()) {
            Ok(c) => run_bytes(ctx, &c.target, &from_hex(&c.hex)),
            Err(e) => {
                let mut o = Outcome::pass();
                o.inconclusive = true;
                o.label(format!("replay-parse-error: {e}"));
                o
            }
        }
    }
}
