//! Independent walkers over the three on-disk formats.  They are applied to the PRISTINE file only
//! and tag every byte with the region it belongs to; nothing here calls into sst / mani.

use std::ops::Range;

////////////////////////////////////////////// regions /////////////////////////////////////////////

#[derive(Clone, Debug, Default)]
pub struct Regions {
    /// (class name, byte ranges of that class in file order)
    pub classes: Vec<(String, Vec<Range<usize>>)>,
    pub len: usize,
}

impl Regions {
    pub fn add(&mut self, class: &str, r: Range<usize>) {
        if r.is_empty() {
            return;
        }
        match self.classes.iter_mut().find(|(c, _)| c == class) {
            Some((_, v)) => v.push(r),
            None => self.classes.push((class.to_string(), vec![r])),
        }
    }

    /// The `pos`-selected byte of a class (monotone in `pos`), or None if the class is empty.
    pub fn pick(&self, class: &str, pos: u16) -> Option<usize> {
        let (_, v) = self.classes.iter().find(|(c, _)| c == class)?;
        let total: usize = v.iter().map(|r| r.len()).sum();
        if total == 0 {
            return None;
        }
        let mut i = vcore::gens::sel(pos, total);
        for r in v {
            if i < r.len() {
                return Some(r.start + i);
            }
            i -= r.len();
        }
        None
    }

    pub fn class_of(&self, off: usize) -> &str {
        for (c, v) in self.classes.iter() {
            if v.iter().any(|r| r.contains(&off)) {
                return c;
            }
        }
        "untagged"
    }

    /// Every byte of the file carries exactly one tag.
    pub fn check_partition(&self) -> Result<(), String> {
        let mut all: Vec<Range<usize>> = self.classes.iter().flat_map(|(_, v)| v.iter().cloned()).collect();
        all.sort_by_key(|r| r.start);
        let mut at = 0;
        for r in all {
            if r.start != at {
                return Err(format!("region map has a gap or overlap at {at} (next range starts at {})", r.start));
            }
            at = r.end;
        }
        if at != self.len {
            return Err(format!("region map ends at {at}, file has {} bytes", self.len));
        }
        Ok(())
    }
}

///////////////////////////////////////////// protobuf /////////////////////////////////////////////

fn varint(b: &[u8], at: usize) -> Result<(u64, usize), String> {
    let mut v = 0u64;
    let mut i = at;
    let mut shift = 0;
    loop {
        let c = *b.get(i).ok_or("varint runs off the end")?;
        if shift >= 64 {
            return Err("varint too long".into());
        }
        v |= ((c & 0x7f) as u64) << shift;
        i += 1;
        if c & 0x80 == 0 {
            return Ok((v, i));
        }
        shift += 7;
    }
}

#[derive(Clone, Debug)]
pub struct Field {
    pub num: u64,
    pub wire: u8,
    /// tag .. end of value
    pub whole: Range<usize>,
    /// the value bytes (for length-delimited: the body without the length prefix)
    pub value: Range<usize>,
    pub varint: u64,
}

/// Walk the protobuf fields of `b[range]`.
pub fn fields(b: &[u8], range: Range<usize>) -> Result<Vec<Field>, String> {
    let mut out = vec![];
    let mut at = range.start;
    while at < range.end {
        let start = at;
        let (tag, a) = varint(b, at)?;
        let (num, wire) = (tag >> 3, (tag & 7) as u8);
        let (value, v) = match wire {
            0 => {
                let (v, e) = varint(b, a)?;
                (a..e, v)
            }
            1 => (a..a + 8, 0),
            5 => (a..a + 4, 0),
            2 => {
                let (n, s) = varint(b, a)?;
                (s..s + n as usize, n)
            }
            w => return Err(format!("wire type {w} at {start}")),
        };
        if value.end > range.end {
            return Err(format!("field {num} at {start} runs past its container"));
        }
        at = value.end;
        out.push(Field { num, wire, whole: start..value.end, value, varint: v });
    }
    Ok(out)
}

//////////////////////////////////////////////// SST ///////////////////////////////////////////////

#[derive(Clone, Debug, Default)]
pub struct SstLayout {
    pub regions: Regions,
    pub data_blocks: Vec<Range<usize>>,
    pub index: Range<usize>,
    pub filter: Range<usize>,
    pub final_block: Range<usize>,
}

pub const SST_CLASSES: &[&str] = &[
    "data.frame",
    "data.body",
    "index.frame",
    "index.body",
    "filter.frame",
    "filter.body",
    "final.index_meta",
    "final.filter_meta",
    "final.setsum",
    "final.smallest_ts",
    "final.biggest_ts",
    "final.offset_tag",
    "trailer.offset",
];

/// Known finding R-O: the final block (everything from `final_block_offset` to the end of the
/// file) carries no checksum.  A damage "touches the final block" when the byte it hits is tagged
/// with one of the final.* classes or the trailing offset, or when it appends bytes (the reader
/// parses everything from the offset named by the LAST eight bytes to the end of the file as the
/// final block, so an appended suffix that re-creates a trailer becomes part of it).
pub fn in_final_block(region: &str) -> bool {
    region.starts_with("final.") || region == "trailer.offset" || region == "eof"
}

fn block_meta(b: &[u8], body: Range<usize>) -> Result<Range<usize>, String> {
    let fs = fields(b, body)?;
    let start = fs.iter().find(|f| f.num == 13 && f.wire == 0).map(|f| f.varint).unwrap_or(0);
    let limit = fs.iter().find(|f| f.num == 14 && f.wire == 0).ok_or("block metadata without limit")?.varint;
    Ok(start as usize..limit as usize)
}

/// One framed table entry `tag len body` starting at `at`; returns (frame range, body range).
fn framed(b: &[u8], at: usize, want_tag: u64) -> Result<(Range<usize>, Range<usize>), String> {
    let (tag, a) = varint(b, at)?;
    if tag != (want_tag << 3 | 2) {
        return Err(format!("entry at {at} has tag {tag:#x}, expected field {want_tag}"));
    }
    let (n, s) = varint(b, a)?;
    if s + n as usize > b.len() {
        return Err(format!("entry at {at} runs past the file"));
    }
    Ok((at..s, s..s + n as usize))
}

pub fn sst_layout(b: &[u8]) -> Result<SstLayout, String> {
    let n = b.len();
    if n < 8 {
        return Err("file shorter than the trailer".into());
    }
    let fbo = u64::from_le_bytes(b[n - 8..].try_into().unwrap()) as usize;
    if fbo >= n {
        return Err("final block offset outside the file".into());
    }
    let mut l = SstLayout { final_block: fbo..n, ..Default::default() };
    l.regions.len = n;
    let fs = fields(b, fbo..n)?;
    let mut index = None;
    let mut filter = None;
    for f in fs.iter() {
        match (f.num, f.wire) {
            (16, 2) => {
                l.regions.add("final.index_meta", f.whole.clone());
                index = Some(block_meta(b, f.value.clone())?);
            }
            (17, 2) => {
                l.regions.add("final.filter_meta", f.whole.clone());
                filter = Some(block_meta(b, f.value.clone())?);
            }
            (19, 2) => l.regions.add("final.setsum", f.whole.clone()),
            (20, 0) => l.regions.add("final.smallest_ts", f.whole.clone()),
            (21, 0) => l.regions.add("final.biggest_ts", f.whole.clone()),
            (18, 1) => {
                if f.value.end != n {
                    return Err("final_block_offset is not the last field".into());
                }
                l.regions.add("final.offset_tag", f.whole.start..f.value.start);
                l.regions.add("trailer.offset", f.value.clone());
            }
            (num, wire) => return Err(format!("unexpected final-block field {num}/{wire}")),
        }
    }
    l.index = index.ok_or("no index block metadata")?;
    l.filter = filter.ok_or("no filter block metadata")?;
    if l.index.end != l.filter.start || l.filter.end != fbo {
        return Err("index / filter / final block are not contiguous".into());
    }
    // data blocks: back-to-back framed entries from offset 0 to the index block
    let mut at = 0;
    while at < l.index.start {
        let (frame, body) = framed(b, at, 10)?;
        l.regions.add("data.frame", frame.clone());
        l.regions.add("data.body", body.clone());
        l.data_blocks.push(frame.start..body.end);
        at = body.end;
    }
    if at != l.index.start {
        return Err("data blocks do not end where the index block starts".into());
    }
    let (frame, body) = framed(b, l.index.start, 10)?;
    if body.end != l.index.end {
        return Err("index block metadata disagrees with its framing".into());
    }
    l.regions.add("index.frame", frame);
    l.regions.add("index.body", body);
    let (frame, body) = framed(b, l.filter.start, 13)?;
    if body.end != l.filter.end {
        return Err("filter block metadata disagrees with its framing".into());
    }
    l.regions.add("filter.frame", frame);
    l.regions.add("filter.body", body);
    l.regions.check_partition()?;
    Ok(l)
}

//////////////////////////////////////////////// log ///////////////////////////////////////////////

pub const LOG_CLASSES: &[&str] = &["frame.hsz", "hdr.size", "hdr.disc", "hdr.crc", "payload", "pad"];

#[derive(Clone, Debug)]
pub struct LogFrame {
    pub disc: u64,
}

#[derive(Clone, Debug, Default)]
pub struct LogLayout {
    pub regions: Regions,
    pub frames: Vec<LogFrame>,
    /// file offsets at which a whole batch ends (a torn log cut there is a valid shorter log)
    pub batch_ends: Vec<usize>,
}

pub fn log_layout(b: &[u8]) -> Result<LogLayout, String> {
    let mut l = LogLayout::default();
    l.regions.len = b.len();
    let mut at = 0usize;
    while at < b.len() {
        let hsz = b[at] as usize;
        if hsz == 0 {
            let nb = ((at >> 20) + 1) << 20;
            let end = nb.min(b.len());
            if b[at..end].iter().any(|c| *c != 0) {
                return Err(format!("non-zero padding at {at}"));
            }
            l.regions.add("pad", at..end);
            at = end;
            continue;
        }
        l.regions.add("frame.hsz", at..at + 1);
        let hdr = at + 1..at + 1 + hsz;
        if hdr.end > b.len() {
            return Err("header runs past the file".into());
        }
        let mut size = 0u64;
        let mut disc = 0u64;
        for f in fields(b, hdr.clone())? {
            match (f.num, f.wire) {
                (10, 0) => {
                    size = f.varint;
                    l.regions.add("hdr.size", f.whole);
                }
                (11, 0) => {
                    disc = f.varint;
                    l.regions.add("hdr.disc", f.whole);
                }
                (12, 5) => l.regions.add("hdr.crc", f.whole),
                (num, wire) => return Err(format!("unexpected header field {num}/{wire}")),
            }
        }
        let payload = hdr.end..hdr.end + size as usize;
        if payload.end > b.len() {
            return Err("payload runs past the file".into());
        }
        l.regions.add("payload", payload.clone());
        l.frames.push(LogFrame { disc });
        if disc == 1 || disc == 3 {
            l.batch_ends.push(payload.end);
        }
        at = payload.end;
    }
    l.regions.check_partition()?;
    Ok(l)
}

///////////////////////////////////////////// manifest /////////////////////////////////////////////

pub const MANI_CLASSES: &[&str] = &["crc", "action", "payload", "sep", "nl"];

#[derive(Clone, Debug, Default)]
pub struct ManiLayout {
    pub regions: Regions,
    /// offsets just after a transaction separator's newline
    pub txn_ends: Vec<usize>,
}

pub fn mani_layout(b: &[u8]) -> Result<ManiLayout, String> {
    let mut l = ManiLayout::default();
    l.regions.len = b.len();
    let mut at = 0usize;
    while at < b.len() {
        let nl = b[at..].iter().position(|c| *c == b'\n').map(|p| at + p).ok_or("last line has no newline")?;
        let line = at..nl;
        if &b[line.clone()] == b"--------" {
            l.regions.add("sep", line);
            l.txn_ends.push(nl + 1);
        } else {
            if line.len() < 9 {
                return Err(format!("short line at {at}"));
            }
            l.regions.add("crc", at..at + 8);
            // the action is one character; manifests built here use ASCII actions only
            l.regions.add("action", at + 8..at + 9);
            l.regions.add("payload", at + 9..nl);
        }
        l.regions.add("nl", nl..nl + 1);
        at = nl + 1;
    }
    l.regions.check_partition()?;
    Ok(l)
}
