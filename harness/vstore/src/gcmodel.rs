//! An independent reading of the garbage-collection policy language documented in `sst::gc`.
//!
//! `must_retain` returns the entries the policy *requires* to be kept; the store may keep more
//! (the module documentation of `sst::gc` says so), so callers only assert that nothing in this
//! set was dropped.

use std::collections::BTreeSet;

use vcore::refcursor::Entry;

#[derive(Clone, Debug, PartialEq, Eq)]
pub enum Policy {
    Versions(u64),
    Expires(u64),
    Any(Vec<Policy>),
    All(Vec<Policy>),
}

pub fn parse(s: &str) -> Result<Policy, String> {
    let mut p = Parser { s: s.as_bytes(), i: 0 };
    let pol = p.policy()?;
    p.ws();
    if p.i != p.s.len() {
        return Err(format!("trailing input at {} in {s:?}", p.i));
    }
    Ok(pol)
}

struct Parser<'a> {
    s: &'a [u8],
    i: usize,
}

impl Parser<'_> {
    fn ws(&mut self) {
        while self.i < self.s.len() && self.s[self.i].is_ascii_whitespace() {
            self.i += 1;
        }
    }
    fn eat(&mut self, t: &str) -> bool {
        self.ws();
        if self.s[self.i..].starts_with(t.as_bytes()) {
            self.i += t.len();
            true
        } else {
            false
        }
    }
    fn number(&mut self) -> Result<u64, String> {
        self.ws();
        let start = self.i;
        while self.i < self.s.len() && self.s[self.i].is_ascii_digit() {
            self.i += 1;
        }
        std::str::from_utf8(&self.s[start..self.i]).unwrap().parse::<u64>().map_err(|e| format!("number at {start}: {e}"))
    }
    fn list(&mut self) -> Result<Vec<Policy>, String> {
        if !self.eat("(") {
            return Err(format!("expected ( at {}", self.i));
        }
        let mut v = vec![];
        loop {
            if self.eat(")") {
                return Ok(v);
            }
            v.push(self.policy()?);
            self.eat(",");
        }
    }
    fn policy(&mut self) -> Result<Policy, String> {
        if self.eat("versions") {
            if !self.eat("=") {
                return Err("expected =".into());
            }
            Ok(Policy::Versions(self.number()?))
        } else if self.eat("ttl_micros") {
            if !self.eat("=") {
                return Err("expected =".into());
            }
            Ok(Policy::Expires(self.number()?))
        } else if self.eat("any") {
            Ok(Policy::Any(self.list()?))
        } else if self.eat("all") {
            Ok(Policy::All(self.list()?))
        } else {
            Err(format!("unknown policy at {}", self.i))
        }
    }
}

/// One retention unit of a key: a value together with the run of tombstones immediately newer
/// than it (timestamps of the run, newest first).
#[derive(Clone, Debug)]
pub struct Unit {
    pub tombstones: Vec<u64>,
    pub value_ts: u64,
}

/// Split one key's versions (newest first) into units; tombstones not followed by an older value
/// belong to no unit (every policy allows dropping them).
pub fn units(versions: &[(u64, bool)]) -> Vec<Unit> {
    let mut out = vec![];
    let mut run = vec![];
    for (ts, is_value) in versions {
        if *is_value {
            out.push(Unit { tombstones: std::mem::take(&mut run), value_ts: *ts });
        } else {
            run.push(*ts);
        }
    }
    out
}

/// For each unit (newest first) whether the policy requires it to be retained.
pub fn decide(p: &Policy, us: &[Unit], now_micros: u64) -> Vec<bool> {
    match p {
        Policy::Versions(n) => {
            let mut count = 0u64;
            us.iter()
                .map(|u| {
                    count += if u.tombstones.is_empty() { 1 } else { 2 };
                    count <= *n
                })
                .collect()
        }
        Policy::Expires(micros) => {
            let threshold = now_micros.saturating_sub(*micros);
            us.iter().map(|u| u.value_ts >= threshold).collect()
        }
        Policy::Any(ps) => {
            let mut acc = vec![false; us.len()];
            for p in ps {
                for (a, d) in acc.iter_mut().zip(decide(p, us, now_micros)) {
                    *a |= d;
                }
            }
            acc
        }
        Policy::All(ps) => {
            let mut acc = vec![true; us.len()];
            for p in ps {
                for (a, d) in acc.iter_mut().zip(decide(p, us, now_micros)) {
                    *a &= d;
                }
            }
            acc
        }
    }
}

/// (key, timestamp) of every entry the policy requires to be retained.  `entries` sorted by key
/// ascending, timestamp descending.
pub fn must_retain(p: &Policy, entries: &[Entry], now_micros: u64) -> BTreeSet<(Vec<u8>, u64)> {
    let mut out = BTreeSet::new();
    let mut i = 0;
    while i < entries.len() {
        let mut j = i;
        while j < entries.len() && entries[j].0 == entries[i].0 {
            j += 1;
        }
        let versions: Vec<(u64, bool)> = entries[i..j].iter().map(|e| (e.1, e.2.is_some())).collect();
        let us = units(&versions);
        for (u, keep) in us.iter().zip(decide(p, &us, now_micros)) {
            if keep {
                out.insert((entries[i].0.clone(), u.value_ts));
                if let Some(oldest) = u.tombstones.last() {
                    out.insert((entries[i].0.clone(), *oldest));
                }
            }
        }
        i = j;
    }
    out
}

/// No resurrection: for every key, what a current read returns after the collection is either what
/// it returned before or nothing.  (A tombstone may only go together with everything it shadows;
/// a newer value may only go - under an expiry policy - together with everything older.)
/// Both slices sorted by key ascending, timestamp descending.  Returns a description of the first
/// offending key.
pub fn resurrection(before: &[Entry], after: &[Entry]) -> Option<String> {
    use std::collections::BTreeMap;
    let mut nb: BTreeMap<&[u8], &Entry> = BTreeMap::new();
    for e in before {
        nb.entry(e.0.as_slice()).or_insert(e);
    }
    let mut na: BTreeMap<&[u8], &Entry> = BTreeMap::new();
    for e in after {
        na.entry(e.0.as_slice()).or_insert(e);
    }
    for (k, a) in na.iter() {
        if a.2.is_none() {
            continue; // reads as deleted
        }
        match nb.get(k) {
            Some(b) if b.1 == a.1 => {}
            Some(b) => {
                return Some(format!(
                    "key {}: before the collection the newest entry was {}@{}, afterwards a current read returns the older value@{} (the deciding entry was dropped without everything it shadows)",
                    vcore::gens::show(k),
                    if b.2.is_some() { "value" } else { "tombstone" },
                    b.1,
                    a.1
                ));
            }
            None => return Some(format!("key {} appears only after the collection", vcore::gens::show(k))),
        }
    }
    None
}
