//! C05, unit level: `GarbageCollectionPolicy::collector` against the independent policy reading.

use proptest::prelude::*;
use serde::{Deserialize, Serialize};

use sst::gc::GarbageCollectionPolicy;
use sst::Cursor;
use vcore::refcursor::Entry;
use vcore::{Ctx, Outcome, Property, Tier};

use crate::gcmodel;

#[derive(Clone, Debug, Serialize, Deserialize)]
pub struct GcCase {
    pub policy: String,
    pub now_micros: u64,
    /// per key: versions newest first as (timestamp gap to the previous one, is_value)
    pub keys: Vec<Vec<(u8, bool)>>,
}

pub struct GcUnit;

impl Property for GcUnit {
    type Case = GcCase;
    fn name(&self) -> String {
        "gc-policy-unit".into()
    }
    fn cases(&self, tier: Tier) -> u64 {
        tier.pick(20_000, 500_000)
    }
    fn strategy(&self, _: &Ctx) -> BoxedStrategy<GcCase> {
        let version = (1u8..6, prop::bool::weighted(0.6));
        (
            crate::driver::gc_policy_strategy(),
            prop_oneof![Just(0u64), 0u64..200, Just(u64::MAX)],
            prop::collection::vec(prop::collection::vec(version, 1..12), 1..6),
        )
            .prop_map(|(policy, now_micros, keys)| GcCase { policy, now_micros, keys })
            .boxed()
    }
    fn run(&self, _: &Ctx, c: &GcCase) -> Outcome {
        let mut o = Outcome::pass();
        // materialise entries: key i = "g<i>", timestamps descending from 100
        let mut entries: Vec<Entry> = vec![];
        for (i, vers) in c.keys.iter().enumerate() {
            let mut ts = 100u64;
            for (gap, is_value) in vers {
                ts = ts.saturating_sub(*gap as u64);
                if entries.last().map(|e: &Entry| e.0 == format!("g{i}").into_bytes() && e.1 == ts).unwrap_or(false) {
                    continue;
                }
                entries.push((format!("g{i}").into_bytes(), ts, if *is_value { Some(vec![b'v']) } else { None }));
            }
        }
        let tomb_run = entries.windows(2).any(|w| w[0].0 == w[1].0 && w[0].2.is_none() && w[1].2.is_none());
        o.nontrivial = c.keys.iter().filter(|k| k.len() >= 3).count() >= 2 && tomb_run;
        if tomb_run {
            o.label("tombstone-run");
        }
        o.label(format!("policy:{}", c.policy.split(|ch: char| !ch.is_ascii_alphabetic() && ch != '_').next().unwrap_or("")));
        let policy = match GarbageCollectionPolicy::try_from(c.policy.as_str()) {
            Ok(p) => p,
            Err(e) => {
                o.fail("gc-unit:policy-rejected", format!("policy {:?} from the documented grammar was rejected: {e}", c.policy));
                return o;
            }
        };
        // the policy language round-trips through Display
        if GarbageCollectionPolicy::try_from(policy.to_string().as_str()).ok().as_ref() != Some(&policy) {
            o.fail("gc-unit:display-roundtrip", format!("policy {:?} does not round-trip through Display", c.policy));
            return o;
        }
        let model = match gcmodel::parse(&c.policy) {
            Ok(m) => m,
            Err(e) => {
                o.fail("harness:gc-policy-parse", e);
                return o;
            }
        };
        let block = match vsst::tables::build_block(&entries, 1024, 16) {
            Ok(b) => b,
            Err(e) => {
                o.fail("harness:block-build", format!("{e:?}"));
                return o;
            }
        };
        let mut cur = block.cursor();
        if cur.seek_to_first().and_then(|_| cur.next()).is_err() {
            o.fail("harness:cursor", "cannot position cursor".to_string());
            return o;
        }
        let mut gc = match policy.collector(cur, c.now_micros) {
            Ok(g) => g,
            Err(e) => {
                o.fail("gc-unit:collector-error", format!("{e:?}"));
                return o;
            }
        };
        let mut retained: Vec<(Vec<u8>, u64)> = vec![];
        loop {
            match gc.next() {
                Ok(Some(k)) => retained.push((k.key.to_vec(), k.timestamp)),
                Ok(None) => break,
                Err(e) => {
                    o.fail("gc-unit:next-error", format!("{e:?}"));
                    return o;
                }
            }
            if retained.len() > entries.len() + 1 {
                o.fail("gc-unit:too-many", "collector returned more keys than it was given".to_string());
                return o;
            }
        }
        // everything returned is an input entry, in input order, without duplicates
        let input: Vec<(Vec<u8>, u64)> = entries.iter().map(|e| (e.0.clone(), e.1)).collect();
        let mut pos = 0;
        for r in retained.iter() {
            match input[pos..].iter().position(|x| x == r) {
                Some(p) => pos += p + 1,
                None => {
                    o.fail("gc-unit:not-a-subsequence", format!("collector returned {:?}@{} which is not the next input entry in order", String::from_utf8_lossy(&r.0), r.1));
                    return o;
                }
            }
        }
        // nothing the policy requires to retain may be missing
        let must = gcmodel::must_retain(&model, &entries, c.now_micros);
        for m in must.iter() {
            if !retained.contains(m) {
                o.fail("gc-unit:dropped-required", format!("policy `{}` (now={}) requires {:?}@{} to be retained but the collector dropped it; input {:?}", c.policy, c.now_micros, String::from_utf8_lossy(&m.0), m.1, entries.iter().map(|e| (String::from_utf8_lossy(&e.0).to_string(), e.1, e.2.is_some())).collect::<Vec<_>>()));
                return o;
            }
        }
        // no resurrection: a current read of every key returns what it returned before, or nothing
        let after: Vec<Entry> = entries.iter().filter(|e| retained.contains(&(e.0.clone(), e.1))).cloned().collect();
        if let Some(msg) = gcmodel::resurrection(&entries, &after) {
            o.fail("gc-unit:resurrected", format!("policy `{}` (now={}): {msg}; input {:?} retained {:?}", c.policy, c.now_micros, entries.iter().map(|e| (String::from_utf8_lossy(&e.0).to_string(), e.1, e.2.is_some())).collect::<Vec<_>>(), retained.iter().map(|r| (String::from_utf8_lossy(&r.0).to_string(), r.1)).collect::<Vec<_>>()));
            return o;
        }
        if retained.len() < input.len() {
            o.label("dropped-something");
        }
        if retained.len() > must.len() {
            o.label("retained-more-than-required");
        }
        o
    }
}
