mod checks;
mod driver;
mod gcmodel;
mod manifest;

fn main() {
    vcore::main_with(vec![checks::c01(), checks::c03()], &[]);
}
