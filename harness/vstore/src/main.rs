mod checks;
mod driver;
mod gcmodel;
mod gcunit;
mod manifest;

fn main() {
    vcore::main_with(vec![checks::c01(), checks::c03(), checks::c04(), checks::c05(), checks::c07(), checks::c08(), checks::c20()], &[]);
}
