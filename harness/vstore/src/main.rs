mod checks;
mod crash;
mod driver;
mod gcmodel;
mod gcunit;
mod manicheck;
mod manifest;
mod shim;
mod tamper;
mod threads;
mod wgl;

fn main() {
    vcore::main_with(
        vec![checks::c01(), checks::c02(), checks::c03(), checks::c04(), checks::c05(), checks::c06(), checks::c07(), checks::c08(), manicheck::check(), checks::c20()],
        &[
            ("child-run", crash::child_run),
            ("child-recover", crash::child_recover),
            ("mani-child-run", manicheck::child_run),
            ("mani-child-recover", manicheck::child_recover),
            ("mani-child-io", manicheck::child_io),
            ("mani-child-hold", manicheck::child_hold),
            ("mani-child-wait", manicheck::child_wait),
        ],
    );
}
