//! A Wing–Gong / Lowe style linearizability checker for a small multi-key map with atomic
//! multi-key writes (batches) and atomic range reads (scans).
//!
//! Operations carry an invocation and a response stamp taken from one global counter.  The search
//! looks for a total order that respects real time (an operation whose response precedes another's
//! invocation comes first) and under which every read returns what the sequential map holds at its
//! place in the order.  Memoisation is on (set of linearised operations, map state).

use std::collections::HashSet;

/// Value ids: 0 = absent, otherwise a unique id per written value.
pub type Val = u32;

#[derive(Clone, Debug, PartialEq, Eq)]
pub enum Action {
    /// atomic write of (key index, value id or 0 for delete)
    Write(Vec<(usize, Val)>),
    /// read of one key returning a value id (0 = nothing)
    Get(usize, Val),
    /// atomic read of keys lo..hi (indices, half-open) returning the present (key, value) pairs
    Scan(usize, usize, Vec<(usize, Val)>),
}

#[derive(Clone, Debug)]
pub struct Event {
    pub invoke: u64,
    pub response: u64,
    pub action: Action,
    pub thread: usize,
}

pub enum Verdict {
    Linearizable,
    NotLinearizable { stuck_after: usize, example: String },
    BudgetExceeded,
}

fn applies(state: &[Val], a: &Action) -> bool {
    match a {
        Action::Write(_) => true,
        Action::Get(k, v) => state[*k] == *v,
        Action::Scan(lo, hi, got) => {
            let want: Vec<(usize, Val)> = (*lo..*hi).filter(|k| state[*k] != 0).map(|k| (k, state[k])).collect();
            want == *got
        }
    }
}

pub fn check(events: &[Event], nkeys: usize, budget: u64) -> Verdict {
    let n = events.len();
    assert!(n <= 128);
    let mut seen: HashSet<(u128, Vec<Val>)> = HashSet::new();
    let mut steps = 0u64;
    let mut best = 0usize;
    let mut best_example = String::new();
    // iterative DFS: stack of (done mask, state, next candidate index)
    let mut stack: Vec<(u128, Vec<Val>, usize)> = vec![(0, vec![0; nkeys], 0)];
    let full: u128 = if n == 128 { u128::MAX } else { (1u128 << n) - 1 };
    while let Some((done, state, start)) = stack.pop() {
        if done == full {
            return Verdict::Linearizable;
        }
        // the earliest response among not-yet-linearised operations bounds who may go next
        let min_resp = (0..n).filter(|i| done & (1u128 << i) == 0).map(|i| events[i].response).min().unwrap();
        let mut advanced = false;
        for i in start..n {
            if done & (1u128 << i) != 0 || events[i].invoke > min_resp {
                continue;
            }
            steps += 1;
            if steps > budget {
                return Verdict::BudgetExceeded;
            }
            if !applies(&state, &events[i].action) {
                continue;
            }
            let mut ns = state.clone();
            if let Action::Write(ws) = &events[i].action {
                for (k, v) in ws {
                    ns[*k] = *v;
                }
            }
            let nd = done | (1u128 << i);
            if seen.insert((nd, ns.clone())) {
                // come back to this frame later to try the next candidate
                stack.push((done, state.clone(), i + 1));
                stack.push((nd, ns, 0));
                advanced = true;
                break;
            }
        }
        if !advanced {
            let count = done.count_ones() as usize;
            if count >= best {
                best = count;
                let pending: Vec<String> = (0..n).filter(|i| done & (1u128 << i) == 0 && events[*i].invoke <= min_resp).map(|i| format!("t{}:{:?}@[{},{}]", events[i].thread, events[i].action, events[i].invoke, events[i].response)).take(6).collect();
                best_example = format!("after linearising {count} of {n} operations the map is {state:?} and none of the operations that may come next fits: {pending:?}");
            }
        }
    }
    Verdict::NotLinearizable { stuck_after: best, example: best_example }
}
