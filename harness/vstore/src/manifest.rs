//! An independent, read-only parser of the manifest text format and the C04 balance equations.
//!
//! Format (from mani's documentation and writer): each line is 8 hex digits of CRC32C over the
//! rest of the line, one action character (`+` add, `-` remove, anything else = info key) and a
//! payload; a line `--------` ends a transaction.  An unterminated trailing transaction is ignored.

use std::collections::{BTreeMap, BTreeSet};
use std::path::{Path, PathBuf};

use setsum::Setsum;

#[derive(Clone, Debug, Default, PartialEq, Eq)]
pub struct Txn {
    pub added: BTreeSet<String>,
    pub removed: BTreeSet<String>,
    pub info: BTreeMap<char, String>,
}

pub fn parse_fragment(path: &Path) -> Result<Vec<Txn>, String> {
    let bytes = std::fs::read(path).map_err(|e| format!("read {}: {e}", path.display()))?;
    let text = String::from_utf8(bytes).map_err(|_| format!("{} is not utf-8", path.display()))?;
    let mut out = vec![];
    let mut cur = Txn::default();
    for (n, line) in text.split('\n').enumerate() {
        if line.is_empty() {
            continue;
        }
        if line == "--------" {
            out.push(std::mem::take(&mut cur));
            continue;
        }
        if line.len() < 9 || !line.is_char_boundary(8) {
            return Err(format!("{}: malformed line {n}", path.display()));
        }
        let want = u32::from_str_radix(&line[..8], 16).map_err(|_| format!("{}: bad crc on line {n}", path.display()))?;
        if crc32c::crc32c(&line.as_bytes()[8..]) != want {
            return Err(format!("{}: crc mismatch on line {n}", path.display()));
        }
        let mut chars = line[8..].chars();
        let action = chars.next().unwrap();
        let payload = chars.as_str().to_string();
        match action {
            '+' => {
                cur.added.insert(payload);
            }
            '-' => {
                cur.removed.insert(payload);
            }
            c => {
                cur.info.insert(c, payload);
            }
        }
    }
    Ok(out)
}

/// Existing fragments oldest first, the live MANIFEST last.
pub fn fragments(root: &Path) -> Vec<PathBuf> {
    let dir = root.join("mani");
    let mut nums: Vec<u64> = vec![];
    if let Ok(rd) = std::fs::read_dir(&dir) {
        for e in rd.flatten() {
            let name = e.file_name().to_string_lossy().to_string();
            if let Some(n) = name.strip_prefix("MANIFEST.").and_then(|s| s.parse::<u64>().ok()) {
                nums.push(n);
            }
        }
    }
    nums.sort();
    let mut out: Vec<PathBuf> = nums.into_iter().map(|n| dir.join(format!("MANIFEST.{n}"))).collect();
    if dir.join("MANIFEST").is_file() {
        out.push(dir.join("MANIFEST"));
    }
    out
}

fn state_after(txns: &[Txn]) -> (BTreeSet<String>, BTreeMap<char, String>) {
    let mut strs = BTreeSet::new();
    let mut info = BTreeMap::new();
    for t in txns {
        for r in t.removed.iter() {
            strs.remove(r);
        }
        for a in t.added.iter() {
            strs.insert(a.clone());
        }
        for (k, v) in t.info.iter() {
            info.insert(*k, v.clone());
        }
    }
    (strs, info)
}

/// The sst digests listed by the live manifest.
pub fn listed_ssts(root: &Path) -> Result<BTreeSet<String>, String> {
    let live = root.join("mani").join("MANIFEST");
    if !live.is_file() {
        return Ok(BTreeSet::new());
    }
    Ok(state_after(&parse_fragment(&live)?).0)
}

/// As `listed_ssts`, for a directory image left by a crash: parsing stops at the first line that is
/// cut or damaged (a torn tail), and an edit without its separator does not count.  None: no MANIFEST.
pub fn listed_ssts_tolerant(root: &Path) -> Option<BTreeSet<String>> {
    let live = root.join("mani").join("MANIFEST");
    let bytes = std::fs::read(&live).ok()?;
    let text = String::from_utf8_lossy(&bytes);
    let mut txns = vec![];
    let mut cur = Txn::default();
    for line in text.split('\n') {
        if line.is_empty() {
            continue;
        }
        if line == "--------" {
            txns.push(std::mem::take(&mut cur));
            continue;
        }
        if line.len() < 9 || !line.is_char_boundary(8) {
            break;
        }
        let Ok(want) = u32::from_str_radix(&line[..8], 16) else { break };
        if crc32c::crc32c(&line.as_bytes()[8..]) != want {
            break;
        }
        let mut chars = line[8..].chars();
        let action = chars.next().unwrap();
        let payload = chars.as_str().to_string();
        match action {
            '+' => {
                cur.added.insert(payload);
            }
            '-' => {
                cur.removed.insert(payload);
            }
            c => {
                cur.info.insert(c, payload);
            }
        }
    }
    Some(state_after(&txns).0)
}

fn digest(s: &str, what: &str) -> Result<Setsum, (String, String)> {
    Setsum::from_hexdigest(s).ok_or_else(|| ("balance:bad-digest".to_string(), format!("{what} is not a digest: {s:?}")))
}

fn info_digest(t: &Txn, c: char, frag: &Path, n: usize) -> Result<Setsum, (String, String)> {
    match t.info.get(&c) {
        Some(s) => digest(s, &format!("{} txn {n} field {c}", frag.display())),
        None => Err(("balance:missing-field".into(), format!("{} txn {n} has no '{c}' field", frag.display()))),
    }
}

thread_local! {
    static VERIFIED: std::cell::RefCell<BTreeSet<(PathBuf, u64)>> = const { std::cell::RefCell::new(BTreeSet::new()) };
}

/// C04 accept half, independent of the verifier: every transaction balances, transactions and
/// fragments chain, the final output equals the sum of the listed digests, and each listed sst's
/// name, stored setsum and recomputed contents agree.
pub fn check_balance(root: &Path) -> Result<(), (String, String)> {
    let frags = fragments(root);
    let mut prev_state: Option<(BTreeSet<String>, BTreeMap<char, String>)> = None;
    let mut last_output: Option<Setsum> = None;
    let mut final_state = (BTreeSet::new(), BTreeMap::new());
    for frag in frags.iter() {
        let txns = parse_fragment(frag).map_err(|e| ("balance:unreadable-fragment".to_string(), e))?;
        if txns.is_empty() {
            continue;
        }
        // the first transaction of a fragment is the complete state at its creation
        if let Some((strs, info)) = &prev_state {
            let first = &txns[0];
            if !first.removed.is_empty() || first.added != *strs || first.info != *info {
                return Err(("balance:fragment-chain".into(), format!("{} does not start with the roll-up of its predecessor", frag.display())));
            }
        }
        let mut acc = info_digest(&txns[0], 'O', frag, 0)?;
        if let Some(lo) = last_output {
            if lo != acc {
                return Err(("balance:fragment-chain".into(), format!("{} starts from output {} but the previous fragment ended with {}", frag.display(), acc.hexdigest(), lo.hexdigest())));
            }
        }
        for (n, t) in txns.iter().enumerate().skip(1) {
            let i = info_digest(t, 'I', frag, n)?;
            let o = info_digest(t, 'O', frag, n)?;
            let d = info_digest(t, 'D', frag, n)?;
            if i != acc {
                return Err(("balance:input-not-previous-output".into(), format!("{} txn {n}: input {} != previous output {}", frag.display(), i.hexdigest(), acc.hexdigest())));
            }
            if i != o + d {
                return Err(("balance:input-ne-output-plus-discard".into(), format!("{} txn {n}: {} != {} + {}", frag.display(), i.hexdigest(), o.hexdigest(), d.hexdigest())));
            }
            let mut computed = Setsum::default();
            for r in t.removed.iter() {
                computed += digest(r, "removed string")?;
            }
            for a in t.added.iter() {
                computed -= digest(a, "added string")?;
            }
            if computed != d {
                return Err(("balance:discard-ne-removed-minus-added".into(), format!("{} txn {n}: discard {} != Σremoved − Σadded {}", frag.display(), d.hexdigest(), computed.hexdigest())));
            }
            acc = o;
        }
        last_output = Some(acc);
        final_state = state_after(&txns);
        prev_state = Some(final_state.clone());
    }
    // final output == sum of listed digests; every listed file is what its name says
    let mut sum = Setsum::default();
    for name in final_state.0.iter() {
        let s = digest(name, "listed sst")?;
        sum += s;
        let path = root.join("sst").join(format!("{name}.sst"));
        let md = std::fs::metadata(&path).map_err(|e| ("balance:listed-sst-missing".to_string(), format!("{}: {e}", path.display())))?;
        use std::os::unix::fs::MetadataExt;
        let key = (path.clone(), md.ino());
        if VERIFIED.with(|v| v.borrow().contains(&key)) {
            continue;
        }
        let table = sst::Sst::<sst::file_manager::FileHandle>::new(sst::SstOptions::default(), &path).map_err(|e| ("balance:listed-sst-unreadable".to_string(), format!("{e:?}")))?;
        if table.fast_setsum().into_inner() != s {
            return Err(("balance:stored-setsum-ne-name".into(), format!("{} stores setsum {}", path.display(), table.fast_setsum().hexdigest())));
        }
        let entries = crate::driver::dump_sst(&path).map_err(|e| ("balance:listed-sst-unreadable".to_string(), e))?;
        let mut re = sst::Setsum::default();
        for (k, t, v) in entries.iter() {
            match v {
                Some(v) => re.put(k, *t, v),
                None => re.del(k, *t),
            }
        }
        if re.into_inner() != s {
            return Err(("balance:contents-ne-name".into(), format!("{}: setsum recomputed from its entries is {}", path.display(), re.hexdigest())));
        }
        VERIFIED.with(|v| v.borrow_mut().insert(key));
    }
    if let Some(o) = last_output {
        if o != sum {
            return Err(("balance:output-ne-sum-of-files".into(), format!("manifest output {} != Σ listed digests {}", o.hexdigest(), sum.hexdigest())));
        }
    }
    Ok(())
}

/// Trigger predicate of known finding R-R, computed from the manifest fragments on disk with the
/// parser above: some digest is removed by one transaction and added again by a later one
/// (a compaction re-created a file with the same contents as one removed earlier), so the copy in
/// trash/ may belong to a removal the verifier has not verified yet.
pub fn readded_after_removal(root: &Path) -> Result<bool, String> {
    let mut removed: BTreeSet<String> = BTreeSet::new();
    for frag in fragments(root) {
        let txns = parse_fragment(&frag)?;
        for t in txns.iter().skip(1) {
            for a in t.added.iter() {
                if removed.contains(a) && !t.removed.contains(a) {
                    return Ok(true);
                }
            }
            for r in t.removed.iter() {
                if !t.added.contains(r) {
                    removed.insert(r.clone());
                }
            }
        }
    }
    Ok(false)
}
