//! E3 — in-binary interposition of the libc entry points that mutate the file system.
//!
//! The functions below are exported with their libc names, so Rust's std and `sst`'s direct
//! `libc::fdatasync` resolve to them; each forwards to the real implementation found with
//! `dlsym(RTLD_NEXT)`.  When armed on a root directory the shim
//!   * counts mutating calls under that root and records a trace of them,
//!   * can `_exit` *before* call number k (crash point), optionally first discarding file bytes
//!     written after the file's last successful fsync/fdatasync (persistence model b),
//!   * can make call number k fail with EIO / ENOSPC (no partial effect).
//! Unarmed (the default) every function is a plain pass-through.

#![allow(clippy::missing_safety_doc)]

use libc::{c_char, c_int, c_void, mode_t, off_t, size_t, ssize_t};
use std::collections::HashMap;
use std::ffi::CStr;
use std::sync::atomic::{AtomicBool, AtomicI32, AtomicU64, Ordering};
use std::sync::Mutex;

pub static ARMED: AtomicBool = AtomicBool::new(false);
pub static COUNT: AtomicU64 = AtomicU64::new(0);
/// crash before this call index
pub static CRASH_AT: AtomicU64 = AtomicU64::new(u64::MAX);
/// fail this call index with FAIL_ERRNO
pub static FAIL_AT: AtomicU64 = AtomicU64::new(u64::MAX);
pub static FAIL_ERRNO: AtomicI32 = AtomicI32::new(0);
/// with FAIL_AT on a write: write a prefix of the buffer (chosen by CUT_SEL; after a newline when
/// CUT_SEL is even and the buffer has one), return the short count, and fail the NEXT mutating call
/// with FAIL_ERRNO - the way a full disk looks to write_all
pub static FAIL_SHORT: AtomicBool = AtomicBool::new(false);
/// with FAIL_SHORT: the call after the short write is NOT failed - a short count is all that
/// happens (a signal, a file-size limit about to be lifted); correct callers simply write the rest
pub static FAIL_SHORT_NO_ERROR: AtomicBool = AtomicBool::new(false);
/// 0 = model a (everything persists), 1 = model b lose-all, 2 = model b torn (cut selector)
pub static MODE_B: AtomicU64 = AtomicU64::new(0);
pub static CUT_SEL: AtomicU64 = AtomicU64::new(0);
/// index of the history op being executed (for classifying crash points)
pub static CURRENT_OP: AtomicU64 = AtomicU64::new(u64::MAX);

struct St {
    root: String,
    /// fd -> (inode, path relative to root)
    fds: HashMap<c_int, (u64, String)>,
    /// inode -> (length at last successful sync, current length)
    files: HashMap<u64, (u64, u64)>,
    trace: Vec<String>,
}

static ST: Mutex<Option<St>> = Mutex::new(None);

pub fn arm(root: &str) {
    *ST.lock().unwrap() = Some(St { root: root.trim_end_matches('/').to_string(), fds: HashMap::new(), files: HashMap::new(), trace: vec![] });
    COUNT.store(0, Ordering::SeqCst);
    ARMED.store(true, Ordering::SeqCst);
}

pub fn disarm() {
    ARMED.store(false, Ordering::SeqCst);
}

pub fn trace() -> Vec<String> {
    ST.lock().unwrap().as_ref().map(|s| s.trace.clone()).unwrap_or_default()
}

macro_rules! real {
    ($name:literal, $ty:ty) => {{
        static PTR: std::sync::atomic::AtomicUsize = std::sync::atomic::AtomicUsize::new(0);
        let mut p = PTR.load(Ordering::Relaxed);
        if p == 0 {
            p = unsafe { libc::dlsym(libc::RTLD_NEXT, concat!($name, "\0").as_ptr() as *const c_char) } as usize;
            PTR.store(p, Ordering::Relaxed);
        }
        let f: $ty = unsafe { std::mem::transmute::<usize, $ty>(p) };
        f
    }};
}

fn under(p: *const c_char) -> Option<String> {
    if !ARMED.load(Ordering::Relaxed) || p.is_null() {
        return None;
    }
    let s = unsafe { CStr::from_ptr(p) }.to_string_lossy().to_string();
    let g = ST.lock().unwrap();
    let st = g.as_ref()?;
    if s == st.root {
        Some(String::new())
    } else if s.starts_with(&st.root) && s.as_bytes().get(st.root.len()) == Some(&b'/') {
        Some(s[st.root.len() + 1..].to_string())
    } else {
        None
    }
}

fn fd_info(fd: c_int) -> Option<(u64, String)> {
    if !ARMED.load(Ordering::Relaxed) {
        return None;
    }
    ST.lock().unwrap().as_ref()?.fds.get(&fd).cloned()
}

/// Apply persistence model b (if selected) and terminate the process without unwinding.
pub fn crash_now() -> ! {
    ARMED.store(false, Ordering::SeqCst);
    let mode = MODE_B.load(Ordering::Relaxed);
    if mode != 0 {
        // try_lock: the crash may be triggered from inside a shim function on another thread
        let g = ST.lock().unwrap_or_else(|e| e.into_inner());
        if let Some(st) = g.as_ref() {
            fn walk(dir: &std::path::Path, out: &mut Vec<(u64, std::path::PathBuf)>) {
                if let Ok(rd) = std::fs::read_dir(dir) {
                    for e in rd.flatten() {
                        let p = e.path();
                        if let Ok(md) = std::fs::symlink_metadata(&p) {
                            use std::os::unix::fs::MetadataExt;
                            if md.is_dir() {
                                walk(&p, out);
                            } else {
                                out.push((md.ino(), p));
                            }
                        }
                    }
                }
            }
            let mut all = vec![];
            walk(std::path::Path::new(&st.root), &mut all);
            let mut sel = CUT_SEL.load(Ordering::Relaxed);
            let mut inodes: Vec<(&u64, &(u64, u64))> = st.files.iter().collect();
            inodes.sort();
            for (ino, (synced, cur)) in inodes {
                if cur > synced {
                    let keep = if mode == 1 {
                        *synced
                    } else {
                        sel = sel.wrapping_mul(6364136223846793005).wrapping_add(1442695040888963407);
                        synced + (sel >> 33) % (cur - synced + 1)
                    };
                    if let Some((_, p)) = all.iter().find(|(i, _)| i == ino) {
                        if let Ok(f) = std::fs::OpenOptions::new().write(true).open(p) {
                            let _ = f.set_len(keep);
                        }
                    }
                }
            }
        }
    }
    unsafe { libc::_exit(99) }
}

/// Account for one mutating call; returns Some(errno) if the call must fail.
fn mutating(what: &str) -> Option<c_int> {
    let n = COUNT.fetch_add(1, Ordering::SeqCst);
    if let Some(st) = ST.lock().unwrap().as_mut() {
        let op = CURRENT_OP.load(Ordering::Relaxed);
        st.trace.push(format!("{n}\t{}\t{what}", if op == u64::MAX { "-".to_string() } else { op.to_string() }));
    }
    if n == CRASH_AT.load(Ordering::Relaxed) {
        crash_now();
    }
    if n == FAIL_AT.load(Ordering::Relaxed) {
        return Some(FAIL_ERRNO.load(Ordering::Relaxed));
    }
    None
}

fn set_errno(e: c_int) {
    unsafe { *libc::__errno_location() = e };
}

fn refresh(fd: c_int, synced: bool) {
    let mut stt: libc::stat = unsafe { std::mem::zeroed() };
    if unsafe { libc::fstat(fd, &mut stt) } != 0 {
        return;
    }
    let mut g = ST.lock().unwrap();
    if let Some(st) = g.as_mut() {
        let e = st.files.entry(stt.st_ino as u64).or_insert((0, 0));
        e.1 = stt.st_size as u64;
        if synced {
            e.0 = e.1;
        }
    }
}

fn do_open(p: *const c_char, flags: c_int, mode: mode_t) -> c_int {
    let u = under(p);
    if let Some(rel) = &u {
        if flags & (libc::O_CREAT | libc::O_TRUNC) != 0 {
            let exists = unsafe { libc::access(p, libc::F_OK) } == 0;
            if !exists || flags & libc::O_TRUNC != 0 {
                if let Some(e) = mutating(&format!("open-create\t{rel}")) {
                    set_errno(e);
                    return -1;
                }
            }
        }
    }
    let f = real!("open64", extern "C" fn(*const c_char, c_int, mode_t) -> c_int);
    let fd = f(p, flags, mode);
    if fd >= 0 {
        if let Some(rel) = u {
            let mut stt: libc::stat = unsafe { std::mem::zeroed() };
            if unsafe { libc::fstat(fd, &mut stt) } == 0 && (stt.st_mode & libc::S_IFMT) == libc::S_IFREG {
                let mut g = ST.lock().unwrap();
                if let Some(st) = g.as_mut() {
                    st.fds.insert(fd, (stt.st_ino as u64, rel));
                    // a file that exists when first seen is taken as fully persistent
                    st.files.entry(stt.st_ino as u64).or_insert((stt.st_size as u64, stt.st_size as u64));
                }
            }
        }
    }
    fd
}

#[unsafe(no_mangle)]
pub unsafe extern "C" fn open64(p: *const c_char, flags: c_int, mode: mode_t) -> c_int {
    do_open(p, flags, mode)
}

#[unsafe(no_mangle)]
pub unsafe extern "C" fn open(p: *const c_char, flags: c_int, mode: mode_t) -> c_int {
    do_open(p, flags, mode)
}

#[unsafe(no_mangle)]
pub unsafe extern "C" fn close(fd: c_int) -> c_int {
    if ARMED.load(Ordering::Relaxed) {
        if let Some(st) = ST.lock().unwrap().as_mut() {
            st.fds.remove(&fd);
        }
    }
    let f = real!("close", extern "C" fn(c_int) -> c_int);
    f(fd)
}

#[unsafe(no_mangle)]
pub unsafe extern "C" fn write(fd: c_int, buf: *const c_void, n: size_t) -> ssize_t {
    let info = fd_info(fd);
    if let Some((_, rel)) = &info {
        if let Some(e) = mutating(&format!("write\t{rel}\t{n}")) {
            if n < 2 && FAIL_SHORT.load(Ordering::SeqCst) && FAIL_SHORT_NO_ERROR.load(Ordering::SeqCst) {
                // nothing to cut: in the no-error mode the call simply goes through
                FAIL_SHORT.store(false, Ordering::SeqCst);
                FAIL_AT.store(u64::MAX - 1, Ordering::SeqCst);
                let f = real!("write", extern "C" fn(c_int, *const c_void, size_t) -> ssize_t);
                let r = f(fd, buf, n);
                refresh(fd, false);
                return r;
            }
            if n >= 2 && FAIL_SHORT.swap(false, Ordering::SeqCst) {
                let bytes = unsafe { std::slice::from_raw_parts(buf as *const u8, n) };
                let sel = CUT_SEL.load(Ordering::Relaxed);
                let lines: Vec<usize> = bytes.iter().enumerate().filter(|(i, b)| **b == b'\n' && *i + 1 < n).map(|(i, _)| i + 1).collect();
                let keep = if sel % 2 == 0 && !lines.is_empty() { lines[((sel >> 1) % lines.len() as u64) as usize] } else { 1 + ((sel >> 1) % (n as u64 - 1)) as usize };
                if FAIL_SHORT_NO_ERROR.load(Ordering::SeqCst) {
                    FAIL_AT.store(u64::MAX - 1, Ordering::SeqCst);
                } else {
                    FAIL_AT.store(COUNT.load(Ordering::SeqCst), Ordering::SeqCst);
                }
                let f = real!("write", extern "C" fn(c_int, *const c_void, size_t) -> ssize_t);
                let r = f(fd, buf, keep);
                refresh(fd, false);
                return r;
            }
            set_errno(e);
            return -1;
        }
    }
    let f = real!("write", extern "C" fn(c_int, *const c_void, size_t) -> ssize_t);
    let r = f(fd, buf, n);
    if info.is_some() {
        refresh(fd, false);
    }
    r
}

#[unsafe(no_mangle)]
pub unsafe extern "C" fn pwrite64(fd: c_int, buf: *const c_void, n: size_t, off: off_t) -> ssize_t {
    let info = fd_info(fd);
    if let Some((_, rel)) = &info {
        if let Some(e) = mutating(&format!("pwrite\t{rel}\t{n}")) {
            set_errno(e);
            return -1;
        }
    }
    let f = real!("pwrite64", extern "C" fn(c_int, *const c_void, size_t, off_t) -> ssize_t);
    let r = f(fd, buf, n, off);
    if info.is_some() {
        refresh(fd, false);
    }
    r
}

#[unsafe(no_mangle)]
pub unsafe extern "C" fn fdatasync(fd: c_int) -> c_int {
    let info = fd_info(fd);
    if let Some((_, rel)) = &info {
        if let Some(e) = mutating(&format!("fdatasync\t{rel}")) {
            set_errno(e);
            return -1;
        }
    }
    let f = real!("fdatasync", extern "C" fn(c_int) -> c_int);
    let r = f(fd);
    if info.is_some() && r == 0 {
        refresh(fd, true);
    }
    r
}

#[unsafe(no_mangle)]
pub unsafe extern "C" fn fsync(fd: c_int) -> c_int {
    let info = fd_info(fd);
    if let Some((_, rel)) = &info {
        if let Some(e) = mutating(&format!("fsync\t{rel}")) {
            set_errno(e);
            return -1;
        }
    }
    let f = real!("fsync", extern "C" fn(c_int) -> c_int);
    let r = f(fd);
    if info.is_some() && r == 0 {
        refresh(fd, true);
    }
    r
}

#[unsafe(no_mangle)]
pub unsafe extern "C" fn ftruncate64(fd: c_int, len: off_t) -> c_int {
    let info = fd_info(fd);
    if let Some((_, rel)) = &info {
        if let Some(e) = mutating(&format!("ftruncate\t{rel}\t{len}")) {
            set_errno(e);
            return -1;
        }
    }
    let f = real!("ftruncate64", extern "C" fn(c_int, off_t) -> c_int);
    let r = f(fd, len);
    if info.is_some() {
        refresh(fd, false);
    }
    r
}

#[unsafe(no_mangle)]
pub unsafe extern "C" fn rename(a: *const c_char, b: *const c_char) -> c_int {
    if let (Some(x), Some(y)) = (under(a), under(b)) {
        if let Some(e) = mutating(&format!("rename\t{x}\t{y}")) {
            set_errno(e);
            return -1;
        }
    }
    let f = real!("rename", extern "C" fn(*const c_char, *const c_char) -> c_int);
    f(a, b)
}

#[unsafe(no_mangle)]
pub unsafe extern "C" fn linkat(a: c_int, b: *const c_char, c: c_int, d: *const c_char, e: c_int) -> c_int {
    if let (Some(x), Some(y)) = (under(b), under(d)) {
        if let Some(err) = mutating(&format!("link\t{x}\t{y}")) {
            set_errno(err);
            return -1;
        }
    }
    let f = real!("linkat", extern "C" fn(c_int, *const c_char, c_int, *const c_char, c_int) -> c_int);
    f(a, b, c, d, e)
}

#[unsafe(no_mangle)]
pub unsafe extern "C" fn link(b: *const c_char, d: *const c_char) -> c_int {
    if let (Some(x), Some(y)) = (under(b), under(d)) {
        if let Some(err) = mutating(&format!("link\t{x}\t{y}")) {
            set_errno(err);
            return -1;
        }
    }
    let f = real!("link", extern "C" fn(*const c_char, *const c_char) -> c_int);
    f(b, d)
}

#[unsafe(no_mangle)]
pub unsafe extern "C" fn unlink(a: *const c_char) -> c_int {
    if let Some(x) = under(a) {
        if let Some(e) = mutating(&format!("unlink\t{x}")) {
            set_errno(e);
            return -1;
        }
    }
    let f = real!("unlink", extern "C" fn(*const c_char) -> c_int);
    f(a)
}

#[unsafe(no_mangle)]
pub unsafe extern "C" fn unlinkat(d: c_int, a: *const c_char, fl: c_int) -> c_int {
    // remove_dir_all walks with directory fds; attribute by the path fragment only
    if ARMED.load(Ordering::Relaxed) && !a.is_null() {
        let name = unsafe { CStr::from_ptr(a) }.to_string_lossy().to_string();
        let tracked = under(a).is_some() || (d != libc::AT_FDCWD && fd_is_under_root(d));
        if tracked {
            if let Some(e) = mutating(&format!("unlinkat\t{name}")) {
                set_errno(e);
                return -1;
            }
        }
    }
    let f = real!("unlinkat", extern "C" fn(c_int, *const c_char, c_int) -> c_int);
    f(d, a, fl)
}

fn fd_is_under_root(fd: c_int) -> bool {
    let link = format!("/proc/self/fd/{fd}");
    match std::fs::read_link(&link) {
        Ok(p) => {
            let s = p.to_string_lossy().to_string();
            let g = ST.lock().unwrap();
            match g.as_ref() {
                Some(st) => s == st.root || (s.starts_with(&st.root) && s.as_bytes().get(st.root.len()) == Some(&b'/')),
                None => false,
            }
        }
        Err(_) => false,
    }
}

#[unsafe(no_mangle)]
pub unsafe extern "C" fn mkdir(a: *const c_char, m: mode_t) -> c_int {
    if let Some(x) = under(a) {
        if let Some(e) = mutating(&format!("mkdir\t{x}")) {
            set_errno(e);
            return -1;
        }
    }
    let f = real!("mkdir", extern "C" fn(*const c_char, mode_t) -> c_int);
    f(a, m)
}

#[unsafe(no_mangle)]
pub unsafe extern "C" fn rmdir(a: *const c_char) -> c_int {
    if let Some(x) = under(a) {
        if let Some(e) = mutating(&format!("rmdir\t{x}")) {
            set_errno(e);
            return -1;
        }
    }
    let f = real!("rmdir", extern "C" fn(*const c_char) -> c_int);
    f(a)
}
