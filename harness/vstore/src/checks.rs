//! The store-level checks that ride on the step driver.

use proptest::prelude::*;

use vcore::{Check, Ctx, Outcome, Property, Tier};

use crate::driver::{self, History, OpWeights, Probes, Profile};

pub struct StoreProp {
    pub name: &'static str,
    pub probes: Probes,
    pub profile: Profile,
    pub weights: OpWeights,
    pub tree_surface_weight: u32,
    pub quick: (u64, usize, usize),
    pub thorough: (u64, usize, usize),
    pub nontrivial: fn(&driver::Stats) -> bool,
}

impl Property for StoreProp {
    type Case = History;
    fn name(&self) -> String {
        self.name.to_string()
    }
    fn cases(&self, tier: Tier) -> u64 {
        tier.pick(self.quick.0, self.thorough.0)
    }
    fn max_shrink_iters(&self) -> u32 {
        600
    }
    fn record_current(&self) -> bool {
        // a cursor over freed memory can take the whole process down; keep the case on disk so the
        // parent can still produce a replay file
        self.probes.cursors
    }
    fn strategy(&self, ctx: &Ctx) -> BoxedStrategy<History> {
        let (_, warm, ops) = ctx.tier.pick(self.quick, self.thorough);
        driver::history_strategy(self.profile, self.weights, self.tree_surface_weight, 0..warm + 1, 1..ops + 1)
    }
    fn run(&self, ctx: &Ctx, h: &History) -> Outcome {
        let mut o = Outcome::pass();
        let stats = driver::run_history(ctx, h, self.probes, &mut o);
        driver::label_stats(&mut o, &stats);
        o.label(format!("surface:{:?}", h.surface));
        o.nontrivial = (self.nontrivial)(&stats);
        o
    }
}

pub fn c01() -> Check {
    Check::new(
        "C01",
        "exploration",
        "proptest-generated histories over both surfaces (KeyValueStore: put/del/batch/flush; LsmTree: ingest of externally built ssts with fresh, higher timestamps) interleaved with compaction steps, verifier passes and reopen, over <= 40 keys from four families (dense, shared prefix, prefix chains, adversarial bytes) and generated options (memtable size, file/block sizes, restart intervals, L0 thresholds, max compaction files/bytes, gc policy, sst cache, manifest rollover ratio). A warm-up prefix runs without per-op oracles; after every later op every universe key and two never-written neighbours are read back and compared with a sequential map model. Non-trivial: >= 1 flush/ingest and >= 1 merge or GC compaction happened; distinct by structural hash of the history.",
    )
    .assume("keys inside one write batch are distinct (the API does not define an order inside a batch)")
    .assume("externally ingested ssts carry timestamps higher than everything ingested before")
    .assume("the driver is single-threaded: flush, compaction and verifier run as steps between client operations (step hooks); it never flushes while level 0 is at the stall threshold")
    .assume("known finding R-D: reopen is skipped (and counted) when two live ssts overlap in key range and timestamp range")
    .pbt(StoreProp {
        name: "point-reads",
        probes: Probes { reads: true, ..Default::default() },
        profile: Profile::Shape,
        weights: OpWeights { switch: 2, ..OpWeights::base() },
        tree_surface_weight: 25,
        quick: (400, 300, 150),
        thorough: (800, 500, 300),
        nontrivial: |s| s.flushes + s.ingests >= 1 && s.merges + s.gcs >= 1,
    })
}

pub fn c03() -> Check {
    let mut w = OpWeights::base();
    w.scan = 25;
    w.del = 16;
    w.switch = 2;
    Check::new(
        "C03",
        "exploration",
        "the C01 history generator plus scan probes: a bounds pair from {Unbounded, Included, Excluded}^2 over universe keys and their byte neighbours (empty and inverted ranges occur) and a program of <= 16 cursor calls; after every call the cursor is compared with a reference cursor over the model's live keys in range (key and value); every probe also does a full forward and a full backward walk and cross-checks each returned key with a point read. Non-trivial: >= 1 flush/ingest, >= 1 merge or GC, >= 1 scan probe with a direction reversal; distinct by structural hash.",
    )
    .assume("scan timestamps are not compared (the store assigns them); keys and values are")
    .assume("as C01: distinct keys per batch, ascending ingest timestamps, single-threaded step driving, R-D reopen exclusion")
    .pbt(StoreProp {
        name: "range-scans",
        probes: Probes { scans: true, ..Default::default() },
        profile: Profile::Shape,
        weights: w,
        tree_surface_weight: 25,
        quick: (300, 250, 120),
        thorough: (800, 400, 300),
        nontrivial: |s| s.flushes + s.ingests >= 1 && s.merges + s.gcs >= 1 && s.scan_reversals >= 1,
    })
}

pub fn c05() -> Check {
    let mut w = OpWeights::base();
    w.compact = 40;
    w.del = 18;
    w.reopen = 1;
    w.switch = 1;
    Check::new(
        "C05",
        "exploration",
        "store level: C01 histories (more deletes and compaction steps, gc policies from the policy grammar) with a full multi-version dump of every live sst before and after every compaction step; a step that is not a GC must leave the multiset of (key, timestamp, value-or-tombstone) unchanged; a GC step may only drop entries, never duplicate or invent one, never an entry the configured policy requires to retain (independent reading of the documented policy language evaluated over the key's whole reachable history), and never the value that decides the current value of a key. unit level: generated per-key version patterns x generated policies x now_micros fed to GarbageCollectionPolicy::collector and compared with the independent reading. Non-trivial (store): >= 1 merge and >= 1 GC that dropped entries; (unit): >= 2 keys with >= 3 versions and >= 1 tombstone run; distinct by structural hash.",
    )
    .assume("retaining more than the policy requires is allowed (module documentation of sst::gc); only dropping a required entry is a violation")
    .assume("which compaction steps are garbage collections is reported by a guard-only hook (the step whose upper level is the last level)")
    .assume("as C01: single-threaded step driving, distinct keys per batch, R-D / R-R exclusions")
    .pbt(StoreProp {
        name: "conservation",
        probes: Probes { conserve: true, ..Default::default() },
        profile: Profile::Shape,
        weights: w,
        tree_surface_weight: 25,
        quick: (250, 250, 120),
        thorough: (2500, 400, 300),
        nontrivial: |s| s.merges >= 1 && s.gcs >= 1 && s.gc_dropped_entries >= 1,
    })
    .pbt(crate::gcunit::GcUnit)
}

pub fn c04() -> Check {
    let mut w = OpWeights::base();
    w.verify = 8;
    w.compact = 34;
    w.del = 14;
    Check::new(
        "C04",
        "exploration",
        "accept half: C01 histories (manifest rollover ratios 1, 2, 8 so fragments appear; more verifier passes) and after every operation an independent re-implementation parses every manifest fragment and checks: each transaction has input == previous output and input == output + discard, discard == sum(removed) - sum(added), each fragment starts with the roll-up of its predecessor, the final output equals the sum of the listed digests, and each listed sst's file name, stored setsum and setsum recomputed from a full walk agree; every verifier pass must return Ok or back off. reject half: on a finished store (no verifier pass during the history, so every fragment is still there) one hex digit of one recorded digest (an added or removed sst, or the I / O / D field of a transaction other than a fragment's leading roll-up) is changed and the line's CRC fixed up; ManifestVerifier::verify of that fragment must fail, and when the fragment is one the offline verifier processes, LsmVerifier::verify on a copy of the directory must fail too (both must accept the untampered history first). Content level (part tamper-gc-output): one entry the policy requires to retain is removed from one output of one GC transaction, the file is rebuilt under its new setsum and the whole later manifest history is re-balanced (discard grows, outputs and later inputs shift, later mentions renamed, the shift ends where the file is removed again) so that every balance equation still holds; the offline verifier's replay of the garbage collection must report the loss. Non-trivial: >= 1 merge, >= 1 GC with non-zero discard, >= 1 rolled fragment; distinct by structural hash.",
    )
    .assume("raw byte damage (CRC failures) belongs to C09; tampers here are the self-consistent output of a hypothetical buggy compaction")
    .assume("as C01: single-threaded step driving, R-D / R-R exclusions")
    .pbt(StoreProp {
        name: "balance-accept",
        probes: Probes { balance: true, ..Default::default() },
        profile: Profile::Shape,
        weights: w,
        tree_surface_weight: 20,
        quick: (120, 200, 100),
        thorough: (2500, 400, 250),
        nontrivial: |s| s.merges >= 1 && s.gcs >= 1 && s.rolled_fragments >= 1,
    })
    .pbt(crate::tamper::TamperDigits)
    .pbt(crate::tamper::TamperGcOutput)
}

pub fn c08() -> Check {
    let mut w = OpWeights::base();
    w.verify = 12;
    w.reopen = 6;
    w.compact = 34;
    w.cursor = 4;
    w.switch = 2;
    Check::new(
        "C08",
        "exploration",
        "C01 histories with many verifier passes and reopens (orphan clean-up) and scan cursors held across compactions; after every operation every sst named by the live tree and by the manifest on disk (independent parse) must exist in sst/; a verifier pass must not change sst/ and must never remove the live MANIFEST; after every operation the full read-back still equals the model (so a wrongly removed file shows up as an error or a wrong read). Non-trivial: >= 1 verifier pass that unlinked files and >= 1 reopen after a compaction; distinct by structural hash.",
    )
    .assume("part crash-in-cleanup re-uses the C02 fault enumerator restricted to crash points inside verifier passes, reopen-time orphan clean-up and trash moves: after the crash a fresh process reopens, reads everything back, runs a verifier pass, reopens and reads again; contents must equal the acknowledged state both times")
    .assume("as C01: single-threaded step driving, R-D / R-R exclusions")
    .pbt(StoreProp {
        name: "files",
        probes: Probes { files: true, reads: true, cursors: true, ..Default::default() },
        profile: Profile::Shape,
        weights: w,
        tree_surface_weight: 20,
        quick: (120, 200, 100),
        thorough: (2500, 400, 250),
        nontrivial: |s| s.verify_unlinked >= 1 && s.reopens >= 1 && s.merges + s.gcs >= 1,
    })
    .part(crate::crash::CrashEnum { name: "crash-in-cleanup", focus: crate::crash::Focus::CleanUp, quick: 8, thorough: 35, quick_points: 60 })
    .pbt(crate::threads::ThreadedFiles)
}

pub fn c07() -> Check {
    let mut w = OpWeights::base();
    w.cursor = 14;
    w.flush = 18;
    w.verify = 5;
    Check::new(
        "C07",
        "exploration",
        "deterministic half: C01 histories in which up to three scan cursors are opened at generated points, advanced with generated programs, kept while writes, memtable rollovers and flushes, compactions, GCs and verifier unlinks go on, and finally walked to the end; every value a cursor returns must equal a reference cursor over the model snapshot taken when the scan was opened, no call may fail, and (skipfree allocation registry hook) no dereferenced skiplist node may have been freed. Generated configurations include sst cache sizes 0 and 8 KiB so retired files are not masked by cached descriptors. Non-trivial: a cursor was used after >= 1 flush or >= 1 compaction that happened since it was opened; distinct by structural hash.",
    )
    .assume("cursors are closed before a reopen (a cursor belongs to one open store)")
    .assume("threaded half (part threaded-held-cursors): client threads open a cursor, read a few entries, keep writing, and walk the cursor again at the end while a flush thread and compaction threads run; the second walk must extend the first, be ordered, and be a state the store could have had when the scan was opened (checked by the linearizability search as an atomic scan at open time); OS schedules are not owned")
    .pbt(StoreProp {
        name: "held-cursors",
        probes: Probes { cursors: true, ..Default::default() },
        profile: Profile::Shape,
        weights: w,
        tree_surface_weight: 15,
        quick: (120, 150, 120),
        thorough: (2500, 300, 300),
        nontrivial: |s| s.cursor_held_across_flush + s.cursor_held_across_compaction >= 1,
    })
    .pbt(crate::threads::Linearizability { name: "threaded-held-cursors" })
}

pub fn c20() -> Check {
    let mut w = OpWeights::base();
    w.flush = 30;
    w.put = 36;
    w.compact = 8;
    w.reopen = 1;
    w.verify = 1;
    Check::new(
        "C20",
        "exploration",
        "safety form of the liveness property over generated states (deterministic half): configurations with small write-stall / mandatory-compaction thresholds (1..8 files, 4 KiB..64 MiB) and tight compaction limits (max files 2..64, max bytes 8 KiB..512 MiB); histories that flush/ingest often and compact rarely so level 0 reaches the stall threshold; whenever the store reports that ingest must stall, a bounded number of compaction steps (<= live files + 16) must lower level 0 below the threshold, and a compaction step that finds nothing to run while the stall holds and nothing is in progress is a violation. Non-trivial: level 0 reached the stall threshold at least once and was relieved; distinct by structural hash.",
    )
    .assume("'eventually' is replaced by bounded-step relief under single-threaded step driving (part stall-relief) and by exact dead-lock detection under real threads (part threaded-stall: 1-4 threads ingesting ssts into an LsmTree with 1-3 compaction threads and stall thresholds of 1-7 files; a stall is declared only when every live store thread is parked on a condition variable and the progress / notify / ingested counters did not move for 3 s; a 60 s watchdog only yields 'inconclusive'); part exact-wakeups isolates each wake-up: exactly one store thread is parked (an ingest on the write stall, or a compaction thread for lack of work) and the harness itself performs the event that must wake it (compaction steps that relieve level 0, or an ingest that reaches the mandatory threshold), so 'still parked afterwards' is an exact lost-wake-up verdict")
    .pbt(StoreProp {
        name: "stall-relief",
        probes: Probes { stall: true, reads: false, ..Default::default() },
        profile: Profile::Stall,
        weights: w,
        tree_surface_weight: 30,
        quick: (150, 100, 150),
        thorough: (3000, 200, 400),
        nontrivial: |s| s.stalls_relieved >= 1,
    })
    .pbt(crate::threads::ThreadedStall)
    .pbt(crate::threads::Wakeups)
    .pbt(crate::threads::RejectedWrites)
}

pub fn c02() -> Check {
    let mut c = Check::new(
        "C02",
        "fault_enumeration",
        "proptest-generated KeyValueStore histories (8..50 ops quick, ..90 thorough: put/del/batch/flush/compaction steps/verifier passes/reopen over generated options) are executed in a child process under an in-binary libc shim that numbers every file-system mutating call under the store root (open-create, write, pwrite, fsync, fdatasync, ftruncate, rename, link, unlink, mkdir, rmdir); the history is then re-executed and killed (_exit) before call k for every k (thorough) or a class-stratified sample of k (quick, all k when the history has few calls), under persistence model (a) all completed calls persist, (b) lose-all: bytes after each file's last successful sync are dropped, (b) torn: a generated prefix of them survives, and with call k failing with EIO / ENOSPC followed by a lose-all crash at the first reported error. A third, fresh process reopens the image, reads every key by point read and full scan, runs a verifier pass, reopens and reads again. Accepted states: model after the acknowledged ops, or that plus the one in-flight op applied completely. Reopen must succeed except for torn cuts (explicit error tolerated, panic never). Non-trivial: >= 1 write was acknowledged before the crash point; distinct by (history, k, mode).",
    )
    .assume("directory-entry durability is not modelled (neither model in the property loses directory operations)")
    .assume("an operation that returned Ok counts as acknowledged; an injected failure that the store swallows is only a violation if an acknowledged write is then lost")
    .assume("recovered images that satisfy the R-D predicate (two live ssts overlapping in key range and timestamp range) are excluded and counted");
    c.watchdog_quick_s = 1500;
    c.part(crate::crash::CrashEnum { name: "crash-enumeration", focus: crate::crash::Focus::All, quick: 10, thorough: 40, quick_points: 40 })
}

pub fn c06() -> Check {
    Check::new(
        "C06",
        "exploration",
        "2-4 client threads run proptest-generated programs of 4-13 operations (put, delete, 2-6-key batch, get, range scan, held scan) over 2-8 shared keys against one KeyValueStore while a flush thread and 1-2 compaction threads run; memtable sizes 1 / 600 / 4096 bytes force rollovers and flushes mid-history; generated perturbation bytes drive yields and short sleeps at the store's guard-only yield points (after sequence assignment, after the log append, between the entries of a batch, after the memtable insert). Every operation is stamped with an invocation and a response number from one atomic counter; a Wing-Gong/Lowe search with memoisation looks for a total order that respects real time under a map model in which a batch is one atomic multi-key write and a scan one atomic range read. Non-trivial: two operations of different threads on one key overlap in time and a flush or compaction completed during the history; distinct by structural hash. Replays re-run a case 30 times.",
    )
    .assume("thread schedules belong to the OS (perturbed, not enumerated): a violation is exact, absence is weak evidence")
    .assume("values are unique per write, so a read identifies the write it observed")
    .assume("a search that exceeds its budget or a 60 s watchdog marks the case inconclusive, never a violation; a stall is only declared by the exact all-parked criterion")
    .pbt(crate::threads::Linearizability { name: "linearizability" })
}
