//! The store-level checks that ride on the step driver.

use proptest::prelude::*;

use vcore::{Check, Ctx, Outcome, Property, Tier};

use crate::driver::{self, History, OpWeights, Probes, Profile};

pub struct StoreProp {
    pub name: &'static str,
    pub probes: Probes,
    pub profile: Profile,
    pub weights: OpWeights,
    pub tree_surface_weight: u32,
    pub quick: (u64, usize, usize),
    pub thorough: (u64, usize, usize),
    pub nontrivial: fn(&driver::Stats) -> bool,
}

impl Property for StoreProp {
    type Case = History;
    fn name(&self) -> String {
        self.name.to_string()
    }
    fn cases(&self, tier: Tier) -> u64 {
        tier.pick(self.quick.0, self.thorough.0)
    }
    fn max_shrink_iters(&self) -> u32 {
        600
    }
    fn strategy(&self, ctx: &Ctx) -> BoxedStrategy<History> {
        let (_, warm, ops) = ctx.tier.pick(self.quick, self.thorough);
        driver::history_strategy(self.profile, self.weights, self.tree_surface_weight, 0..warm + 1, 1..ops + 1)
    }
    fn run(&self, ctx: &Ctx, h: &History) -> Outcome {
        let mut o = Outcome::pass();
        let stats = driver::run_history(ctx, h, self.probes, &mut o);
        driver::label_stats(&mut o, &stats);
        o.label(format!("surface:{:?}", h.surface));
        o.nontrivial = (self.nontrivial)(&stats);
        o
    }
}

pub fn c01() -> Check {
    Check::new(
        "C01",
        "exploration",
        "proptest-generated histories over both surfaces (KeyValueStore: put/del/batch/flush; LsmTree: ingest of externally built ssts with fresh, higher timestamps) interleaved with compaction steps, verifier passes and reopen, over <= 40 keys from four families (dense, shared prefix, prefix chains, adversarial bytes) and generated options (memtable size, file/block sizes, restart intervals, L0 thresholds, max compaction files/bytes, gc policy, sst cache, manifest rollover ratio). A warm-up prefix runs without per-op oracles; after every later op every universe key and two never-written neighbours are read back and compared with a sequential map model. Non-trivial: >= 1 flush/ingest and >= 1 merge or GC compaction happened; distinct by structural hash of the history.",
    )
    .assume("keys inside one write batch are distinct (the API does not define an order inside a batch)")
    .assume("externally ingested ssts carry timestamps higher than everything ingested before")
    .assume("the driver is single-threaded: flush, compaction and verifier run as steps between client operations (step hooks); it never flushes while level 0 is at the stall threshold")
    .assume("known finding R-D: reopen is skipped (and counted) when two live ssts overlap in key range and timestamp range")
    .pbt(StoreProp {
        name: "point-reads",
        probes: Probes { reads: true, ..Default::default() },
        profile: Profile::Shape,
        weights: OpWeights::base(),
        tree_surface_weight: 25,
        quick: (150, 250, 120),
        thorough: (800, 500, 300),
        nontrivial: |s| s.flushes + s.ingests >= 1 && s.merges + s.gcs >= 1,
    })
}

pub fn c03() -> Check {
    let mut w = OpWeights::base();
    w.scan = 25;
    w.del = 16;
    Check::new(
        "C03",
        "exploration",
        "the C01 history generator plus scan probes: a bounds pair from {Unbounded, Included, Excluded}^2 over universe keys and their byte neighbours (empty and inverted ranges occur) and a program of <= 16 cursor calls; after every call the cursor is compared with a reference cursor over the model's live keys in range (key and value); every probe also does a full forward and a full backward walk and cross-checks each returned key with a point read. Non-trivial: >= 1 flush/ingest, >= 1 merge or GC, >= 1 scan probe with a direction reversal; distinct by structural hash.",
    )
    .assume("scan timestamps are not compared (the store assigns them); keys and values are")
    .assume("as C01: distinct keys per batch, ascending ingest timestamps, single-threaded step driving, R-D reopen exclusion")
    .pbt(StoreProp {
        name: "range-scans",
        probes: Probes { scans: true, ..Default::default() },
        profile: Profile::Shape,
        weights: w,
        tree_surface_weight: 25,
        quick: (150, 200, 120),
        thorough: (800, 400, 300),
        nontrivial: |s| s.flushes + s.ingests >= 1 && s.merges + s.gcs >= 1 && s.scan_reversals >= 1,
    })
}
