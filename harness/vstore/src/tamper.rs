//! C04, reject half: a finished store's manifest history with one recorded digest altered (line CRC
//! fixed up, so the damage is not C09's business) must be rejected by the verifiers.

use std::path::{Path, PathBuf};

use proptest::prelude::*;
use serde::{Deserialize, Serialize};

use lsmtk::{LsmVerifier, ManifestVerifier};
use vcore::{Ctx, Outcome, Property, Tier};

use crate::driver::{self, Harness, History, OpWeights, Probes, Profile};

#[derive(Clone, Debug, Serialize, Deserialize)]
pub struct TamperCase {
    pub history: History,
    /// selectors: fragment, transaction (>= 1), line within the transaction, hex digit, replacement
    pub picks: Vec<(u16, u16, u16, u16, u8)>,
}

pub struct TamperDigits;

struct Line {
    start: usize,
    end: usize,
    action: char,
}

/// Transactions of a fragment as byte ranges of their lines (independent of mani's reader).
fn layout(text: &str) -> Vec<Vec<Line>> {
    let mut txns = vec![];
    let mut cur = vec![];
    let mut pos = 0;
    for line in text.split_inclusive('\n') {
        let body = line.trim_end_matches('\n');
        if body == "--------" {
            txns.push(std::mem::take(&mut cur));
        } else if body.len() >= 9 {
            cur.push(Line { start: pos, end: pos + body.len(), action: body[8..].chars().next().unwrap() });
        }
        pos += line.len();
    }
    txns
}

pub fn copy_tree(from: &Path, to: &Path) {
    let _ = std::fs::create_dir_all(to);
    if let Ok(rd) = std::fs::read_dir(from) {
        for e in rd.flatten() {
            let p = e.path();
            if p.is_dir() {
                copy_tree(&p, &to.join(e.file_name()));
            } else if e.file_name() != "LOCKFILE" {
                // hard links keep this cheap; the verifier only unlinks, it never rewrites ssts
                if std::fs::hard_link(&p, to.join(e.file_name())).is_err() {
                    let _ = std::fs::copy(&p, to.join(e.file_name()));
                }
            }
        }
    }
}

/// Ok(true) = the verifier backed off (no verdict), Ok(false) = it accepted, Err = it rejected.
fn verifier_verdict_detailed(cfg: &driver::StoreConfig, root: &Path) -> Result<bool, String> {
    let opts = cfg.options(&root.to_string_lossy());
    let mut v = LsmVerifier::open(opts).map_err(|e| format!("open: {e:?}"))?;
    match v.verify() {
        Ok(()) => Ok(false),
        Err(e) if lsmtk::error_code(&e) == Some(lsmtk::CODE_BACKOFF) => Ok(true),
        Err(e) => Err(vcore::truncate(&format!("{e:?}"), 300)),
    }
}

fn verifier_verdict(cfg: &driver::StoreConfig, root: &Path) -> Result<(), String> {
    let opts = cfg.options(&root.to_string_lossy());
    let mut v = LsmVerifier::open(opts).map_err(|e| format!("open: {e:?}"))?;
    match v.verify() {
        Ok(()) => Ok(()),
        Err(e) if lsmtk::error_code(&e) == Some(lsmtk::CODE_BACKOFF) => Ok(()),
        Err(e) => Err(vcore::truncate(&format!("{e:?}"), 300)),
    }
}

impl Property for TamperDigits {
    type Case = TamperCase;
    fn name(&self) -> String {
        "tamper-one-digest".into()
    }
    fn cases(&self, tier: Tier) -> u64 {
        tier.pick(60, 1500)
    }
    fn max_shrink_iters(&self) -> u32 {
        200
    }
    fn strategy(&self, ctx: &Ctx) -> BoxedStrategy<TamperCase> {
        let mut w = OpWeights::base();
        w.verify = 0;
        w.reopen = 2;
        w.compact = 36;
        w.del = 14;
        w.oversize = 0;
        let ops = ctx.tier.pick(160usize, 300);
        (driver::history_strategy(Profile::Shape, w, 20, 0..1, 20..ops), prop::collection::vec((any::<u16>(), any::<u16>(), any::<u16>(), any::<u16>(), 0u8..15), 8..24))
            .prop_map(|(history, picks)| TamperCase { history, picks })
            .boxed()
    }
    fn run(&self, ctx: &Ctx, c: &TamperCase) -> Outcome {
        let mut o = Outcome::pass();
        // 1. produce a fault-free store directory
        let mut hs = match Harness::new(ctx, &c.history, Probes::default()) {
            Ok(h) => h,
            Err(f) => {
                o.failure = Some(f);
                return o;
            }
        };
        for op in c.history.ops.iter() {
            if let Err(f) = hs.apply(op) {
                o.failure = Some(f);
                hs.destroy();
                return o;
            }
        }
        let stats = hs.stats.clone();
        let root: PathBuf = hs.root.clone();
        hs.close();
        let cfg = c.history.config.clone();
        let res = (|| -> Result<(), (String, String)> {
            if crate::manifest::readded_after_removal(&root).unwrap_or(false) && !ctx.strict {
                o.excluded.push("R-R".into());
                return Ok(());
            }
            let frags = crate::manifest::fragments(&root);
            if frags.len() < 3 {
                o.label("too-few-fragments");
                return Ok(());
            }
            // untampered: every fragment must verify, and the offline verifier must accept
            let mv = ManifestVerifier::open().map_err(|e| ("harness:manifest-verifier".to_string(), format!("{e:?}")))?;
            for f in frags.iter() {
                mv.verify(f).map_err(|e| ("verify:manifest-verifier-rejected-genuine".to_string(), format!("ManifestVerifier rejected the untampered fragment {}: {}", f.display(), vcore::truncate(&format!("{e:?}"), 300))))?;
            }
            let scratch = root.with_extension("copy");
            let _ = std::fs::remove_dir_all(&scratch);
            copy_tree(&root, &scratch);
            let genuine = verifier_verdict(&cfg, &scratch);
            // fragments the offline verifier really processed on the genuine history are the ones
            // it unlinked (it may stop early with a back-off)
            let processed_names: Vec<std::ffi::OsString> = frags.iter().filter(|f| !scratch.join("mani").join(f.file_name().unwrap()).exists()).map(|f| f.file_name().unwrap().to_os_string()).collect();
            let _ = std::fs::remove_dir_all(&scratch);
            genuine.map_err(|e| ("verify:rejected".to_string(), format!("the offline verifier rejected the untampered history: {e}")))?;
            o.nontrivial = stats.merges >= 1 && stats.gcs >= 1;
            // 2. tampers
            for (fsel, tsel, lsel, dsel, repl) in c.picks.iter() {
                let fi = vcore::gens::sel(*fsel, frags.len());
                let frag = &frags[fi];
                let is_processed = processed_names.iter().any(|n| n == frag.file_name().unwrap());
                let text = std::fs::read_to_string(frag).map_err(|e| ("harness:io".to_string(), e.to_string()))?;
                let txns = layout(&text);
                // One pick in five aims at the output digest of the roll-up that heads the fragment:
                // the one digest of a roll-up that is "recorded output" (its I and D are carried over
                // from the previous fragment's last transaction and are documented not to balance).
                // Only the offline verifier can tell when no transaction follows the roll-up.
                let rollup = *tsel % 5 == 0 && !txns.is_empty();
                if rollup && txns.len() < 2 && !is_processed {
                    o.label("rollup-only-fragment-not-processed:skipped");
                    continue;
                }
                if !rollup && txns.len() < 2 {
                    continue;
                }
                let ti = if rollup { 0 } else { 1 + vcore::gens::sel(*tsel, txns.len() - 1) };
                let lines: Vec<&Line> = txns[ti].iter().filter(|l| if rollup { l.action == 'O' } else { matches!(l.action, '+' | '-' | 'I' | 'O' | 'D') }).collect();
                if lines.is_empty() {
                    continue;
                }
                let line = lines[vcore::gens::sel(*lsel, lines.len())];
                let payload_start = line.start + 9;
                if line.end - payload_start != 64 {
                    continue;
                }
                let di = payload_start + vcore::gens::sel(*dsel, 64);
                let old = text.as_bytes()[di];
                let hexd = b"0123456789abcdef";
                let oldv = hexd.iter().position(|h| *h == old).unwrap_or(0);
                let newv = (oldv + 1 + *repl as usize) % 16;
                if newv == oldv {
                    continue;
                }
                let mut bytes = text.clone().into_bytes();
                bytes[di] = hexd[newv];
                let crc = crc32c::crc32c(&bytes[line.start + 8..line.end]);
                bytes[line.start..line.start + 8].copy_from_slice(format!("{crc:08x}").as_bytes());
                let what = format!("digit {} of the '{}' line of transaction {ti} in {} ({} -> {})", di - payload_start, line.action, frag.file_name().unwrap().to_string_lossy(), old as char, hexd[newv] as char);
                // a tampered copy of the whole directory
                let _ = std::fs::remove_dir_all(&scratch);
                copy_tree(&root, &scratch);
                let tampered = scratch.join("mani").join(frag.file_name().unwrap());
                let _ = std::fs::remove_file(&tampered);
                std::fs::write(&tampered, &bytes).map_err(|e| ("harness:io".to_string(), e.to_string()))?;
                let by_manifest_verifier = mv.verify(&tampered).is_err();
                let by_offline = if is_processed { verifier_verdict(&cfg, &scratch).is_err() } else { false };
                let _ = std::fs::remove_dir_all(&scratch);
                o.label(if rollup { "tampered:roll-up-O".to_string() } else { format!("tampered:{}", line.action) });
                if by_manifest_verifier {
                    o.label("rejected-by:ManifestVerifier");
                }
                if by_offline {
                    o.label("rejected-by:LsmVerifier");
                }
                if !by_manifest_verifier && !by_offline {
                    return Err((format!("tamper:accepted:{}", if rollup { "roll-up-O".to_string() } else { line.action.to_string() }), format!("no verifier rejected a history in which {what} was altered (fragment is {}processed by the offline verifier)", if is_processed { "" } else { "not " })));
                }
                if is_processed {
                    o.label("tampered-fragment-is-processed-by-offline-verifier");
                }
                if is_processed && !by_offline {
                    // the offline verifier processes this fragment: it alone must reject it
                    return Err((format!("tamper:offline-verifier-accepted:{}", if rollup { "roll-up-O".to_string() } else { line.action.to_string() }), format!("the offline verifier accepted a fragment in which {what} was altered")));
                }
            }
            Ok(())
        })();
        let _ = std::fs::remove_dir_all(&root);
        let _ = std::fs::remove_dir_all(root.with_extension("copy"));
        if let Err((s, m)) = res {
            o.fail(s, m);
        }
        o
    }
}

///////////////////////////////////////// content tamper ///////////////////////////////////////////

/// C04 reject half, content level: the output of a hypothetical buggy garbage collection.  One
/// entry that the configured policy requires to be retained is removed from one output sst of one
/// GC transaction; the file is rebuilt under its new setsum, and the manifest history is patched so
/// that it stays *self-consistent*: the `+` line names the new file, the transaction's discard grows
/// and its output shrinks by the entry's setsum, every later input / output / roll-up is shifted
/// accordingly, and every later mention of the old digest is renamed.  Every balance equation still
/// holds, so only the verifier's replay of the garbage collection can notice the loss.
pub struct TamperGcOutput;

struct ParsedLine {
    action: char,
    payload: String,
}

fn parse_lines(text: &str) -> Vec<Option<ParsedLine>> {
    // None = transaction separator
    let mut out = vec![];
    for line in text.split('\n') {
        if line.is_empty() {
            continue;
        }
        if line == "--------" {
            out.push(None);
        } else if line.len() >= 9 {
            let mut ch = line[8..].chars();
            let action = ch.next().unwrap();
            out.push(Some(ParsedLine { action, payload: ch.as_str().to_string() }));
        }
    }
    out
}

fn render(lines: &[Option<ParsedLine>]) -> String {
    let mut s = String::new();
    for l in lines {
        match l {
            None => s.push_str("--------\n"),
            Some(p) => {
                let body = format!("{}{}", p.action, p.payload);
                s.push_str(&format!("{:08x}{}\n", crc32c::crc32c(body.as_bytes()), body));
            }
        }
    }
    s
}

fn setsum_of(e: &vcore::refcursor::Entry) -> setsum::Setsum {
    let mut s = sst::Setsum::default();
    match &e.2 {
        Some(v) => s.put(&e.0, e.1, v),
        None => s.del(&e.0, e.1),
    }
    s.into_inner()
}

impl Property for TamperGcOutput {
    type Case = TamperCase;
    fn name(&self) -> String {
        "tamper-gc-output".into()
    }
    fn cases(&self, tier: Tier) -> u64 {
        tier.pick(60, 1500)
    }
    fn max_shrink_iters(&self) -> u32 {
        100
    }
    fn strategy(&self, ctx: &Ctx) -> BoxedStrategy<TamperCase> {
        let mut w = OpWeights::base();
        w.verify = 0;
        w.reopen = 1;
        w.compact = 40;
        w.del = 16;
        w.oversize = 0;
        let ops = ctx.tier.pick(200usize, 350);
        // versions = N policies make "required to retain" non-empty and GC drop something; half of
        // the other generated policies (ttl leaves, any / all) are kept: the store evaluates them at
        // time 0, where an expiry leaf retains everything ("only versions=X will collect at the
        // moment", the option's help text), so a dropped value is an alteration there too
        let hist = driver::history_strategy(Profile::Shape, w, 0, 0..1, 40..ops).prop_map(|mut h| {
            if !h.config.gc_policy.starts_with("versions") && vcore::hash_str(&format!("{}:{}", h.config.gc_policy, h.ops.len())) % 2 == 0 {
                h.config.gc_policy = "versions = 1".into();
            }
            h.config.mani_rollover_ratio = 2;
            h
        });
        (hist, prop::collection::vec((any::<u16>(), any::<u16>(), any::<u16>(), any::<u16>(), 0u8..15), 1..2)).prop_map(|(history, picks)| TamperCase { history, picks }).boxed()
    }
    fn run(&self, ctx: &Ctx, c: &TamperCase) -> Outcome {
        let mut o = Outcome::pass();
        let mut hs = match Harness::new(ctx, &c.history, Probes::default()) {
            Ok(h) => h,
            Err(f) => {
                o.failure = Some(f);
                return o;
            }
        };
        for op in c.history.ops.iter() {
            if let Err(f) = hs.apply(op) {
                o.failure = Some(f);
                hs.destroy();
                return o;
            }
        }
        let root: PathBuf = hs.root.clone();
        hs.close();
        let cfg = c.history.config.clone();
        let scratch = root.with_extension("gc");
        let res = (|| -> Result<(), (String, String)> {
            if crate::manifest::readded_after_removal(&root).unwrap_or(false) && !ctx.strict {
                o.excluded.push("R-R".into());
                return Ok(());
            }
            let frags = crate::manifest::fragments(&root);
            if frags.len() < 3 {
                return Ok(());
            }
            // which fragments does the offline verifier process on the genuine history?
            let _ = std::fs::remove_dir_all(&scratch);
            copy_tree(&root, &scratch);
            let genuine = verifier_verdict(&cfg, &scratch);
            let processed: Vec<PathBuf> = frags.iter().filter(|f| !scratch.join("mani").join(f.file_name().unwrap()).exists()).cloned().collect();
            let _ = std::fs::remove_dir_all(&scratch);
            genuine.map_err(|e| ("verify:rejected".to_string(), format!("the offline verifier rejected the untampered history: {e}")))?;
            // GC transactions (discard != 0 and something removed) in processed fragments
            let policy = crate::gcmodel::parse(&cfg.gc_policy).map_err(|e| ("harness:gc-policy-parse".to_string(), e))?;
            let zero = setsum::Setsum::default().hexdigest();
            let mut candidates: Vec<(usize, usize, bool)> = vec![]; // (fragment index in frags, txn index, has a discard)
            for (fi, f) in frags.iter().enumerate() {
                if !processed.contains(f) {
                    continue;
                }
                let txns = crate::manifest::parse_fragment(f).map_err(|e| ("harness:manifest-parse".to_string(), e))?;
                for (ti, t) in txns.iter().enumerate().skip(1) {
                    if !t.removed.is_empty() && !t.added.is_empty() {
                        let is_gc = t.info.get(&'D').map(|d| *d != zero).unwrap_or(false);
                        candidates.push((fi, ti, is_gc));
                    }
                }
            }
            if candidates.is_empty() {
                o.label("no-gc-transaction-in-a-processed-fragment");
                return Ok(());
            }
            let (fsel, tsel, lsel, _, ksel) = c.picks[0];
            // kind of tamper: drop a policy-required entry, modify the value of an entry, or add a
            // duplicate of an entry (in an extra output file)
            let kind = match ksel { 0..=7 => "drop", 8..=11 => "modify", _ => "duplicate" };
            // dropping is aimed at garbage collections two times out of three (their replay is the
            // subtle part); modify / duplicate take any compaction
            let gcs: Vec<(usize, usize, bool)> = candidates.iter().filter(|c| c.2).cloned().collect();
            let pool_t = if kind == "drop" && !gcs.is_empty() && vcore::gens::sel(lsel, 3) != 0 { gcs } else { candidates };
            let (fi, ti, is_gc) = pool_t[vcore::gens::sel(fsel, pool_t.len())];
            o.label(format!("tamper-kind:{kind}:{}", if is_gc { "transaction-with-discard" } else { "transaction-without-discard" }));
            let txns = crate::manifest::parse_fragment(&frags[fi]).unwrap();
            let t = &txns[ti];
            // inputs and outputs of the chosen GC
            let find = |d: &str| -> Option<PathBuf> {
                let a = root.join("trash").join(format!("{d}.sst"));
                let b = root.join("sst").join(format!("{d}.sst"));
                if a.is_file() { Some(a) } else if b.is_file() { Some(b) } else { None }
            };
            let mut inputs: Vec<vcore::refcursor::Entry> = vec![];
            for r in t.removed.iter() {
                let p = find(r).ok_or_else(|| ("harness:gc-input-missing".to_string(), r.clone()))?;
                inputs.extend(driver::dump_sst(&p).map_err(|e| ("harness:dump".to_string(), e))?);
            }
            vcore::refcursor::sort_entries(&mut inputs);
            let must = crate::gcmodel::must_retain(&policy, &inputs, 0);
            // candidate (output file, entry) pairs: entries the policy requires
            let mut victims: Vec<(String, vcore::refcursor::Entry, Vec<vcore::refcursor::Entry>)> = vec![];
            for a in t.added.iter() {
                if t.removed.contains(a) {
                    continue;
                }
                let Some(p) = find(a) else { continue };
                let ents = driver::dump_sst(&p).map_err(|e| ("harness:dump".to_string(), e))?;
                for e in ents.iter() {
                    let ok = match kind {
                        "drop" => must.contains(&(e.0.clone(), e.1)),
                        "modify" => e.2.is_some(),
                        _ => true,
                    };
                    if ok {
                        victims.push((a.clone(), e.clone(), ents.clone()));
                    }
                }
            }
            if victims.is_empty() {
                o.label("gc-has-no-removable-required-entry");
                return Ok(());
            }
            // a third of the cases aim at outputs with a single entry (the whole output is lost)
            let singles: Vec<_> = victims.iter().filter(|v| v.2.len() == 1).cloned().collect();
            let pool = if !singles.is_empty() && vcore::gens::sel(lsel, 3) == 2 { singles } else { victims };
            let (old_digest, victim, ents) = pool[vcore::gens::sel(tsel, pool.len())].clone();
            o.nontrivial = true;
            o.label("tampered-gc-output");
            o.label(if c.history.config.gc_policy.contains("ttl") { "policy:with-expiry-leaf" } else { "policy:versions-only" });
            // rebuild the output without the victim
            let _ = std::fs::remove_dir_all(&scratch);
            copy_tree(&root, &scratch);
            // the entry as it reads after the tamper (modify: one more byte of value, or the last byte changed when the value is at its maximum length)
            let modified: vcore::refcursor::Entry = {
                let mut v = victim.2.clone().unwrap_or_default();
                if v.len() >= sst::MAX_VALUE_LEN {
                    // no room for one more byte: change the last one
                    let l = v.len() - 1;
                    v[l] ^= 0x5a;
                } else {
                    v.push(0x5a);
                }
                (victim.0.clone(), victim.1, Some(v))
            };
            let kept: Vec<vcore::refcursor::Entry> = match kind {
                "drop" => ents.iter().filter(|e| **e != victim).cloned().collect(),
                "modify" => ents.iter().map(|e| if *e == victim { modified.clone() } else { e.clone() }).collect(),
                _ => ents.clone(),
            };
            // When the victim was the only entry the output vanishes altogether: the store never
            // writes an empty sst, so the tampered history simply does not mention the file.
            let vanish = kept.is_empty();
            if kind == "drop" {
                o.label(if vanish { "tamper:whole-output-lost" } else { "tamper:one-entry-of-several-lost" });
            }
            // duplicate: the genuine output stays; an extra output file holds a second copy
            let mut extra_digest: Option<String> = None;
            if kind == "duplicate" {
                let tmp = scratch.join("tmp").join("tampered-extra.sst");
                let opts = vsst::tables::BuildOpts { bytes_ri: cfg.bytes_ri, pairs_ri: cfg.pairs_ri, block_size: cfg.target_block_size };
                let table = vsst::tables::build_sst(&tmp, std::slice::from_ref(&victim), &opts).map_err(|e| ("harness:rebuild".to_string(), format!("{e:?}")))?;
                let d = table.fast_setsum().hexdigest();
                drop(table);
                if find(&d).is_some() {
                    // a genuine file with exactly this content exists: the copy would not be a new file
                    o.label("duplicate-collides-with-a-genuine-file");
                    o.nontrivial = false;
                    return Ok(());
                }
                for dir in ["sst", "trash"] {
                    let _ = std::fs::copy(&tmp, scratch.join(dir).join(format!("{d}.sst")));
                }
                let _ = std::fs::remove_file(&tmp);
                extra_digest = Some(d);
            }
            let old_digest = if kind == "duplicate" { String::from("<none>") } else { old_digest };
            let new_digest = if kind == "duplicate" {
                String::new()
            } else if vanish {
                String::new()
            } else {
                let tmp = scratch.join("tmp").join("tampered.sst");
                let opts = vsst::tables::BuildOpts { bytes_ri: cfg.bytes_ri, pairs_ri: cfg.pairs_ri, block_size: cfg.target_block_size };
                let table = vsst::tables::build_sst(&tmp, &kept, &opts).map_err(|e| ("harness:rebuild".to_string(), format!("{e:?}")))?;
                let d = table.fast_setsum().hexdigest();
                drop(table);
                for dir in ["sst", "trash"] {
                    let _ = std::fs::copy(&tmp, scratch.join(dir).join(format!("{d}.sst")));
                }
                let _ = std::fs::remove_file(&tmp);
                d
            };
            // S(new contents) - S(old contents) of the tampered transaction's output
            let zero_s = setsum::Setsum::default();
            let delta = match kind {
                "drop" => zero_s - setsum_of(&victim),
                "modify" => setsum_of(&modified) - setsum_of(&victim),
                _ => setsum_of(&victim),
            };
            // patch the history: rename the digest everywhere from the tampered transaction on, grow
            // its discard, shrink its output, and shift everything later
            let mut after = false; // past the tampered transaction
            let mut shift_active = true; // until a later transaction removes the tampered file again
            let mut this_txn_removes_it = false;
            for (i, f) in frags.iter().enumerate() {
                if i < fi {
                    continue;
                }
                let path = scratch.join("mani").join(f.file_name().unwrap());
                let text = std::fs::read_to_string(&path).map_err(|e| ("harness:io".to_string(), e.to_string()))?;
                let mut lines = parse_lines(&text);
                let mut txn = 0usize;
                let mut last_is_tampered = false; // the last applied transaction is the tampered one
                for l in lines.iter_mut() {
                    let Some(p) = l else {
                        if i == fi && txn == ti {
                            after = true;
                            last_is_tampered = true;
                        } else if after && !(i > fi && txn == 0) {
                            last_is_tampered = false;
                        }
                        if this_txn_removes_it {
                            // the file is gone again: outputs are back to their genuine values
                            shift_active = false;
                            this_txn_removes_it = false;
                        }
                        txn += 1;
                        continue;
                    };
                    let in_tampered = i == fi && txn == ti;
                    let is_rollup = txn == 0;
                    if in_tampered || after {
                        if (p.action == '+' || p.action == '-') && p.payload == old_digest {
                            if p.action == '-' && after && !is_rollup && shift_active {
                                this_txn_removes_it = true;
                            }
                            p.payload = new_digest.clone();
                            if vanish {
                                p.action = '\0'; // dropped when the fragment is rendered
                            }
                        }
                    }
                    let shift = |p: &mut ParsedLine, by: setsum::Setsum, plus: bool| {
                        if let Some(s) = setsum::Setsum::from_hexdigest(&p.payload) {
                            p.payload = if plus { (s + by).hexdigest() } else { (s - by).hexdigest() };
                        }
                    };
                    if in_tampered {
                        match p.action {
                            'O' => shift(p, delta, true),
                            'D' => shift(p, delta, false),
                            _ => {}
                        }
                    } else if after {
                        if is_rollup && last_is_tampered {
                            // the roll-up copies I, O, D of the tampered transaction itself
                            match p.action {
                                'O' => shift(p, delta, true),
                                'D' => shift(p, delta, false),
                                _ => {}
                            }
                        } else if !shift_active {
                            // nothing to adjust any more
                        } else if this_txn_removes_it {
                            // this transaction removes the tampered file: its input is still shifted,
                            // its discard absorbs the difference, its output is genuine
                            match p.action {
                                'I' => shift(p, delta, true),
                                'D' => shift(p, delta, true),
                                _ => {}
                            }
                        } else if p.action == 'I' || p.action == 'O' {
                            shift(p, delta, true);
                        }
                    }
                }
                lines.retain(|l| l.as_ref().map(|p| p.action != '\0').unwrap_or(true));
                if let Some(dx) = &extra_digest {
                    // the extra file is added by the tampered transaction and listed by every later
                    // roll-up (nothing ever removes it)
                    let mut out: Vec<Option<ParsedLine>> = vec![];
                    let mut txn = 0usize;
                    let mut placed = false;
                    for l in lines.into_iter() {
                        match l {
                            None => {
                                txn += 1;
                                placed = false;
                                out.push(None);
                            }
                            Some(p) => {
                                let wanted = (i == fi && txn == ti) || (i > fi && txn == 0);
                                // after the last '+' / '-' line, i.e. before the first info line
                                if wanted && !placed && p.action != '+' && p.action != '-' {
                                    out.push(Some(ParsedLine { action: '+', payload: dx.clone() }));
                                    placed = true;
                                }
                                out.push(Some(p));
                            }
                        }
                    }
                    lines = out;
                }
                let _ = std::fs::remove_file(&path);
                std::fs::write(&path, render(&lines)).map_err(|e| ("harness:io".to_string(), e.to_string()))?;
            }
            // self-consistency of the tampered history, by the independent balance checker's rules
            // restricted to the manifest (file contents aside): every fragment must still verify
            let mv = ManifestVerifier::open().map_err(|e| ("harness:manifest-verifier".to_string(), format!("{e:?}")))?;
            for f in frags.iter() {
                let p = scratch.join("mani").join(f.file_name().unwrap());
                if let Err(e) = mv.verify(&p) {
                    // my patching is not self-consistent for this history shape: not a verdict
                    o.label("tamper-not-self-consistent");
                    o.nontrivial = false;
                    let _ = e;
                    return Ok(());
                }
            }
            let trace = std::env::var("VERIF_TRACE").is_ok();
            if trace {
                let keep = PathBuf::from(format!("/tmp/verif-keep-tamper-{}", std::process::id()));
                copy_tree(&scratch, &keep);
                eprintln!("tampered copy kept at {} (old {old_digest} new {new_digest}, fragment {} txn {ti})", keep.display(), frags[fi].display());
            }
            let verdict = verifier_verdict_detailed(&cfg, &scratch);
            if trace {
                eprintln!("verifier verdict on the tampered copy: {verdict:?}");
            }
            match verdict.and_then(|backed_off| if backed_off { Err("backoff".to_string()) } else { Ok(()) }) {
                Err(e) if e == "backoff" => {
                    // the verifier stopped before it could judge: no verdict
                    o.label("verifier-backed-off-on-tampered-copy");
                    o.nontrivial = false;
                    Ok(())
                }
                Err(_) => {
                    o.label("rejected-by:LsmVerifier");
                    Ok(())
                }
                Ok(()) => Err((
                    format!("tamper:{}-accepted", if kind == "drop" { "gc-output" } else { kind }),
                    format!(
                        "the offline verifier accepted a self-consistent history in which the compaction of transaction {ti} in {} had one entry of its output {old_digest} altered ({kind}: {}; policy `{}`)",
                        frags[fi].file_name().unwrap().to_string_lossy(),
                        vsst::tables::show_entry(Some(&victim)),
                        cfg.gc_policy
                    ),
                )),
            }
        })();
        let _ = std::fs::remove_dir_all(&root);
        let _ = std::fs::remove_dir_all(&scratch);
        if let Err((s, m)) = res {
            o.fail(s, m);
        }
        o
    }
}
