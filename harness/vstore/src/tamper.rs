//! C04, reject half: a finished store's manifest history with one recorded digest altered (line CRC
//! fixed up, so the damage is not C09's business) must be rejected by the verifiers.

use std::path::{Path, PathBuf};

use proptest::prelude::*;
use serde::{Deserialize, Serialize};

use lsmtk::{LsmVerifier, ManifestVerifier};
use vcore::{Ctx, Outcome, Property, Tier};

use crate::driver::{self, Harness, History, OpWeights, Probes, Profile};

#[derive(Clone, Debug, Serialize, Deserialize)]
pub struct TamperCase {
    pub history: History,
    /// selectors: fragment, transaction (>= 1), line within the transaction, hex digit, replacement
    pub picks: Vec<(u16, u16, u16, u16, u8)>,
}

pub struct TamperDigits;

struct Line {
    start: usize,
    end: usize,
    action: char,
}

/// Transactions of a fragment as byte ranges of their lines (independent of mani's reader).
fn layout(text: &str) -> Vec<Vec<Line>> {
    let mut txns = vec![];
    let mut cur = vec![];
    let mut pos = 0;
    for line in text.split_inclusive('\n') {
        let body = line.trim_end_matches('\n');
        if body == "--------" {
            txns.push(std::mem::take(&mut cur));
        } else if body.len() >= 9 {
            cur.push(Line { start: pos, end: pos + body.len(), action: body[8..].chars().next().unwrap() });
        }
        pos += line.len();
    }
    txns
}

fn copy_tree(from: &Path, to: &Path) {
    let _ = std::fs::create_dir_all(to);
    if let Ok(rd) = std::fs::read_dir(from) {
        for e in rd.flatten() {
            let p = e.path();
            if p.is_dir() {
                copy_tree(&p, &to.join(e.file_name()));
            } else if e.file_name() != "LOCKFILE" {
                // hard links keep this cheap; the verifier only unlinks, it never rewrites ssts
                if std::fs::hard_link(&p, to.join(e.file_name())).is_err() {
                    let _ = std::fs::copy(&p, to.join(e.file_name()));
                }
            }
        }
    }
}

fn verifier_verdict(cfg: &driver::StoreConfig, root: &Path) -> Result<(), String> {
    let opts = cfg.options(&root.to_string_lossy());
    let mut v = LsmVerifier::open(opts).map_err(|e| format!("open: {e:?}"))?;
    match v.verify() {
        Ok(()) => Ok(()),
        Err(e) if lsmtk::error_code(&e) == Some(lsmtk::CODE_BACKOFF) => Ok(()),
        Err(e) => Err(vcore::truncate(&format!("{e:?}"), 300)),
    }
}

impl Property for TamperDigits {
    type Case = TamperCase;
    fn name(&self) -> String {
        "tamper-one-digest".into()
    }
    fn cases(&self, tier: Tier) -> u64 {
        tier.pick(60, 1500)
    }
    fn max_shrink_iters(&self) -> u32 {
        200
    }
    fn strategy(&self, ctx: &Ctx) -> BoxedStrategy<TamperCase> {
        let mut w = OpWeights::base();
        w.verify = 0;
        w.reopen = 2;
        w.compact = 36;
        w.del = 14;
        w.oversize = 0;
        let ops = ctx.tier.pick(160usize, 300);
        (driver::history_strategy(Profile::Shape, w, 20, 0..1, 20..ops), prop::collection::vec((any::<u16>(), any::<u16>(), any::<u16>(), any::<u16>(), 0u8..15), 8..24))
            .prop_map(|(history, picks)| TamperCase { history, picks })
            .boxed()
    }
    fn run(&self, ctx: &Ctx, c: &TamperCase) -> Outcome {
        let mut o = Outcome::pass();
        // 1. produce a fault-free store directory
        let mut hs = match Harness::new(ctx, &c.history, Probes::default()) {
            Ok(h) => h,
            Err(f) => {
                o.failure = Some(f);
                return o;
            }
        };
        for op in c.history.ops.iter() {
            if let Err(f) = hs.apply(op) {
                o.failure = Some(f);
                hs.destroy();
                return o;
            }
        }
        let stats = hs.stats.clone();
        let root: PathBuf = hs.root.clone();
        hs.close();
        let cfg = c.history.config.clone();
        let res = (|| -> Result<(), (String, String)> {
            if crate::manifest::readded_after_removal(&root).unwrap_or(false) && !ctx.strict {
                o.excluded.push("R-R".into());
                return Ok(());
            }
            let frags = crate::manifest::fragments(&root);
            if frags.len() < 3 {
                o.label("too-few-fragments");
                return Ok(());
            }
            // untampered: every fragment must verify, and the offline verifier must accept
            let mv = ManifestVerifier::open().map_err(|e| ("harness:manifest-verifier".to_string(), format!("{e:?}")))?;
            for f in frags.iter() {
                mv.verify(f).map_err(|e| ("verify:manifest-verifier-rejected-genuine".to_string(), format!("ManifestVerifier rejected the untampered fragment {}: {}", f.display(), vcore::truncate(&format!("{e:?}"), 300))))?;
            }
            let scratch = root.with_extension("copy");
            let _ = std::fs::remove_dir_all(&scratch);
            copy_tree(&root, &scratch);
            let genuine = verifier_verdict(&cfg, &scratch);
            // fragments the offline verifier really processed on the genuine history are the ones
            // it unlinked (it may stop early with a back-off)
            let processed_names: Vec<std::ffi::OsString> = frags.iter().filter(|f| !scratch.join("mani").join(f.file_name().unwrap()).exists()).map(|f| f.file_name().unwrap().to_os_string()).collect();
            let _ = std::fs::remove_dir_all(&scratch);
            genuine.map_err(|e| ("verify:rejected".to_string(), format!("the offline verifier rejected the untampered history: {e}")))?;
            o.nontrivial = stats.merges >= 1 && stats.gcs >= 1;
            // 2. tampers
            for (fsel, tsel, lsel, dsel, repl) in c.picks.iter() {
                let fi = vcore::gens::sel(*fsel, frags.len());
                let frag = &frags[fi];
                let is_processed = processed_names.iter().any(|n| n == frag.file_name().unwrap());
                let text = std::fs::read_to_string(frag).map_err(|e| ("harness:io".to_string(), e.to_string()))?;
                let txns = layout(&text);
                if txns.len() < 2 {
                    continue;
                }
                let ti = 1 + vcore::gens::sel(*tsel, txns.len() - 1);
                let lines: Vec<&Line> = txns[ti].iter().filter(|l| matches!(l.action, '+' | '-' | 'I' | 'O' | 'D')).collect();
                if lines.is_empty() {
                    continue;
                }
                let line = lines[vcore::gens::sel(*lsel, lines.len())];
                let payload_start = line.start + 9;
                if line.end - payload_start != 64 {
                    continue;
                }
                let di = payload_start + vcore::gens::sel(*dsel, 64);
                let old = text.as_bytes()[di];
                let hexd = b"0123456789abcdef";
                let oldv = hexd.iter().position(|h| *h == old).unwrap_or(0);
                let newv = (oldv + 1 + *repl as usize) % 16;
                if newv == oldv {
                    continue;
                }
                let mut bytes = text.clone().into_bytes();
                bytes[di] = hexd[newv];
                let crc = crc32c::crc32c(&bytes[line.start + 8..line.end]);
                bytes[line.start..line.start + 8].copy_from_slice(format!("{crc:08x}").as_bytes());
                let what = format!("digit {} of the '{}' line of transaction {ti} in {} ({} -> {})", di - payload_start, line.action, frag.file_name().unwrap().to_string_lossy(), old as char, hexd[newv] as char);
                // a tampered copy of the whole directory
                let _ = std::fs::remove_dir_all(&scratch);
                copy_tree(&root, &scratch);
                let tampered = scratch.join("mani").join(frag.file_name().unwrap());
                let _ = std::fs::remove_file(&tampered);
                std::fs::write(&tampered, &bytes).map_err(|e| ("harness:io".to_string(), e.to_string()))?;
                let by_manifest_verifier = mv.verify(&tampered).is_err();
                let by_offline = if is_processed { verifier_verdict(&cfg, &scratch).is_err() } else { false };
                let _ = std::fs::remove_dir_all(&scratch);
                o.label(format!("tampered:{}", line.action));
                if by_manifest_verifier {
                    o.label("rejected-by:ManifestVerifier");
                }
                if by_offline {
                    o.label("rejected-by:LsmVerifier");
                }
                if !by_manifest_verifier && !by_offline {
                    return Err((format!("tamper:accepted:{}", line.action), format!("no verifier rejected a history in which {what} was altered (fragment is {}processed by the offline verifier)", if is_processed { "" } else { "not " })));
                }
                if is_processed {
                    o.label("tampered-fragment-is-processed-by-offline-verifier");
                }
                if is_processed && !by_offline {
                    // the offline verifier processes this fragment: it alone must reject it
                    return Err((format!("tamper:offline-verifier-accepted:{}", line.action), format!("the offline verifier accepted a fragment in which {what} was altered")));
                }
            }
            Ok(())
        })();
        let _ = std::fs::remove_dir_all(&root);
        let _ = std::fs::remove_dir_all(root.with_extension("copy"));
        if let Err((s, m)) = res {
            o.fail(s, m);
        }
        o
    }
}
