//! C02 (and the crash half of C08): fault enumeration over generated histories.
//!
//! For every generated history the enumerator
//!   1. runs it once in a child process with the shim counting (N mutating calls, with a trace),
//!   2. re-runs it in a fresh child that `_exit`s *before* mutating call k, for every k (or a
//!      class-stratified sample), under persistence model (a) "every completed call persists",
//!      (b/lose-all) "file bytes after the file's last successful sync are lost" and (b/torn) "an
//!      arbitrary prefix of the unsynced bytes survives"; and with call k failing with EIO/ENOSPC,
//!   3. reopens the directory image in a third, fresh process, dumps every key by point read and by
//!      a full scan, runs a verifier pass, reopens again and dumps again,
//!   4. accepts iff the recovered state is the model after the acknowledged ops, or that plus the
//!      single in-flight op applied completely.

use std::collections::BTreeMap;
use std::io::Write;
use std::path::{Path, PathBuf};
use std::process::Command;

use proptest::strategy::{Strategy, ValueTree};
use proptest::test_runner::{Config, RngSeed, TestRunner};
use serde::{Deserialize, Serialize};
use serde_json::{json, Value};

use vcore::gens;
use vcore::{Ctx, Outcome, Part, Tier, ViolationRec, WorkerReport};

use crate::driver::{self, Harness, History, Op, OpWeights, Probes, Profile};
use crate::shim;

#[derive(Clone, Copy, Debug, PartialEq, Eq, Serialize, Deserialize)]
pub enum Mode {
    /// process crash: every completed call persists
    A,
    /// additionally, bytes after each file's last successful sync are lost
    LoseAll,
    /// additionally, an arbitrary prefix of each file's unsynced bytes survives
    Torn,
    /// call k fails with EIO; the history runs on to the first error, then crashes (lose-all)
    Eio,
    /// call k fails with ENOSPC; as Eio
    Enospc,
    /// call k fails with EIO; the error is reported to the caller and the history GOES ON (later
    /// operations may fail too or be acknowledged); the process dies, losing unsynced bytes, at the
    /// end of the history.  What was acknowledged - before or after the error - must survive.
    EioGo,
    /// as EioGo with ENOSPC
    EnospcGo,
    /// as EnospcGo, but call k (a write) first stores a prefix of its buffer (chosen by `cut`) and
    /// returns the short count; the next mutating call - the rest of the same write_all - gets ENOSPC
    ShortGo,
    /// call k (a write) returns a short count and nothing fails: no operation may report an error,
    /// the history runs to its end, the process dies there (losing unsynced bytes) and everything
    /// must be recovered
    ShortOk,
    /// process crash before call k, then a SECOND process crash in the middle of the recovery (before
    /// one of the mutating calls the reopen issues, chosen by `cut`), then a recovery that completes
    A2,
    /// as A2 with the lose-all persistence model at both crashes
    Lose2,
}

impl Mode {
    fn name(self) -> &'static str {
        match self {
            Mode::A => "a",
            Mode::LoseAll => "lose",
            Mode::Torn => "torn",
            Mode::Eio => "eio",
            Mode::Enospc => "enospc",
            Mode::EioGo => "eio-go",
            Mode::EnospcGo => "enospc-go",
            Mode::ShortGo => "short-go",
            Mode::ShortOk => "short-ok",
            Mode::A2 => "a2",
            Mode::Lose2 => "lose2",
        }
    }
    fn parse(s: &str) -> Mode {
        match s {
            "lose" => Mode::LoseAll,
            "torn" => Mode::Torn,
            "eio" => Mode::Eio,
            "enospc" => Mode::Enospc,
            "eio-go" => Mode::EioGo,
            "enospc-go" => Mode::EnospcGo,
            "short-go" => Mode::ShortGo,
            "short-ok" => Mode::ShortOk,
            "a2" => Mode::A2,
            "lose2" => Mode::Lose2,
            _ => Mode::A,
        }
    }
}

#[derive(Clone, Debug, Serialize, Deserialize)]
pub struct CrashCase {
    pub history: History,
    pub k: u64,
    pub mode: Mode,
    pub cut: u64,
}

////////////////////////////////////////////// children /////////////////////////////////////////////

fn dummy_ctx(scratch: &Path, strict: bool) -> Ctx {
    Ctx { prop: "C02".into(), tier: Tier::Quick, seed: 0, worker: 0, nworkers: 1, scratch: scratch.to_path_buf(), strict, replay: false }
}

/// `child-run <case.json> <root> <mode|count> <k> <cut> <strict>`: execute the history with the shim
/// armed.  Progress markers go to `<root>.acks` (outside the root): `B i` before client op i,
/// `A i` after it returned Ok, `E i` when it returned Err.
pub fn child_run(args: &[String]) -> i32 {
    let case: History = serde_json::from_slice(&std::fs::read(&args[0]).expect("case")).expect("parse case");
    let root = PathBuf::from(&args[1]);
    let mode = args[2].as_str();
    let k: u64 = args[3].parse().unwrap();
    let cut: u64 = args[4].parse().unwrap();
    let strict = args.get(5).map(|s| s == "1").unwrap_or(false);
    let acks_path = format!("{}.acks", root.display());
    let mut acks = std::fs::OpenOptions::new().create(true).append(true).open(&acks_path).expect("acks");
    let _ = std::fs::create_dir_all(&root);
    shim::CRASH_AT.store(u64::MAX, std::sync::atomic::Ordering::SeqCst);
    shim::FAIL_AT.store(u64::MAX, std::sync::atomic::Ordering::SeqCst);
    let fault = matches!(mode, "eio" | "enospc" | "eio-go" | "enospc-go" | "short-go" | "short-ok");
    let go = matches!(mode, "eio-go" | "enospc-go" | "short-go" | "short-ok");
    let mut surfaced = false;
    match mode {
        "count" => {}
        "a" => shim::CRASH_AT.store(k, std::sync::atomic::Ordering::SeqCst),
        "lose" => {
            shim::CRASH_AT.store(k, std::sync::atomic::Ordering::SeqCst);
            shim::MODE_B.store(1, std::sync::atomic::Ordering::SeqCst);
        }
        "torn" => {
            shim::CRASH_AT.store(k, std::sync::atomic::Ordering::SeqCst);
            shim::MODE_B.store(2, std::sync::atomic::Ordering::SeqCst);
            shim::CUT_SEL.store(cut, std::sync::atomic::Ordering::SeqCst);
        }
        "eio" | "enospc" | "eio-go" | "enospc-go" | "short-go" | "short-ok" => {
            shim::FAIL_SHORT.store(mode == "short-go" || mode == "short-ok", std::sync::atomic::Ordering::SeqCst);
            shim::FAIL_SHORT_NO_ERROR.store(mode == "short-ok", std::sync::atomic::Ordering::SeqCst);
            shim::CUT_SEL.store(cut, std::sync::atomic::Ordering::SeqCst);
            shim::FAIL_AT.store(k, std::sync::atomic::Ordering::SeqCst);
            shim::FAIL_ERRNO.store(if mode.starts_with("eio") { libc::EIO } else { libc::ENOSPC }, std::sync::atomic::Ordering::SeqCst);
        }
        _ => return 2,
    }
    vcore::quiet_panics();
    let ctx = dummy_ctx(root.parent().unwrap_or(Path::new("/tmp")), strict);
    shim::arm(&root.to_string_lossy());
    let crash_lose_all = || -> ! {
        shim::MODE_B.store(1, std::sync::atomic::Ordering::SeqCst);
        shim::crash_now()
    };
    let mut hs = match Harness::new_at(&ctx, &case, Probes::default(), root.clone()) {
        Ok(h) => h,
        Err(f) => {
            let _ = writeln!(acks, "X open {}", f.signature);
            if fault {
                crash_lose_all();
            }
            unsafe { libc::_exit(3) }
        }
    };
    for (i, op) in case.ops.iter().enumerate() {
        shim::CURRENT_OP.store(i as u64, std::sync::atomic::Ordering::SeqCst);
        let client = matches!(op, Op::Put { .. } | Op::Del { .. } | Op::Batch { .. } | Op::BigBatch { .. } | Op::PutDuringFlush { .. });
        if client {
            let _ = writeln!(acks, "B {i}");
        }
        if let Op::PutDuringFlush { .. } = op {
            // the put inside the flush is acknowledged the moment the store returns from it
            let path = acks_path.clone();
            *driver::INNER_ACK.lock().unwrap() = Some(Box::new(move || {
                if let Ok(mut f) = std::fs::OpenOptions::new().append(true).open(&path) {
                    let _ = writeln!(f, "A {i}");
                }
            }));
        } else {
            *driver::INNER_ACK.lock().unwrap() = None;
        }
        match vcore::guard(|| hs.apply(op)) {
            Ok(Ok(())) => {
                if client {
                    let _ = writeln!(acks, "A {i}");
                }
                if fault && !surfaced && shim::COUNT.load(std::sync::atomic::Ordering::SeqCst) > k {
                    // The injected failure happened inside this operation and the operation still
                    // reported success (the error was retried, irrelevant - or swallowed).  Die right
                    // here, losing unsynced bytes, before a later successful sync can mask it: what
                    // was acknowledged must be durable NOW.
                    let _ = writeln!(acks, "S {i}");
                    crash_lose_all();
                }
            }
            Ok(Err(f)) => {
                let _ = writeln!(acks, "E {i} {}", f.signature);
                if go && shim::COUNT.load(std::sync::atomic::Ordering::SeqCst) > k && !matches!(op, Op::Reopen | Op::SwitchSurface) {
                    // the failure was reported (by this operation or, as a consequence, by a later
                    // one); the caller carries on
                    surfaced = true;
                    continue;
                }
                if fault {
                    // the store reported the injected failure: stop here and lose unsynced bytes
                    crash_lose_all();
                }
                let _ = writeln!(acks, "X {i} {}", f.message.replace('\n', " "));
                unsafe { libc::_exit(3) }
            }
            Err(f) => {
                let _ = writeln!(acks, "P {i} {}", f.message.replace('\n', " "));
                if fault {
                    crash_lose_all();
                }
                unsafe { libc::_exit(4) }
            }
        }
    }
    shim::CURRENT_OP.store(u64::MAX, std::sync::atomic::Ordering::SeqCst);
    let n = shim::COUNT.load(std::sync::atomic::Ordering::SeqCst);
    shim::disarm();
    let _ = writeln!(acks, "N {n}");
    if mode == "count" {
        let _ = std::fs::write(format!("{}.trace", root.display()), shim::trace().join("\n"));
        unsafe { libc::_exit(0) }
    }
    if fault {
        // the failure never surfaced; the process still dies without a clean close
        crash_lose_all();
    }
    unsafe { libc::_exit(0) }
}

#[derive(Clone, Debug, Default, Serialize, Deserialize)]
pub struct Recovered {
    pub open_error: Option<String>,
    pub panic: Option<String>,
    pub loads: Vec<(Vec<u8>, Option<Vec<u8>>)>,
    pub scan: Vec<(Vec<u8>, Option<Vec<u8>>)>,
    pub read_error: Option<String>,
    pub rd_predicate: bool,
    pub verifier: String,
    pub second_pass_differs: Option<String>,
    /// life after recovery: None = not attempted, Some("ok") or Some(description of the failure)
    #[serde(default)]
    pub after_recovery: Option<String>,
}

/// `child-recover <case.json> <root> <out.json>`: reopen the image in a fresh process and dump it.
pub fn child_recover(args: &[String]) -> i32 {
    let case: History = serde_json::from_slice(&std::fs::read(&args[0]).expect("case")).expect("parse case");
    let root = PathBuf::from(&args[1]);
    let out = PathBuf::from(&args[2]);
    vcore::quiet_panics();
    let ctx = dummy_ctx(root.parent().unwrap_or(Path::new("/tmp")), true);
    // `count`: run the recovery (open + close) under the shim and report how many mutating calls
    // it issues.  `crash <k2> <a|lose>`: die before its call k2 (a second crash, during recovery).
    match args.get(3).map(|s| s.as_str()) {
        Some("count") => {
            shim::CRASH_AT.store(u64::MAX, std::sync::atomic::Ordering::SeqCst);
            shim::FAIL_AT.store(u64::MAX, std::sync::atomic::Ordering::SeqCst);
            shim::arm(&root.to_string_lossy());
            if let Ok(Ok(mut hs)) = vcore::guard(|| Harness::new_at(&ctx, &case, Probes::default(), root.clone())) {
                hs.close();
            }
            let n = shim::COUNT.load(std::sync::atomic::Ordering::SeqCst);
            shim::disarm();
            std::fs::write(&out, format!("{{\"count\": {n}}}")).expect("write count");
            return 0;
        }
        Some("crash") => {
            let k2: u64 = args[4].parse().unwrap();
            shim::FAIL_AT.store(u64::MAX, std::sync::atomic::Ordering::SeqCst);
            shim::CRASH_AT.store(k2, std::sync::atomic::Ordering::SeqCst);
            shim::MODE_B.store(if args.get(5).map(|s| s == "lose").unwrap_or(false) { 1 } else { 0 }, std::sync::atomic::Ordering::SeqCst);
            shim::arm(&root.to_string_lossy());
            if let Ok(Ok(mut hs)) = vcore::guard(|| Harness::new_at(&ctx, &case, Probes::default(), root.clone())) {
                hs.close();
            }
            shim::disarm();
            // the crash point was not reached (the recovery was shorter this time)
            return 0;
        }
        _ => {}
    }
    let mut rec = Recovered::default();
    let dump = |hs: &Harness, rec: &mut Recovered| -> (Vec<(Vec<u8>, Option<Vec<u8>>)>, Vec<(Vec<u8>, Option<Vec<u8>>)>) {
        let mut loads = vec![];
        for k in hs.universe.iter() {
            match hs.load(k) {
                Ok((v, _)) => loads.push((k.clone(), v)),
                Err(e) => {
                    rec.read_error = Some(format!("load({}) failed: {e:?}", gens::show(k)));
                    break;
                }
            }
        }
        let mut scan = vec![];
        match hs.full_scan() {
            Ok(s) => scan = s,
            Err(e) => rec.read_error = Some(format!("scan failed: {e}")),
        }
        (loads, scan)
    };
    let first = vcore::guard(|| Harness::new_at(&ctx, &case, Probes::default(), root.clone()));
    match first {
        Err(f) => rec.panic = Some(f.message),
        Ok(Err(f)) => rec.open_error = Some(f.message),
        Ok(Ok(mut hs)) => {
            rec.rd_predicate = driver::rd_predicate(&hs.levels());
            let (loads, scan) = dump(&hs, &mut rec);
            rec.loads = loads;
            rec.scan = scan;
            // C08: a verifier pass on the recovered image (possibly completing an interrupted one),
            // then a reopen, must leave the contents unchanged.
            rec.verifier = match vcore::guard(|| hs.verifier_pass_raw()) {
                Ok(Ok(())) => "ok".into(),
                Ok(Err(e)) => format!("err: {e}"),
                Err(f) => format!("panic: {}", f.message),
            };
            if !rec.rd_predicate {
                hs.close();
                match vcore::guard(|| hs.reopen_raw()) {
                    Ok(Ok(())) => {
                        let mut rec2 = Recovered::default();
                        let (l2, s2) = dump(&hs, &mut rec2);
                        if rec2.read_error.is_some() {
                            rec.second_pass_differs = rec2.read_error;
                        } else if l2 != rec.loads || s2 != rec.scan {
                            rec.second_pass_differs = Some("contents changed after verifier pass + reopen".into());
                        } else if rec.read_error.is_none() {
                            // Life after recovery: the recovered store must be a sound base for
                            // further work.  Write, flush, compact, reopen; the contents must be
                            // the recovered contents plus the new writes.
                            let loads = rec.loads.clone();
                            rec.after_recovery = Some(match vcore::guard(|| life_after_recovery(&mut hs, &loads)) {
                                Ok(Ok(())) => "ok".into(),
                                Ok(Err(f)) => format!("{}: {}", f.signature, f.message),
                                Err(f) => format!("panic: {}", f.message),
                            });
                        }
                    }
                    Ok(Err(e)) => rec.second_pass_differs = Some(format!("reopen after verifier pass failed: {}", e.message)),
                    Err(f) => rec.second_pass_differs = Some(format!("reopen after verifier pass panicked: {}", f.message)),
                }
            }
            hs.close();
        }
    }
    std::fs::write(&out, serde_json::to_vec(&rec).unwrap()).expect("write recovered");
    0
}

/// Follow-up work on a recovered store: writes (single, delete, batch), flushes, compaction steps
/// and a reopen, with every universe key read back against recovered contents + follow-ups.
fn life_after_recovery(hs: &mut Harness, loads: &[(Vec<u8>, Option<Vec<u8>>)]) -> Result<(), vcore::Failure> {
    use driver::Op;
    hs.model = loads.iter().cloned().collect();
    hs.set_tag(3_000_000);
    let n = hs.universe.len().max(1) as u32;
    let pick = |i: u32| -> u16 { ((i as u64 * 65536 / n as u64) as u16).saturating_add(1) };
    let ops = vec![
        // first of all, before anything changes the tree: whatever compaction the crash interrupted is
        // chosen again (same inputs, same output setsum, possibly already linked into sst/)
        Op::Compact { steps: 24 },
        Op::Put { k: pick(0), sz: 2 },
        Op::Del { k: pick(1 % n) },
        Op::Batch { items: vec![(pick(2 % n), Some(3)), (pick(3 % n), None), (pick(4 % n), Some(1))] },
        Op::Flush,
        Op::Put { k: pick(5 % n), sz: 4 },
        Op::Flush,
        Op::Compact { steps: 3 },
        Op::Put { k: pick(0), sz: 1 },
    ];
    for op in ops.iter() {
        hs.apply(op)?;
        hs.check_reads("a follow-up operation on the recovered store")?;
    }
    if !driver::rd_predicate_prestate(&hs.levels()) {
        hs.close();
        hs.reopen_raw()?;
        hs.check_reads("reopening the recovered store after follow-up writes")?;
    }
    Ok(())
}

/////////////////////////////////////////////// parent //////////////////////////////////////////////

#[derive(Clone, Debug)]
struct TraceLine {
    op: Option<usize>,
    kind: String,
    path: String,
    /// second path of a rename / link (empty otherwise)
    dest: String,
}

impl TraceLine {
    /// A file is moved into the trash directory by this call.
    fn moves_to_trash(&self) -> bool {
        (self.kind == "rename" || self.kind == "link") && self.dest.starts_with("trash/") && !self.path.starts_with("trash/")
    }
}

fn parse_trace(text: &str) -> Vec<TraceLine> {
    text.lines()
        .map(|l| {
            let f: Vec<&str> = l.split('\t').collect();
            TraceLine { op: f.get(1).and_then(|s| s.parse().ok()), kind: f.get(2).unwrap_or(&"").to_string(), path: f.get(3).unwrap_or(&"").to_string(), dest: f.get(4).unwrap_or(&"").to_string() }
        })
        .collect()
}

fn class_of(t: &TraceLine, h: &History) -> String {
    let region = if t.path.starts_with("log.") {
        "log"
    } else {
        t.path.split('/').next().unwrap_or("")
    };
    let during = match t.op.and_then(|i| h.ops.get(i)) {
        Some(op) => driver::op_name(op),
        None => "open",
    };
    if t.moves_to_trash() {
        return format!("{during}:{region}->trash:{}", t.kind);
    }
    format!("{during}:{region}:{}", t.kind)
}

/// The clean-up windows of a trace: every call of a verifier pass or a reopen, every call that touches
/// the trash directory or the manifest (what the manifest lists is what must not be removed), and - since "a log is moved to trash only when no unreplayed write depends on
/// it" is a statement about what is durable at the moment of the move - every call from a move into
/// trash up to the end of the API call that made it.
fn cleanup_points(trace: &[TraceLine], h: &History) -> Vec<bool> {
    let mut sel = vec![false; trace.len()];
    let mut in_window: Option<Option<usize>> = None;
    for (k, t) in trace.iter().enumerate() {
        if let Some(op) = in_window {
            if op != t.op {
                in_window = None;
            }
        }
        let c = class_of(t, h);
        if c.starts_with("verify:") || c.starts_with("reopen:") || c.contains(":trash:") || c.contains("->trash:") || c.contains(":verify:") || c.contains(":mani:") {
            sel[k] = true;
        }
        if t.moves_to_trash() {
            in_window = Some(t.op);
        }
        if in_window.is_some() {
            sel[k] = true;
        }
    }
    sel
}

#[derive(Clone, Copy, Debug, PartialEq, Eq)]
pub enum Focus {
    All,
    /// only crash points inside verifier passes, reopen (orphan clean-up) and trash moves
    CleanUp,
}

pub struct CrashEnum {
    pub name: &'static str,
    pub focus: Focus,
    /// histories per worker
    pub quick: u64,
    pub thorough: u64,
    /// maximum crash points per history in the quick tier (thorough: all)
    pub quick_points: usize,
}

fn acks_of(root: &Path) -> (Vec<usize>, Option<usize>, Vec<String>) {
    let text = std::fs::read_to_string(format!("{}.acks", root.display())).unwrap_or_default();
    let mut acked = vec![];
    let mut begun: Option<usize> = None;
    let mut other = vec![];
    for l in text.lines() {
        let mut it = l.splitn(3, ' ');
        let tag = it.next().unwrap_or("");
        let idx: Option<usize> = it.next().and_then(|s| s.parse().ok());
        match (tag, idx) {
            ("B", Some(i)) => begun = Some(i),
            ("A", Some(i)) => {
                acked.push(i);
                if begun == Some(i) {
                    begun = None;
                }
            }
            ("E", Some(i)) => {
                // an op that returned Err is not acknowledged; it may or may not have taken effect
                if begun == Some(i) {
                    // keep it as in flight
                }
                other.push(l.to_string());
            }
            _ => other.push(l.to_string()),
        }
    }
    (acked, begun, other)
}

fn expected(h: &History, acked: &[usize], inflight: Option<usize>) -> (driver::Model, Option<driver::Model>) {
    let universe = gens::universe(h.family, (h.nkeys as usize).max(1));
    let mut tag = 0u32;
    let mut base = driver::Model::new();
    let mut with = None;
    let mut inflight_writes = None;
    for (i, op) in h.ops.iter().enumerate() {
        if let Some(ws) = driver::write_set(&universe, &mut tag, op) {
            if acked.contains(&i) {
                for (k, v) in ws {
                    base.insert(k, v);
                }
            } else if inflight == Some(i) {
                inflight_writes = Some(ws);
            }
        }
    }
    if let Some(ws) = inflight_writes {
        // in-flight op is the last client op begun, so applying it last is the right order
        let mut m = base.clone();
        for (k, v) in ws {
            m.insert(k, v);
        }
        with = Some(m);
    }
    (base, with)
}

/// Indices of operations that returned an error (lines "E <i> ...").
fn failed_ops(other: &[String]) -> Vec<usize> {
    other.iter().filter_map(|l| l.strip_prefix("E ")).filter_map(|r| r.split(' ').next().and_then(|s| s.parse().ok())).collect()
}

/// Judge a recovered state when some operations FAILED in the middle of the history (go modes): a
/// failed write may or may not have taken effect, everything acknowledged must be there.  Per key:
/// the recovered value is that of the last acknowledged write to the key, or of a failed write to
/// it that came later.
fn go_check(h: &History, acked: &[usize], failed: &[usize], rec: &Recovered) -> Result<(), String> {
    let universe = gens::universe(h.family, (h.nkeys as usize).max(1));
    let mut tag = 0u32;
    let mut last_acked: BTreeMap<Vec<u8>, (usize, Option<Vec<u8>>)> = BTreeMap::new();
    let mut failed_w: BTreeMap<Vec<u8>, Vec<(usize, Option<Vec<u8>>)>> = BTreeMap::new();
    for (i, op) in h.ops.iter().enumerate() {
        if let Some(ws) = driver::write_set(&universe, &mut tag, op) {
            for (k, v) in ws {
                if acked.contains(&i) {
                    last_acked.insert(k, (i, v));
                } else if failed.contains(&i) {
                    failed_w.entry(k).or_default().push((i, v));
                }
            }
        }
    }
    if rec.loads.len() != universe.len() {
        return Err("not every key could be read".into());
    }
    for (k, got) in rec.loads.iter() {
        let (base_idx, base_val) = match last_acked.get(k) {
            Some((i, v)) => (Some(*i), v.clone()),
            None => (None, None),
        };
        let mut allowed: Vec<Option<Vec<u8>>> = vec![base_val.clone()];
        for (i, v) in failed_w.get(k).map(|v| v.as_slice()).unwrap_or(&[]) {
            if base_idx.map(|b| *i > b).unwrap_or(true) {
                allowed.push(v.clone());
            }
        }
        if !allowed.contains(got) {
            return Err(format!("load({}) = {} but the last acknowledged write to it is {} ({} later failed write(s) to it could explain another value, none does)", gens::show(k), driver::show_val(got), driver::show_val(&base_val), allowed.len() - 1));
        }
    }
    let live: Vec<(Vec<u8>, Option<Vec<u8>>)> = rec.loads.iter().filter(|(_, v)| v.is_some()).cloned().collect();
    let mut live_sorted = live.clone();
    live_sorted.sort();
    if rec.scan != live_sorted {
        return Err("the full scan of the recovered store disagrees with its point reads".into());
    }
    Ok(())
}

fn matches_model(h: &History, rec: &Recovered, m: &driver::Model) -> Result<(), String> {
    let universe = gens::universe(h.family, (h.nkeys as usize).max(1));
    for (k, got) in rec.loads.iter() {
        let want = m.get(k).cloned().flatten();
        if *got != want {
            return Err(format!("load({}) = {} but expected {}", gens::show(k), driver::show_val(got), driver::show_val(&want)));
        }
    }
    if rec.loads.len() != universe.len() {
        return Err("not every key could be read".into());
    }
    let want_scan: Vec<(Vec<u8>, Option<Vec<u8>>)> = m.iter().filter(|(_, v)| v.is_some()).map(|(k, v)| (k.clone(), v.clone())).collect();
    if rec.scan != want_scan {
        return Err(format!("full scan returned {:?} but expected {:?}", rec.scan.iter().map(|e| gens::show(&e.0)).collect::<Vec<_>>(), want_scan.iter().map(|e| gens::show(&e.0)).collect::<Vec<_>>()));
    }
    Ok(())
}

pub struct PointVerdict {
    pub outcome: Outcome,
    pub class: String,
}

impl CrashEnum {
    fn history_strategy(&self, tier: Tier) -> proptest::strategy::BoxedStrategy<History> {
        let mut w = OpWeights::base();
        w.flush = 18;
        w.compact = 30;
        w.oversize = 0;
        w.big_batch = 3;
        match self.focus {
            Focus::All => {
                w.verify = 5;
                w.reopen = 3;
            }
            Focus::CleanUp => {
                w.verify = 14;
                w.reopen = 8;
            }
        }
        let ops = tier.pick(50usize, 90);
        driver::history_strategy(Profile::Shape, w, 0, 0..1, 8..ops)
    }

    /// Run one crash point and judge it.
    pub fn run_point(ctx: &Ctx, case: &CrashCase, trace: Option<&[TraceLine]>) -> PointVerdict {
        let exe = std::env::current_exe().expect("exe");
        let dir = ctx.scratch.join("crash");
        let _ = std::fs::remove_dir_all(&dir);
        std::fs::create_dir_all(&dir).expect("crash dir");
        let root = dir.join("store");
        let case_path = dir.join("case.json");
        std::fs::write(&case_path, serde_json::to_vec(&case.history).unwrap()).expect("case");
        let mut o = Outcome::pass();
        let class = trace.and_then(|t| t.get(case.k as usize)).map(|t| class_of(t, &case.history)).unwrap_or_else(|| "unknown".into());
        let st = Command::new(&exe)
            .arg("child-run")
            .arg(&case_path)
            .arg(&root)
            .arg(match case.mode { Mode::A2 => "a", Mode::Lose2 => "lose", m => m.name() })
            .arg(case.k.to_string())
            .arg(case.cut.to_string())
            .arg(if ctx.strict { "1" } else { "0" })
            .stdout(std::process::Stdio::null())
            .stderr(std::process::Stdio::null())
            .status();
        let code = st.ok().and_then(|s| s.code());
        let (acked, inflight, other) = acks_of(&root);
        let fault = matches!(case.mode, Mode::Eio | Mode::Enospc | Mode::EioGo | Mode::EnospcGo | Mode::ShortGo | Mode::ShortOk);
        let go = matches!(case.mode, Mode::EioGo | Mode::EnospcGo | Mode::ShortGo | Mode::ShortOk);
        match code {
            Some(99) => {}
            Some(0) => {
                // the crash point was never reached (the history is shorter on this run)
                o.label("point-not-reached");
                let _ = std::fs::remove_dir_all(&dir);
                return PointVerdict { outcome: o, class };
            }
            Some(3) if !fault => {
                o.fail("crash:fault-free-op-error", format!("a fault-free operation failed before the crash point: {other:?}"));
                let _ = std::fs::remove_dir_all(&dir);
                return PointVerdict { outcome: o, class };
            }
            Some(4) if !fault => {
                o.fail("crash:fault-free-op-panic", format!("a fault-free operation panicked before the crash point: {other:?}"));
                let _ = std::fs::remove_dir_all(&dir);
                return PointVerdict { outcome: o, class };
            }
            other_code => {
                o.inconclusive = true;
                o.label(format!("child-run-exit:{other_code:?}"));
                let _ = std::fs::remove_dir_all(&dir);
                return PointVerdict { outcome: o, class };
            }
        }
        if fault {
            if other.iter().any(|l| l.starts_with("S ")) {
                o.label("fault-inside-an-operation-that-reported-success");
            } else if other.iter().any(|l| l.starts_with("E ") || l.starts_with("X open")) {
                o.label("fault-surfaced-as-error");
            } else if other.iter().any(|l| l.starts_with("P ")) {
                o.label("fault-caused-panic");
            } else {
                o.label("fault-not-surfaced");
            }
        }
        // C08 on the image itself, before anything recovers it: every sst named by the complete
        // transactions of the live MANIFEST is in sst/ (a file the manifest lists is never removed;
        // files are linked before the edit that lists them and retired after the edit that drops them)
        match crate::manifest::listed_ssts_tolerant(&root) {
            Some(listed) => {
                let missing: Vec<&String> = listed.iter().filter(|d| !root.join("sst").join(format!("{d}.sst")).exists()).collect();
                // C08 forbids REMOVING a listed file; "listed before it was ever linked" would be
                // another protocol, not a removal.  Evidence of a removal: the file sits in trash/, or
                // the fault-free prefix of the trace (identical up to call k) shows it being linked /
                // renamed into sst/.
                let was_there = |d: &String| {
                    let name = format!("sst/{d}.sst");
                    root.join("trash").join(format!("{d}.sst")).exists() || trace.map(|t| t.iter().take(case.k as usize + 1).any(|l| (l.kind == "link" || l.kind == "rename") && l.dest == name)).unwrap_or(false)
                };
                let missing: Vec<&String> = if missing.iter().any(|d| was_there(d)) { missing.into_iter().filter(|d| was_there(d)).collect() } else {
                    if !missing.is_empty() {
                        o.label("image:listed-sst-missing-without-evidence-of-removal(not-judged)");
                    }
                    vec![]
                };
                if let (Some(d), false) = (missing.first(), ctx.prop == "C08") {
                    // C02 speaks of what a reopen yields, not of the files: there this is a label
                    let _ = d;
                    o.label("image:listed-sst-missing(not-judged-by-C02)");
                } else if let Some(d) = missing.first() {
                    o.fail(
                        "crash:image-lists-missing-sst",
                        format!("the image left by {:?} at mutating call {} ({class}) has a MANIFEST that lists sst {d}, which is not in sst/ (trash has it: {}); {} listed, {} missing; operations reported: {other:?}", case.mode, case.k, root.join("trash").join(format!("{d}.sst")).exists(), listed.len(), missing.len()),
                    );
                    let _ = std::fs::remove_dir_all(&dir);
                    return PointVerdict { outcome: o, class };
                }
                if missing.is_empty() {
                    o.label("image:every-listed-sst-present");
                }
            }
            None => o.label("image:no-manifest-yet"),
        }
        if matches!(case.mode, Mode::A2 | Mode::Lose2) {
            // how many mutating calls does the recovery of this image issue?  (on a copy)
            let cnt_root = dir.join("store-count");
            crate::tamper::copy_tree(&root, &cnt_root);
            let cnt_out = dir.join("count.json");
            let _ = Command::new(&exe).arg("child-recover").arg(&case_path).arg(&cnt_root).arg(&cnt_out).arg("count").stdout(std::process::Stdio::null()).stderr(std::process::Stdio::null()).status();
            let n2 = std::fs::read(&cnt_out).ok().and_then(|b| serde_json::from_slice::<Value>(&b).ok()).and_then(|v| v["count"].as_u64()).unwrap_or(0);
            let _ = std::fs::remove_dir_all(&cnt_root);
            if n2 == 0 {
                o.label("double-crash:recovery-issues-no-mutating-call");
            } else {
                let k2 = (case.cut >> 8) % n2;
                let st2 = Command::new(&exe)
                    .arg("child-recover")
                    .arg(&case_path)
                    .arg(&root)
                    .arg(dir.join("unused.json"))
                    .arg("crash")
                    .arg(k2.to_string())
                    .arg(if case.mode == Mode::Lose2 { "lose" } else { "a" })
                    .stdout(std::process::Stdio::null())
                    .stderr(std::process::Stdio::null())
                    .status();
                match st2.ok().and_then(|s| s.code()) {
                    Some(99) => o.label(format!("double-crash:recovery-killed-at-call:{}", match k2 { 0 => "0", 1..=3 => "1-3", 4..=9 => "4-9", _ => "10+" })),
                    Some(0) => o.label("double-crash:second-point-not-reached"),
                    other => o.label(format!("double-crash:recovery-child-exit:{other:?}")),
                }
            }
        }
        let out = dir.join("recovered.json");
        let st = Command::new(&exe)
            .arg("child-recover")
            .arg(&case_path)
            .arg(&root)
            .arg(&out)
            .stdout(std::process::Stdio::null())
            .stderr(std::process::Stdio::null())
            .status();
        let rec: Option<Recovered> = std::fs::read(&out).ok().and_then(|b| serde_json::from_slice(&b).ok());
        let ok_exit = st.as_ref().map(|s| s.success()).unwrap_or(false);
        let Some(rec) = rec else {
            // A recovery that takes the process down (abort, segfault, stack overflow, a panic that
            // escapes) is a violation; a child that could not be started or was killed from outside
            // is the harness's problem.
            use std::os::unix::process::ExitStatusExt;
            let crashed = st.as_ref().map(|s| matches!(s.signal(), Some(libc::SIGSEGV | libc::SIGABRT | libc::SIGBUS | libc::SIGILL | libc::SIGFPE)) || s.code() == Some(101)).unwrap_or(false);
            if !crashed {
                o.inconclusive = true;
                o.label(format!("recover-child-left-no-result:{st:?}"));
                let _ = std::fs::remove_dir_all(&dir);
                return PointVerdict { outcome: o, class };
            }
            o.fail("crash:recover-process-died", format!("the recovering process died without a result (exit ok: {ok_exit}, status {st:?}) after crash point {} ({class}) in mode {:?}", case.k, case.mode));
            let _ = std::fs::remove_dir_all(&dir);
            return PointVerdict { outcome: o, class };
        };
        o.nontrivial = !acked.is_empty();
        let desc = format!("crash before mutating call {} ({class}), mode {:?}, {} ops acknowledged, in flight: {:?}", case.k, case.mode, acked.len(), inflight);
        if let Some(p) = &rec.panic {
            o.fail("crash:reopen-panic", format!("reopen panicked after {desc}: {p}"));
        } else if let Some(e) = &rec.open_error {
            if case.mode == Mode::Torn {
                // a cut inside an unsynced write may be reported as corruption: tolerated
                o.label("torn:explicit-open-error");
            } else {
                o.fail("crash:reopen-error", format!("reopen failed after {desc}: {}", vcore::truncate(e, 500)));
            }
        } else if rec.rd_predicate && !ctx.strict {
            o.excluded.push("R-D".into());
        } else if let Some(e) = &rec.read_error {
            o.fail("crash:read-error", format!("reading the recovered store failed after {desc}: {}", vcore::truncate(e, 400)));
        } else if go && !failed_ops(&other).is_empty() {
            let failed = failed_ops(&other);
            o.label(format!("go:operations-failed:{}", match failed.len() { 1 => "1", 2..=4 => "2-4", _ => "5+" }));
            if acked.iter().any(|a| failed.iter().any(|f| a > f)) {
                o.label("go:acknowledged-after-a-reported-error");
            }
            if let Err(e) = go_check(&case.history, &acked, &failed, &rec) {
                o.fail("crash:lost-after-reported-error", format!("after an injected {:?} at mutating call {} ({class}) that was reported to the caller, the history went on ({} operations failed, {} acknowledged) and the process died at its end: {e}; failed operations {failed:?}, acknowledged {acked:?}", case.mode, case.k, failed.len(), acked.len()));
            } else {
                o.label("recovered:acked+some-failed-ops");
            }
        } else {
            let (base, with) = expected(&case.history, &acked, inflight);
            let r1 = matches_model(&case.history, &rec, &base);
            let r2 = with.as_ref().map(|m| matches_model(&case.history, &rec, m));
            match (r1, r2) {
                (Ok(()), _) => o.label("recovered:acked-only"),
                (_, Some(Ok(()))) => o.label("recovered:acked+inflight"),
                (Err(e), _) => {
                    let sig = if e.contains("but expected nothing") || e.contains("full scan") { "crash:wrong-state" } else { "crash:lost-or-wrong" };
                    o.fail(sig, format!("after {desc} the recovered state is neither 'acknowledged ops' nor 'acknowledged ops + the in-flight op': {e}"));
                }
            }
            if !o.failed() {
                if let Some(d) = &rec.second_pass_differs {
                    o.fail("crash:verifier-then-reopen-changes-contents", format!("after {desc}: {d} (verifier: {})", rec.verifier));
                }
                match rec.after_recovery.as_deref() {
                    None => o.label("after-recovery:not-attempted"),
                    Some("ok") => o.label("after-recovery:follow-ups-durable"),
                    Some(d) => o.fail("crash:after-recovery", format!("after {desc} the store recovered correctly, but follow-up work on it went wrong: {d}")),
                }
                if rec.verifier.starts_with("panic") {
                    o.fail("crash:verifier-panic", format!("after {desc}: verifier pass on the recovered image {}", rec.verifier));
                }
                o.label(format!("verifier-after-recovery:{}", rec.verifier.split(':').next().unwrap_or("")));
            }
        }
        if std::env::var("VERIF_KEEP").is_ok() {
            eprintln!("crash image kept at {}", dir.display());
        } else {
            let _ = std::fs::remove_dir_all(&dir);
        }
        PointVerdict { outcome: o, class }
    }
}

impl Part for CrashEnum {
    fn name(&self) -> String {
        self.name.to_string()
    }

    fn worker(&self, ctx: &Ctx) -> WorkerReport {
        let mut rep = WorkerReport::default();
        let name = self.name();
        let seed = vcore::mix(ctx.seed ^ vcore::mix(ctx.worker as u64 + 1) ^ vcore::hash_str(&name));
        let mut runner = TestRunner::new(Config { rng_seed: RngSeed::Fixed(seed), failure_persistence: None, ..Config::default() });
        let strat = self.history_strategy(ctx.tier);
        let n_hist = ctx.tier.pick(self.quick, self.thorough);
        let exe = std::env::current_exe().expect("exe");
        'histories: for hi in 0..n_hist {
            let history = strat.new_tree(&mut runner).expect("tree").current();
            // 1. count run
            let dir = ctx.scratch.join("crash");
            let _ = std::fs::remove_dir_all(&dir);
            std::fs::create_dir_all(&dir).expect("dir");
            let root = dir.join("store");
            let case_path = dir.join("case.json");
            std::fs::write(&case_path, serde_json::to_vec(&history).unwrap()).expect("case");
            let st = Command::new(&exe).arg("child-run").arg(&case_path).arg(&root).arg("count").arg("0").arg("0").arg("0").stdout(std::process::Stdio::null()).stderr(std::process::Stdio::null()).status();
            let trace = parse_trace(&std::fs::read_to_string(format!("{}.trace", root.display())).unwrap_or_default());
            let code = st.map(|s| s.code()).ok().flatten();
            if code != Some(0) && !matches!(code, Some(3) | Some(4)) {
                // the child could not run at all (spawn failure, killed from outside): not a verdict
                let mut o = Outcome::pass();
                o.inconclusive = true;
                o.label(format!("count-run-exit:{code:?}"));
                rep.record(&name, vcore::case_hash(&history), || json!({"history": history}), &o);
                continue;
            }
            if code != Some(0) || trace.is_empty() {
                // the fault-free run itself failed: that is C01's business; report it here too
                let (_, _, other) = acks_of(&root);
                let mut o = Outcome::pass();
                o.fail("crash:fault-free-run-failed", format!("the fault-free run of the history failed: {other:?}"));
                rep.record(&name, vcore::case_hash(&history), || json!({"history": history}), &o);
                rep.violations.push(ViolationRec { part: name.clone(), case: serde_json::to_value(CrashCase { history: history.clone(), k: u64::MAX, mode: Mode::A, cut: 0 }).unwrap(), signature: "crash:fault-free-run-failed".into(), message: o.failure.unwrap().message, shrunk: false });
                continue;
            }
            let n = trace.len();
            // 2. choose crash points
            let window = cleanup_points(&trace, &history);
            let mut points: Vec<usize> = (0..n)
                .filter(|k| match self.focus {
                    Focus::All => true,
                    Focus::CleanUp => window[*k],
                })
                .collect();
            let exhaustive = ctx.tier == Tier::Thorough || points.len() <= self.quick_points;
            if !exhaustive {
                // class-stratified, evenly spaced sample
                let mut by_class: BTreeMap<String, Vec<usize>> = BTreeMap::new();
                for k in points.iter() {
                    by_class.entry(class_of(&trace[*k], &history)).or_default().push(*k);
                }
                let per = (self.quick_points / by_class.len().max(1)).max(1);
                let mut chosen = vec![];
                for (_, ks) in by_class.iter() {
                    let step = (ks.len() as f64 / per as f64).max(1.0);
                    let mut x = (hi as f64 * 0.37) % step;
                    while (x as usize) < ks.len() {
                        chosen.push(ks[x as usize]);
                        x += step;
                    }
                }
                chosen.sort();
                chosen.dedup();
                points = chosen;
            }
            // 3. enumerate
            for (pi, k) in points.iter().enumerate() {
                // Thorough: every mode at every point.  Quick: the extra modes are drawn from a hash
                // of (history, call) so that they are not aliased with the position of a call in
                // the write / fdatasync rhythm of the trace.
                let _ = pi;
                let r = vcore::mix(seed ^ hi.wrapping_mul(0x9e37_79b9) ^ ((*k as u64) << 20) ^ 0x5eed);
                let mut modes = vec![Mode::A, Mode::LoseAll];
                if ctx.tier == Tier::Thorough || r % 2 == 0 {
                    modes.push(Mode::Torn);
                }
                if ctx.tier == Tier::Thorough || (r >> 8) % 4 == 1 {
                    modes.push(Mode::Eio);
                }
                if ctx.tier == Tier::Thorough || (r >> 8) % 4 == 3 {
                    modes.push(Mode::Enospc);
                }
                // the four expensive modes: a quarter of the points each (quick), half (thorough)
                let thorough = ctx.tier == Tier::Thorough;
                if (r >> 24) % 4 == 0 || (thorough && (r >> 24) % 4 == 1) {
                    modes.push(Mode::A2);
                }
                if (r >> 24) % 4 == 2 || (thorough && (r >> 24) % 4 == 3) {
                    modes.push(Mode::Lose2);
                }
                if (r >> 16) % 4 == 1 || (thorough && (r >> 16) % 4 == 0) {
                    modes.push(Mode::EioGo);
                }
                if (r >> 16) % 4 == 3 || (thorough && (r >> 16) % 4 == 2) {
                    // a full disk shows as a short write about as often as an outright ENOSPC
                    modes.push(if trace[*k].kind == "write" && (r >> 32) % 2 == 0 { if (r >> 33) % 2 == 0 { Mode::ShortGo } else { Mode::ShortOk } } else { Mode::EnospcGo });
                }
                for mode in modes {
                    let case = CrashCase { history: history.clone(), k: *k as u64, mode, cut: vcore::mix(seed ^ (*k as u64) << 8 ^ hi) };
                    let v = Self::run_point(ctx, &case, Some(&trace));
                    let mut o = v.outcome;
                    o.label(format!("mode:{}", mode.name()));
                    o.label(format!("at:{}", v.class));
                    if exhaustive {
                        o.label("history-enumerated-exhaustively");
                    }
                    let hash = vcore::case_hash(&(&history, k, mode.name()));
                    rep.record(&name, hash, || json!({"k": k, "mode": mode.name(), "class": v.class, "ops": history.ops.len(), "mutating_calls": n}), &o);
                    if let Some(f) = o.failure {
                        rep.violations.push(ViolationRec { part: name.clone(), case: serde_json::to_value(&case).unwrap(), signature: f.signature, message: f.message, shrunk: false });
                        // one failure per history is enough; go on with the next history so that one
                        // defect does not hide the rest of the run
                        continue 'histories;
                    }
                }
            }
        }
        rep
    }

    fn replay(&self, ctx: &Ctx, case: &Value) -> Outcome {
        match serde_json::from_value::<CrashCase>(case.clone()) {
            Ok(c) => {
                // the fault-free trace (classes of the calls; evidence that a listed sst once existed)
                let exe = std::env::current_exe().expect("exe");
                let dir = ctx.scratch.join("crash-count");
                let _ = std::fs::remove_dir_all(&dir);
                std::fs::create_dir_all(&dir).expect("dir");
                let root = dir.join("store");
                let case_path = dir.join("case.json");
                std::fs::write(&case_path, serde_json::to_vec(&c.history).unwrap()).expect("case");
                let _ = Command::new(&exe).arg("child-run").arg(&case_path).arg(&root).arg("count").arg("0").arg("0").arg("0").stdout(std::process::Stdio::null()).stderr(std::process::Stdio::null()).status();
                let trace = parse_trace(&std::fs::read_to_string(format!("{}.trace", root.display())).unwrap_or_default());
                let _ = std::fs::remove_dir_all(&dir);
                Self::run_point(ctx, &c, if trace.is_empty() { None } else { Some(&trace) }).outcome
            }
            Err(e) => {
                let mut o = Outcome::pass();
                o.inconclusive = true;
                o.label(format!("replay-parse-error: {e}"));
                o
            }
        }
    }
}
