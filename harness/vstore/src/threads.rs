//! E4 — real OS threads against one store: generated client programs, a flush thread and
//! compaction threads, invocation/response stamping from one atomic counter, generated
//! perturbation at the store's yield points, and an exact all-parked stall detector.
//!
//! Serves C06 (linearizability and batch atomicity), the threaded half of C07 (cursors held while
//! the store moves) and the threaded half of C20 (ingest / compaction never wait on each other
//! forever).  The harness does not own the OS schedule: a violation found is exact, absence is weak
//! evidence; replays re-run a case several times.

use std::cell::Cell;
use std::ops::Bound;
use std::path::PathBuf;
use std::sync::atomic::{AtomicBool, AtomicU64, Ordering};
use std::sync::{Arc, Mutex};
use std::time::{Duration, Instant};

use proptest::prelude::*;
use serde::{Deserialize, Serialize};

use lsmtk::{KeyValueStore, LsmTree, WriteBatch};
use sst::{Builder, Cursor};
use vcore::gens;
use vcore::{Ctx, Outcome, Property, Tier};

use crate::driver::StoreConfig;
use crate::wgl::{self, Action, Event, Val};

//////////////////////////////////////////// perturbation //////////////////////////////////////////

thread_local! {
    static PERTURB_POS: Cell<usize> = const { Cell::new(0) };
    static PERTURB_SLOT: Cell<usize> = const { Cell::new(usize::MAX) };
}

static PERTURB: Mutex<Vec<Vec<u8>>> = Mutex::new(Vec::new());

fn yield_hook(_site: u32) {
    let slot = PERTURB_SLOT.with(|s| s.get());
    if slot == usize::MAX {
        return;
    }
    let action = {
        let p = PERTURB.lock().unwrap();
        match p.get(slot) {
            Some(v) if !v.is_empty() => {
                let pos = PERTURB_POS.with(|c| {
                    let x = c.get();
                    c.set(x + 1);
                    x
                });
                v[pos % v.len()]
            }
            _ => 0,
        }
    };
    match action % 8 {
        0..=3 => {}
        4 | 5 => std::thread::yield_now(),
        6 => std::thread::sleep(Duration::from_micros(50)),
        _ => std::thread::sleep(Duration::from_micros(400)),
    }
}

fn set_slot(i: usize) {
    PERTURB_SLOT.with(|s| s.set(i));
    PERTURB_POS.with(|c| c.set(0));
}

////////////////////////////////////////////// cases ///////////////////////////////////////////////

#[derive(Clone, Debug, Serialize, Deserialize)]
pub enum COp {
    Put { k: u8, sz: u8 },
    Del { k: u8 },
    Batch { items: Vec<(u8, Option<u8>)> },
    Get { k: u8 },
    /// scan of key indices lo..hi (normalised so lo <= hi); `mode` picks how the range is walked:
    /// 0 forward from seek_to_first, 1 backward from seek_to_last, 2 unbounded start + seek(lo key),
    /// 3 Excluded start bound (the key before lo) walked forward
    Scan {
        lo: u8,
        hi: u8,
        #[serde(default)]
        mode: u8,
    },
    /// open a cursor over everything, read `first` entries, run the rest of this thread's program,
    /// then finish the walk: everything it returns must equal the snapshot at open time
    HeldScan { first: u8 },
    /// a batch the store must refuse: a well-formed put of key `k` plus a value over the documented
    /// maximum, handed in through WriteBatch + write (sizes are checked only after the write took
    /// its sequence number and its place in the writers' queue).  Nothing of it may become visible.
    RefusedBatch { k: u8 },
}

#[derive(Clone, Debug, Serialize, Deserialize)]
pub struct ThreadedCase {
    pub config: StoreConfig,
    pub nkeys: u8,
    pub clients: Vec<Vec<COp>>,
    pub compaction_threads: u8,
    /// per thread (clients, then flush, then compaction threads): perturbation bytes consumed
    /// cyclically at the store's yield points
    pub perturb: Vec<Vec<u8>>,
}

fn cop_strategy() -> impl Strategy<Value = COp> {
    let sz = prop_oneof![4 => 1u8..4, 2 => Just(4u8), 1 => Just(5u8)];
    let sz2 = sz.clone();
    prop_oneof![
        5 => (any::<u8>(), sz).prop_map(|(k, sz)| COp::Put { k, sz }),
        2 => any::<u8>().prop_map(|k| COp::Del { k }),
        4 => prop::collection::vec((any::<u8>(), prop::option::weighted(0.75, sz2)), 2..7).prop_map(|items| COp::Batch { items }),
        5 => any::<u8>().prop_map(|k| COp::Get { k }),
        3 => (any::<u8>(), any::<u8>(), prop_oneof![3 => Just(0u8), 2 => Just(1u8), 1 => Just(2u8), 1 => Just(3u8)]).prop_map(|(lo, hi, mode)| COp::Scan { lo, hi, mode }),
        1 => (0u8..4).prop_map(|first| COp::HeldScan { first }),
        1 => any::<u8>().prop_map(|k| COp::RefusedBatch { k }),
    ]
}

pub fn threaded_config() -> impl Strategy<Value = StoreConfig> {
    // small memtables so rollovers and flushes happen mid-history; stall thresholds far away and
    // generous compaction limits (C20's threaded part has its own configuration)
    (prop_oneof![Just(1u64), Just(600), Just(4096)], prop_oneof![Just(1u64), Just(2), Just(4)], prop_oneof![Just(0u64), Just(1u64 << 26)]).prop_map(|(mem, mf, cache)| StoreConfig {
        bloom_bits: 17,
        memtable_size: mem,
        target_file_size: 4096,
        minimum_file_size: 4096,
        target_block_size: 4096,
        bytes_ri: 1024,
        pairs_ri: 16,
        l0_mandatory_files: mf,
        l0_mandatory_bytes: 1 << 26,
        l0_stall_files: 1_000_000,
        l0_stall_bytes: 1 << 40,
        max_compaction_files: 64,
        max_compaction_bytes: 1 << 29,
        gc_policy: "versions = 1".into(),
        sst_cache_bytes: cache,
        mani_rollover_ratio: 2,
    })
}

pub fn threaded_case(max_clients: usize, max_ops: usize) -> BoxedStrategy<ThreadedCase> {
    (threaded_config(), 2u8..9, prop::collection::vec(prop::collection::vec(cop_strategy(), 4..max_ops), 2..=max_clients), 1u8..3, prop::collection::vec(prop::collection::vec(any::<u8>(), 0..24), 8))
        .prop_map(|(config, nkeys, clients, compaction_threads, perturb)| ThreadedCase { config, nkeys, clients, compaction_threads, perturb })
        .boxed()
}

///////////////////////////////////////////// execution ////////////////////////////////////////////

pub struct RunResult {
    pub events: Vec<Event>,
    pub errors: Vec<String>,
    pub held_scan_mismatches: Vec<String>,
    pub stalled: Option<String>,
    pub timed_out: bool,
    pub flushes_seen: bool,
    pub overlapping_ops_on_one_key: bool,
    pub background_errors: Vec<String>,
}

struct Shared {
    clock: AtomicU64,
    next_val: AtomicU64,
    done_clients: AtomicU64,
    completed_ops: AtomicU64,
}

fn key_of(universe: &[Vec<u8>], k: u8) -> usize {
    gens::sel((k as u16) << 8, universe.len())
}

fn value_for(id: Val, sz: u8) -> Vec<u8> {
    // size classes 2.. are at least 10 bytes, enough to hold the "<id>" tag that identifies the write
    gens::value(id, sz.max(2))
}

fn id_of(v: &[u8]) -> Val {
    // values are "<id><id>…"; parse the first tag
    let s = String::from_utf8_lossy(v);
    s.trim_start_matches('<').split('>').next().and_then(|x| x.parse().ok()).unwrap_or(u32::MAX)
}

/// Run one threaded case against a fresh store.
pub fn run_case(ctx: &Ctx, c: &ThreadedCase) -> RunResult {
    use lsmtk::verif;
    verif::set_step_mode(false);
    verif::STOP.store(false, Ordering::SeqCst);
    *PERTURB.lock().unwrap() = c.perturb.clone();
    verif::set_yield_hook(Some(yield_hook));
    let root: PathBuf = ctx.fresh_dir("threads");
    let opts = c.config.options(&root.to_string_lossy());
    let universe = gens::universe(gens::KeyFamily::Dense, (c.nkeys as usize).max(1));
    let mut result = RunResult { events: vec![], errors: vec![], held_scan_mismatches: vec![], stalled: None, timed_out: false, flushes_seen: false, overlapping_ops_on_one_key: false, background_errors: vec![] };
    let kvs = match KeyValueStore::open(opts) {
        Ok(k) => Arc::new(k),
        Err(e) => {
            result.errors.push(format!("open failed: {e:?}"));
            return result;
        }
    };
    let shared = Arc::new(Shared { clock: AtomicU64::new(1), next_val: AtomicU64::new(1), done_clients: AtomicU64::new(0), completed_ops: AtomicU64::new(0) });
    let progress0 = verif::PROGRESS.load(Ordering::SeqCst);
    let nclients = c.clients.len();
    let mut background = vec![];
    {
        let k = Arc::clone(&kvs);
        let slot = nclients;
        background.push(std::thread::spawn(move || {
            set_slot(slot);
            k.memtable_thread().map_err(|e| format!("flush thread: {e:?}"))
        }));
    }
    for i in 0..c.compaction_threads as usize {
        let k = Arc::clone(&kvs);
        let slot = nclients + 1 + i;
        background.push(std::thread::spawn(move || {
            set_slot(slot);
            k.compaction_thread().map_err(|e| format!("compaction thread: {e:?}"))
        }));
    }
    let mut clients = vec![];
    for (ti, prog) in c.clients.iter().enumerate() {
        let k = Arc::clone(&kvs);
        let sh = Arc::clone(&shared);
        let prog = prog.clone();
        let universe = universe.clone();
        clients.push(std::thread::spawn(move || -> (Vec<Event>, Vec<String>, Vec<String>) {
            set_slot(ti);
            let mut events = vec![];
            let mut errors = vec![];
            let mut held_bad = vec![];
            // a held cursor: (cursor, snapshot taken by a plain scan right before/after? no —
            // the snapshot is what the cursor itself must keep returning: entries read so far must
            // be a prefix of the final walk's result, and the walk must be ordered and stable)
            let mut held: Option<(Box<dyn Cursor>, Vec<(Vec<u8>, Vec<u8>)>, u64, u64)> = None;
            let stamp = |sh: &Shared| sh.clock.fetch_add(1, Ordering::SeqCst);
            for op in prog.iter() {
                match op {
                    COp::Put { k: key, sz } => {
                        let ki = key_of(&universe, *key);
                        let id = sh.next_val.fetch_add(1, Ordering::SeqCst) as Val;
                        let inv = stamp(&sh);
                        let r = k.put(&universe[ki], &value_for(id, *sz));
                        let resp = stamp(&sh);
                        match r {
                            Ok(()) => events.push(Event { invoke: inv, response: resp, action: Action::Write(vec![(ki, id)]), thread: ti }),
                            Err(e) => errors.push(format!("put failed: {e:?}")),
                        }
                    }
                    COp::Del { k: key } => {
                        let ki = key_of(&universe, *key);
                        let inv = stamp(&sh);
                        let r = k.del(&universe[ki]);
                        let resp = stamp(&sh);
                        match r {
                            Ok(()) => events.push(Event { invoke: inv, response: resp, action: Action::Write(vec![(ki, 0)]), thread: ti }),
                            Err(e) => errors.push(format!("del failed: {e:?}")),
                        }
                    }
                    COp::Batch { items } => {
                        let mut wb = WriteBatch::with_capacity(items.len());
                        let mut ws: Vec<(usize, Val)> = vec![];
                        for (key, v) in items {
                            let ki = key_of(&universe, *key);
                            if ws.iter().any(|w| w.0 == ki) {
                                continue;
                            }
                            match v {
                                Some(sz) => {
                                    let id = sh.next_val.fetch_add(1, Ordering::SeqCst) as Val;
                                    wb.put(&universe[ki], &value_for(id, *sz));
                                    ws.push((ki, id));
                                }
                                None => {
                                    wb.del(&universe[ki]);
                                    ws.push((ki, 0));
                                }
                            }
                        }
                        let inv = stamp(&sh);
                        let r = k.write(wb);
                        let resp = stamp(&sh);
                        match r {
                            Ok(()) => events.push(Event { invoke: inv, response: resp, action: Action::Write(ws), thread: ti }),
                            Err(e) => errors.push(format!("batch failed: {e:?}")),
                        }
                    }
                    COp::RefusedBatch { k: key } => {
                        let ki = key_of(&universe, *key);
                        // a value nobody else writes: if any part of the refused batch became visible a
                        // later read returns an id that no recorded write produced
                        let id = sh.next_val.fetch_add(1, Ordering::SeqCst) as Val;
                        let mut wb = WriteBatch::with_capacity(2);
                        wb.put(&universe[ki], &value_for(id, 1));
                        wb.put(b"refused/oversize", &vec![b'V'; sst::MAX_VALUE_LEN + 1]);
                        // refused or not is C10's / the store's size contract, not judged here
                        let _ = k.write(wb);
                    }
                    COp::Get { k: key } => {
                        let ki = key_of(&universe, *key);
                        let mut tomb = false;
                        let inv = stamp(&sh);
                        let r = k.load(&universe[ki], &mut tomb);
                        let resp = stamp(&sh);
                        match r {
                            Ok(v) => events.push(Event { invoke: inv, response: resp, action: Action::Get(ki, v.map(|v| id_of(&v)).unwrap_or(0)), thread: ti }),
                            Err(e) => errors.push(format!("get failed: {e:?}")),
                        }
                    }
                    COp::Scan { lo, hi, mode } => {
                        let (a, b) = (key_of(&universe, *lo), key_of(&universe, *hi));
                        let (lo, hi) = (a.min(b), a.max(b) + 1);
                        let mode = *mode;
                        let inv = stamp(&sh);
                        let r = (|| -> Result<Vec<(usize, Val)>, String> {
                            // the universe is sorted, so "the key before lo" is universe[lo - 1]
                            let hi_bound = if hi < universe.len() { Bound::Excluded(universe[hi].clone()) } else { Bound::Unbounded };
                            let lo_bound = match mode {
                                2 => Bound::Unbounded,
                                3 if lo > 0 => Bound::Excluded(universe[lo - 1].clone()),
                                3 => Bound::Unbounded,
                                _ => Bound::Included(universe[lo].clone()),
                            };
                            let mut cur = k.range_scan::<Vec<u8>>(&lo_bound, &hi_bound).map_err(|e| format!("{e:?}"))?;
                            let backward = mode == 1;
                            match mode {
                                1 => cur.seek_to_last().map_err(|e| format!("{e:?}"))?,
                                2 => {
                                    // seek positions AT the first entry >= key; step back once so that
                                    // the loop's next() lands on it
                                    cur.seek(&universe[lo]).map_err(|e| format!("{e:?}"))?;
                                    cur.prev().map_err(|e| format!("{e:?}"))?;
                                }
                                _ => cur.seek_to_first().map_err(|e| format!("{e:?}"))?,
                            }
                            let mut out = vec![];
                            loop {
                                if backward { cur.prev() } else { cur.next() }.map_err(|e| format!("{e:?}"))?;
                                match cur.key_value() {
                                    Some(kv) => {
                                        let ki = universe.iter().position(|u| u.as_slice() == kv.key).ok_or_else(|| "scan returned an unknown key".to_string())?;
                                        out.push((ki, kv.value.map(id_of).unwrap_or(0)));
                                    }
                                    None => {
                                        if backward {
                                            out.reverse();
                                        }
                                        return Ok(out);
                                    }
                                }
                            }
                        })();
                        let resp = stamp(&sh);
                        match r {
                            Ok(got) => events.push(Event { invoke: inv, response: resp, action: Action::Scan(lo, hi, got), thread: ti }),
                            Err(e) => errors.push(format!("scan failed: {e}")),
                        }
                    }
                    COp::HeldScan { first } => {
                        if held.is_none() {
                            let inv = stamp(&sh);
                            // SAFETY: the cursor is dropped before this thread drops its Arc of the store
                            let s: &'static KeyValueStore = unsafe { &*(Arc::as_ptr(&k)) };
                            static UNBOUNDED: Bound<Vec<u8>> = Bound::Unbounded;
                            match s.range_scan::<Vec<u8>>(&UNBOUNDED, &UNBOUNDED) {
                                Ok(cur) => {
                                    let resp = stamp(&sh);
                                    let mut cur: Box<dyn Cursor> = Box::new(cur);
                                    let mut got = vec![];
                                    let _ = cur.seek_to_first();
                                    for _ in 0..*first {
                                        if cur.next().is_err() {
                                            errors.push("held cursor: next failed".into());
                                            break;
                                        }
                                        match cur.key_value() {
                                            Some(kv) => got.push((kv.key.to_vec(), kv.value.map(|v| v.to_vec()).unwrap_or_default())),
                                            None => break,
                                        }
                                    }
                                    held = Some((cur, got, inv, resp));
                                }
                                Err(e) => errors.push(format!("range_scan failed: {e:?}")),
                            }
                        }
                    }
                }
                sh.completed_ops.fetch_add(1, Ordering::SeqCst);
            }
            // finish the held cursor: re-walk from the start; it must return one ordered snapshot
            // that starts with what was read at the beginning, and that snapshot must be a state
            // the store could have had when the scan was opened (checked as a Scan event)
            if let Some((mut cur, first, inv, resp)) = held.take() {
                let walk = (|| -> Result<Vec<(Vec<u8>, Vec<u8>)>, String> {
                    cur.seek_to_first().map_err(|e| format!("{e:?}"))?;
                    let mut out = vec![];
                    loop {
                        cur.next().map_err(|e| format!("{e:?}"))?;
                        match cur.key_value() {
                            Some(kv) => out.push((kv.key.to_vec(), kv.value.map(|v| v.to_vec()).unwrap_or_default())),
                            None => return Ok(out),
                        }
                    }
                })();
                match walk {
                    Err(e) => held_bad.push(format!("a cursor held while the store moved failed: {e}")),
                    Ok(all) => {
                        // the same snapshot walked backwards
                        let back = (|| -> Result<Vec<(Vec<u8>, Vec<u8>)>, String> {
                            cur.seek_to_last().map_err(|e| format!("{e:?}"))?;
                            let mut out = vec![];
                            loop {
                                cur.prev().map_err(|e| format!("{e:?}"))?;
                                match cur.key_value() {
                                    Some(kv) => out.push((kv.key.to_vec(), kv.value.map(|v| v.to_vec()).unwrap_or_default())),
                                    None => {
                                        out.reverse();
                                        return Ok(out);
                                    }
                                }
                            }
                        })();
                        match back {
                            Err(e) => held_bad.push(format!("a cursor held while the store moved failed walking backwards: {e}")),
                            Ok(b) if b != all => held_bad.push(format!("a held cursor returned {:?} forwards but {:?} backwards", all.iter().map(|e| gens::show(&e.0)).collect::<Vec<_>>(), b.iter().map(|e| gens::show(&e.0)).collect::<Vec<_>>())),
                            Ok(_) => {}
                        }
                        if all.len() < first.len() || all[..first.len()] != first[..] {
                            held_bad.push(format!("a held cursor returned {:?} when opened but {:?} when walked again later", first.iter().map(|e| gens::show(&e.0)).collect::<Vec<_>>(), all.iter().map(|e| gens::show(&e.0)).collect::<Vec<_>>()));
                        }
                        if all.windows(2).any(|w| w[0].0 >= w[1].0) {
                            held_bad.push("a held cursor returned keys out of order".into());
                        }
                        let got: Vec<(usize, Val)> = all.iter().filter_map(|(key, v)| universe.iter().position(|u| u == key).map(|ki| (ki, id_of(v)))).collect();
                        // the snapshot belongs to the instant the scan was opened
                        events.push(Event { invoke: inv, response: resp, action: Action::Scan(0, universe.len(), got), thread: ti });
                    }
                }
                drop(cur);
            }
            sh.done_clients.fetch_add(1, Ordering::SeqCst);
            (events, errors, held_bad)
        }));
    }
    // supervise: exact stall detection (all background threads parked, no progress, clients not done)
    let t0 = Instant::now();
    let nbg = 1 + c.compaction_threads as u64;
    let mut last = (0u64, 0u64, 0u64);
    let mut same = 0;
    loop {
        if shared.done_clients.load(Ordering::SeqCst) as usize == nclients {
            break;
        }
        std::thread::sleep(Duration::from_millis(20));
        let snap = (verif::PROGRESS.load(Ordering::SeqCst), verif::NOTIFY_EPOCH.load(Ordering::SeqCst), shared.completed_ops.load(Ordering::SeqCst));
        let parked = verif::PARKED.load(Ordering::SeqCst);
        if snap == last && parked >= nbg {
            same += 1;
        } else {
            same = 0;
        }
        last = snap;
        if same >= 25 {
            result.stalled = Some(format!("clients are unfinished, all {nbg} background threads are parked on condition variables, and neither progress, notify nor completed-operation counters moved for 500 ms"));
            break;
        }
        if t0.elapsed() > Duration::from_secs(60) {
            result.timed_out = true;
            break;
        }
    }
    if result.stalled.is_none() && !result.timed_out {
        for cl in clients {
            match cl.join() {
                Ok((ev, er, hb)) => {
                    result.events.extend(ev);
                    result.errors.extend(er);
                    result.held_scan_mismatches.extend(hb);
                }
                Err(_) => result.errors.push("a client thread panicked".into()),
            }
        }
    }
    // tear down the background threads
    verif::STOP.store(true, Ordering::SeqCst);
    let t1 = Instant::now();
    let mut joined = 0;
    while joined < background.len() && t1.elapsed() < Duration::from_secs(20) {
        kvs.verif_wake_all();
        std::thread::sleep(Duration::from_millis(5));
        joined = background.iter().filter(|h| h.is_finished()).count();
    }
    if joined == background.len() && result.stalled.is_none() && !result.timed_out {
        for b in background {
            match b.join() {
                Ok(Ok(())) => {}
                Ok(Err(e)) => result.background_errors.push(e),
                Err(_) => result.background_errors.push("a background thread panicked".into()),
            }
        }
        drop(kvs);
        let _ = std::fs::remove_dir_all(&root);
    } else {
        // leak the threads and the store: the process ends soon
        result.timed_out = result.timed_out || result.stalled.is_none();
        std::mem::forget(background);
        std::mem::forget(kvs);
    }
    verif::set_yield_hook(None);
    result.flushes_seen = verif::PROGRESS.load(Ordering::SeqCst) > progress0;
    // two operations on one key that overlap in time?
    'outer: for (i, a) in result.events.iter().enumerate() {
        for b in result.events.iter().skip(i + 1) {
            if a.thread != b.thread && a.invoke < b.response && b.invoke < a.response {
                let keys = |e: &Event| -> Vec<usize> {
                    match &e.action {
                        Action::Write(w) => w.iter().map(|x| x.0).collect(),
                        Action::Get(k, _) => vec![*k],
                        Action::Scan(lo, hi, _) => (*lo..*hi).collect(),
                    }
                };
                let kb = keys(b);
                if keys(a).iter().any(|k| kb.contains(k)) {
                    result.overlapping_ops_on_one_key = true;
                    break 'outer;
                }
            }
        }
    }
    result
}

///////////////////////////////////////// C06 linearizability //////////////////////////////////////

pub struct Linearizability {
    pub name: &'static str,
}

impl Property for Linearizability {
    type Case = ThreadedCase;
    fn name(&self) -> String {
        self.name.into()
    }
    fn cases(&self, tier: Tier) -> u64 {
        tier.pick(700, 15000)
    }
    fn max_shrink_iters(&self) -> u32 {
        60
    }
    fn record_current(&self) -> bool {
        true
    }
    fn strategy(&self, _: &Ctx) -> BoxedStrategy<ThreadedCase> {
        threaded_case(4, 14)
    }
    fn run(&self, ctx: &Ctx, c: &ThreadedCase) -> Outcome {
        let runs = if ctx.replay { 30 } else { 1 };
        let mut o = Outcome::pass();
        for _ in 0..runs {
            o = judge(ctx, c);
            if o.failed() || o.inconclusive {
                break;
            }
        }
        o
    }
}

pub fn judge(ctx: &Ctx, c: &ThreadedCase) -> Outcome {
    let mut o = Outcome::pass();
    let r = run_case(ctx, c);
    if let Some(s) = r.stalled {
        // C06 / C07 are not liveness properties (C20 is), and KeyValueStore clients never park on a
        // store condition variable: "no client operation completed for 500 ms" may just be a slow
        // disk or a starved machine.  No verdict.
        let _ = s;
        o.inconclusive = true;
        o.label("no-client-progress-for-500ms");
        return o;
    }
    if r.timed_out {
        o.inconclusive = true;
        o.label("watchdog");
        return o;
    }
    if let Some(e) = r.errors.first() {
        o.fail("threads:op-error", format!("a fault-free client operation failed: {}", vcore::truncate(e, 400)));
        return o;
    }
    if let Some(e) = r.background_errors.first() {
        o.fail("threads:background-error", format!("a background thread failed: {}", vcore::truncate(e, 400)));
        return o;
    }
    if let Some(m) = r.held_scan_mismatches.first() {
        o.fail("threads:held-cursor-unstable", m.clone());
        return o;
    }
    o.nontrivial = r.overlapping_ops_on_one_key && r.flushes_seen;
    if r.flushes_seen {
        o.label("flush-or-compaction-during-history");
    }
    if r.overlapping_ops_on_one_key {
        o.label("overlapping-ops-on-one-key");
    }
    if r.events.iter().any(|e| matches!(&e.action, Action::Write(w) if w.len() >= 2)) {
        o.label("has-multi-key-batch");
    }
    let nkeys = gens::universe(gens::KeyFamily::Dense, (c.nkeys as usize).max(1)).len();
    if r.events.len() > 128 {
        o.inconclusive = true;
        return o;
    }
    match wgl::check(&r.events, nkeys, 2_000_000) {
        wgl::Verdict::Linearizable => {}
        wgl::Verdict::BudgetExceeded => {
            o.inconclusive = true;
            o.label("wgl-budget-exceeded");
        }
        wgl::Verdict::NotLinearizable { stuck_after: _, example } => {
            // classify: is a batch involved (atomic visibility) or only single-key operations?
            let batchy = r.events.iter().any(|e| matches!(&e.action, Action::Write(w) if w.len() >= 2));
            let sig = if batchy { "linearizability:violated:history-has-batches" } else { "linearizability:violated:single-key-ops-only" };
            o.fail(sig, format!("no total order of the {} recorded operations respects real time and the map semantics (batches atomic, scans atomic): {}", r.events.len(), vcore::truncate(&example, 900)));
        }
    }
    o
}

//////////////////////////////////////// C20 threaded stall ////////////////////////////////////////

#[derive(Clone, Debug, Serialize, Deserialize)]
pub struct IngestCase {
    pub stall_files: u8,
    pub mandatory_files: u8,
    pub max_compaction_files: u8,
    pub ingest_threads: u8,
    pub ssts_per_thread: u8,
    pub keys_per_sst: u8,
    pub nkeys: u8,
    pub compaction_threads: u8,
    pub key_sel: Vec<u8>,
    pub perturb: Vec<Vec<u8>>,
    /// number of overlapping files sunk into the tree (single-threaded, step mode) before the
    /// threads start, so that compaction outputs cannot simply trickle down by trivial moves
    #[serde(default)]
    pub prefill: u8,
    /// every ingested sst also contains the first key, so level-0 files always overlap
    #[serde(default)]
    pub common_key: bool,
}

pub struct ThreadedStall;

impl Property for ThreadedStall {
    type Case = IngestCase;
    fn name(&self) -> String {
        "threaded-stall".into()
    }
    fn cases(&self, tier: Tier) -> u64 {
        tier.pick(150, 4000)
    }
    fn max_shrink_iters(&self) -> u32 {
        40
    }
    fn record_current(&self) -> bool {
        true
    }
    fn strategy(&self, _: &Ctx) -> BoxedStrategy<IngestCase> {
        // max_compaction_files includes values below the stall threshold: since the repair of R-P
        // (2806f7c) the level-0 compaction that lifts a stall is not refused for exceeding it
        (1u8..5, 0u8..3, prop_oneof![2 => Just(2u8), 2 => Just(3u8), 1 => Just(5u8), 2 => Just(32u8), 2 => Just(64u8)], 1u8..5, 2u8..10, 1u8..5, 4u8..20, 1u8..4, prop::collection::vec(any::<u8>(), 64), prop::collection::vec(prop::collection::vec(any::<u8>(), 0..16), 8), (prop_oneof![2 => Just(0u8), 1 => 1u8..8, 3 => 14u8..20], any::<bool>()))
            .prop_map(|(mandatory_files, extra, max_compaction_files, ingest_threads, ssts_per_thread, keys_per_sst, nkeys, compaction_threads, key_sel, perturb, (prefill, common_key))| IngestCase {
                prefill,
                common_key,
                stall_files: mandatory_files + extra,
                mandatory_files,
                max_compaction_files,
                ingest_threads,
                ssts_per_thread,
                keys_per_sst,
                nkeys,
                compaction_threads,
                key_sel,
                perturb,
            })
            .boxed()
    }
    fn run(&self, ctx: &Ctx, c: &IngestCase) -> Outcome {
        let runs = if ctx.replay { 20 } else { 1 };
        let mut o = Outcome::pass();
        for _ in 0..runs {
            o = run_ingest(ctx, c);
            if o.failed() || o.inconclusive {
                break;
            }
        }
        o
    }
}

fn run_ingest(ctx: &Ctx, c: &IngestCase) -> Outcome {
    use lsmtk::verif;
    let mut o = Outcome::pass();
    let mut files_broken: Option<String> = None;
    verif::set_step_mode(false);
    verif::STOP.store(false, Ordering::SeqCst);
    *PERTURB.lock().unwrap() = c.perturb.clone();
    verif::set_yield_hook(Some(yield_hook));
    let root: PathBuf = ctx.fresh_dir("ingest");
    let cfg = StoreConfig {
        bloom_bits: 17,
        memtable_size: 1 << 20,
        target_file_size: 4096,
        minimum_file_size: 4096,
        target_block_size: 4096,
        bytes_ri: 1024,
        pairs_ri: 16,
        l0_mandatory_files: c.mandatory_files as u64,
        l0_mandatory_bytes: 1 << 26,
        l0_stall_files: c.stall_files as u64,
        l0_stall_bytes: 1 << 40,
        max_compaction_files: c.max_compaction_files as u64,
        max_compaction_bytes: 1 << 29,
        gc_policy: "versions = 1".into(),
        sst_cache_bytes: 1 << 26,
        mani_rollover_ratio: 2,
    };
    // threads leaked by an earlier timed-out case of this worker stay parked for ever: baseline
    let parked_before_case = verif::PARKED.load(Ordering::SeqCst);
    let tree = match LsmTree::open(cfg.options(&root.to_string_lossy())) {
        Ok(t) => Arc::new(t),
        Err(e) => {
            o.fail("threads:open-error", format!("{e:?}"));
            return o;
        }
    };
    let universe = gens::universe(gens::KeyFamily::Dense, (c.nkeys as usize).max(1));
    let ts = Arc::new(AtomicU64::new(1));
    // prefill: sink overlapping files one by one (step mode, single-threaded)
    if c.prefill > 0 {
        verif::set_step_mode(true);
        for i in 0..c.prefill as usize {
            let path = root.join("ingest").join(format!("prefill-{i}.sst"));
            let base = ts.fetch_add(3, Ordering::SeqCst);
            let built = (|| -> Result<(), String> {
                let mut b = sst::SstBuilder::new(sst::SstOptions::default(), &path).map_err(|e| format!("{e:?}"))?;
                let other = 1 + i % (universe.len().max(2) - 1);
                b.put(&universe[0], base, b"prefill").map_err(|e| format!("{e:?}"))?;
                if other < universe.len() {
                    b.put(&universe[other], base + 1, b"prefill").map_err(|e| format!("{e:?}"))?;
                }
                b.seal().map_err(|e| format!("{e:?}"))?;
                Ok(())
            })();
            if built.is_err() {
                break;
            }
            // never ingest into a stalled tree while single-threaded
            let mut guard = 0;
            while tree.verif_should_stall() && guard < 64 {
                let _ = tree.compaction_thread();
                guard += 1;
            }
            if tree.verif_should_stall() || tree.ingest(&path).is_err() {
                break;
            }
            let _ = std::fs::remove_file(&path);
            for _ in 0..64 {
                if tree.compaction_thread().is_err() || verif::last_idle() {
                    break;
                }
            }
        }
        verif::set_step_mode(false);
    }
    let done = Arc::new(AtomicU64::new(0));
    let ingested = Arc::new(AtomicU64::new(0));
    let failed = Arc::new(Mutex::new(Vec::<String>::new()));
    let stalls_seen = Arc::new(AtomicBool::new(false));
    let stalls0 = verif::INGEST_STALLS.load(Ordering::SeqCst);
    let mut bg = vec![];
    for i in 0..c.compaction_threads as usize {
        let t = Arc::clone(&tree);
        let slot = c.ingest_threads as usize + i;
        bg.push(std::thread::spawn(move || {
            set_slot(slot);
            t.compaction_thread().map_err(|e| format!("{e:?}"))
        }));
    }
    let mut ing = vec![];
    for ti in 0..c.ingest_threads as usize {
        let t = Arc::clone(&tree);
        let (done, ingested, failed, ts) = (Arc::clone(&done), Arc::clone(&ingested), Arc::clone(&failed), Arc::clone(&ts));
        let universe = universe.clone();
        let c2 = c.clone();
        let dir = root.join("ingest");
        ing.push(std::thread::spawn(move || {
            set_slot(ti);
            for si in 0..c2.ssts_per_thread as usize {
                let mut keys: Vec<usize> = (0..c2.keys_per_sst as usize).map(|j| gens::sel((c2.key_sel[(ti * 17 + si * 5 + j) % c2.key_sel.len()] as u16) << 8, universe.len())).collect();
                if c2.common_key {
                    keys.push(0);
                }
                keys.sort();
                keys.dedup();
                let base = ts.fetch_add(keys.len() as u64 + 1, Ordering::SeqCst);
                let path = dir.join(format!("t{ti}-{si}.sst"));
                let _ = std::fs::remove_file(&path);
                let build = (|| -> Result<(), String> {
                    let mut b = sst::SstBuilder::new(sst::SstOptions::default(), &path).map_err(|e| format!("{e:?}"))?;
                    for (j, k) in keys.iter().enumerate() {
                        b.put(&universe[*k], base + j as u64, format!("v{ti}-{si}-{j}").as_bytes()).map_err(|e| format!("{e:?}"))?;
                    }
                    b.seal().map_err(|e| format!("{e:?}"))?;
                    Ok(())
                })();
                if let Err(e) = build {
                    failed.lock().unwrap().push(format!("harness: building an sst failed: {e}"));
                    break;
                }
                match t.ingest(&path) {
                    Ok(()) => {
                        ingested.fetch_add(1, Ordering::SeqCst);
                    }
                    Err(e) => {
                        failed.lock().unwrap().push(format!("ingest failed: {e:?}"));
                        break;
                    }
                }
                let _ = std::fs::remove_file(&path);
            }
            done.fetch_add(1, Ordering::SeqCst);
        }));
    }
    let nthreads = c.ingest_threads as u64 + c.compaction_threads as u64;
    let t0 = Instant::now();
    let mut last = (0u64, 0u64, 0u64);
    let mut same = 0;
    let mut stalled = None;
    let mut timed_out = false;
    loop {
        if done.load(Ordering::SeqCst) == c.ingest_threads as u64 {
            break;
        }
        std::thread::sleep(Duration::from_millis(20));
        if tree.verif_should_stall() {
            stalls_seen.store(true, Ordering::SeqCst);
        }
        let snap = (verif::PROGRESS.load(Ordering::SeqCst), verif::NOTIFY_EPOCH.load(Ordering::SeqCst), ingested.load(Ordering::SeqCst));
        let parked = verif::PARKED.load(Ordering::SeqCst).saturating_sub(parked_before_case);
        let live = nthreads - done.load(Ordering::SeqCst);
        if snap == last && parked >= live {
            same += 1;
        } else {
            same = 0;
        }
        last = snap;
        // 3 s without any notify: a thread that WAS notified has had ample time to be scheduled
        if same >= 150 {
            stalled = Some(format!("{} ingest threads are unfinished, every live store thread ({live}) is parked on a condition variable, and no progress or notify happened for 3 s; L0 stalled: {}", c.ingest_threads as u64 - done.load(Ordering::SeqCst), tree.verif_should_stall()));
            break;
        }
        if t0.elapsed() > Duration::from_secs(60) {
            timed_out = true;
            break;
        }
    }
    verif::STOP.store(true, Ordering::SeqCst);
    let t1 = Instant::now();
    let mut all_done = false;
    while t1.elapsed() < Duration::from_secs(20) {
        tree.verif_wake_all();
        std::thread::sleep(Duration::from_millis(5));
        if bg.iter().all(|h| h.is_finished()) && ing.iter().all(|h| h.is_finished()) {
            all_done = true;
            break;
        }
    }
    verif::set_yield_hook(None);
    let mut bg_errors = vec![];
    if all_done {
        for h in ing {
            let _ = h.join();
        }
        for h in bg {
            match h.join() {
                Ok(Ok(())) => {}
                Ok(Err(e)) => bg_errors.push(e),
                Err(_) => bg_errors.push("compaction thread panicked".into()),
            }
        }
        drop(tree);
        // C08 at quiescence: every sst the committed manifest lists is in sst/ (a race between a
        // compaction and an ingest that installs versions out of order retires live files), and the
        // directory opens again
        if let Some(listed) = crate::manifest::listed_ssts_tolerant(&root) {
            let missing: Vec<&String> = listed.iter().filter(|d| !root.join("sst").join(format!("{d}.sst")).exists()).collect();
            if let Some(d) = missing.first() {
                files_broken = Some(format!("after {} threads ingested and {} compaction threads ran, the MANIFEST lists sst {d}, which is not in sst/ (trash has it: {}); {} listed, {} missing", c.ingest_threads, c.compaction_threads, root.join("trash").join(format!("{d}.sst")).exists(), listed.len(), missing.len()));
            } else {
                o.label("quiescent:every-listed-sst-present");
                let opts = cfg.options(&root.to_string_lossy());
                match vcore::guard(|| lsmtk::LsmTree::open(opts).map(|t| drop(t))) {
                    Ok(Ok(())) => o.label("quiescent:reopens"),
                    Ok(Err(e)) => files_broken = Some(format!("after the threads finished without an error the directory does not open again: {}", vcore::truncate(&format!("{e:?}"), 300))),
                    Err(f) => files_broken = Some(format!("reopening after the threads finished panicked: {}", f.message)),
                }
            }
        }
        let _ = std::fs::remove_dir_all(&root);
    } else {
        std::mem::forget(bg);
        std::mem::forget(ing);
        std::mem::forget(tree);
        timed_out = true;
    }
    o.nontrivial = stalls_seen.load(Ordering::SeqCst) || verif::INGEST_STALLS.load(Ordering::SeqCst) > stalls0;
    if o.nontrivial {
        o.label("l0-reached-stall-threshold");
    }
    if let Some(s) = stalled {
        o.fail("threads:stall-all-parked", s);
    } else if timed_out {
        o.inconclusive = true;
        o.label("watchdog");
    } else if let Some(e) = failed.lock().unwrap().iter().find(|e| !e.contains("verif: stopped")) {
        o.fail(if e.starts_with("harness:") { "harness:cannot-build-input" } else { "threads:op-error" }, vcore::truncate(e, 400));
    } else if let Some(e) = bg_errors.first() {
        o.fail("threads:background-error", vcore::truncate(e, 400));
    } else if let Some(m) = files_broken {
        // what the files look like is C08's business; under C20 it is recorded
        if ctx.prop == "C08" {
            o.fail("threads:listed-sst-missing-or-unopenable", m);
        } else {
            o.label("quiescent:files-broken(not-judged-here)");
        }
    }
    o
}

/// The same engine under C08: several threads ingest while compaction threads merge and retire
/// files; judged at quiescence by the files (see run_ingest).
pub struct ThreadedFiles;

impl Property for ThreadedFiles {
    type Case = IngestCase;
    fn name(&self) -> String {
        "threaded-files".into()
    }
    fn cases(&self, tier: Tier) -> u64 {
        tier.pick(120, 3000)
    }
    fn max_shrink_iters(&self) -> u32 {
        40
    }
    fn record_current(&self) -> bool {
        true
    }
    fn strategy(&self, ctx: &Ctx) -> BoxedStrategy<IngestCase> {
        ThreadedStall.strategy(ctx)
    }
    fn run(&self, ctx: &Ctx, c: &IngestCase) -> Outcome {
        let runs = if ctx.replay { 20 } else { 1 };
        let mut o = Outcome::pass();
        for _ in 0..runs {
            o = run_ingest(ctx, c);
            // a stall or a client error is C20's / C06's verdict, not this part's
            if let Some(f) = &o.failure {
                let file_gone = f.signature == "threads:background-error" && (f.message.contains("NotFound") || f.message.contains("No such file"));
                if f.signature == "threads:background-error" && !file_gone {
                    // a background thread failed for another reason (no space, too many open files ...)
                    o.failure = None;
                    o.inconclusive = true;
                    o.label("background-error-other-than-a-missing-file");
                } else if f.signature != "threads:listed-sst-missing-or-unopenable" && !f.signature.starts_with("panic@") && !file_gone {
                    o.failure = None;
                    o.label("other-verdict-left-to-its-own-check");
                }
            }
            if o.failed() || o.inconclusive {
                break;
            }
        }
        o.nontrivial = true;
        o
    }
}

///////////////////////////////////////// C20 exact wake-ups ////////////////////////////////////////

/// Two scenarios in which exactly one store thread is parked on a condition variable and every
/// other actor is the harness itself, so "still parked after the event that should wake it" is an
/// exact lost-wake-up verdict rather than a timing guess:
///   Y: an ingest thread is parked because level 0 is at the stall threshold; the harness applies
///      compaction steps (step mode) until level 0 is relieved; the ingest must then complete.
///   X: a compaction thread is parked for lack of work; the harness ingests files until level 0
///      reaches the mandatory-compaction threshold; the compaction thread must then run.
#[derive(Clone, Debug, Serialize, Deserialize)]
pub struct WakeCase {
    pub stall_files: u8,
    pub mandatory_files: u8,
    pub nkeys: u8,
    pub files: u8,
    pub key_sel: Vec<u8>,
    /// compaction steps the harness runs between ingests in scenario Y
    pub steps_between: Vec<u8>,
    /// overlapping files sunk into the tree first (each followed by compaction steps until idle):
    /// with all levels occupied a stalled level 0 can only be relieved by a merge, not by the
    /// trivial moves the selector otherwise prefers
    #[serde(default)]
    pub prefill: u8,
    /// max_compaction_bytes = 8192 with ~6 KB files: merges between deeper levels are refused (the
    /// byte limit does not apply to level-0 compactions), so overlapping files pile up one per level
    #[serde(default)]
    pub tight_bytes: bool,
}

pub struct Wakeups;

fn build_sst(path: &std::path::Path, universe: &[Vec<u8>], keys: &[usize], base_ts: u64, tag: &str) -> Result<(), String> {
    build_sst_sized(path, universe, keys, base_ts, tag, 0)
}

fn build_sst_sized(path: &std::path::Path, universe: &[Vec<u8>], keys: &[usize], base_ts: u64, tag: &str, pad: usize) -> Result<(), String> {
    let _ = std::fs::remove_file(path);
    let mut b = sst::SstBuilder::new(sst::SstOptions::default(), path).map_err(|e| format!("{e:?}"))?;
    for (j, k) in keys.iter().enumerate() {
        let mut v = format!("{tag}-{j}").into_bytes();
        v.resize(v.len() + pad, b'.');
        b.put(&universe[*k], base_ts + j as u64, &v).map_err(|e| format!("{e:?}"))?;
    }
    b.seal().map_err(|e| format!("{e:?}"))?;
    Ok(())
}

fn wake_cfg(c: &WakeCase, stall: u64) -> StoreConfig {
    StoreConfig {
        bloom_bits: 17,
        memtable_size: 1 << 20,
        target_file_size: 4096,
        minimum_file_size: 4096,
        target_block_size: 4096,
        bytes_ri: 1024,
        pairs_ri: 16,
        l0_mandatory_files: c.mandatory_files.max(1) as u64,
        l0_mandatory_bytes: 1 << 26,
        l0_stall_files: stall,
        l0_stall_bytes: 1 << 40,
        max_compaction_files: 64,
        max_compaction_bytes: if c.tight_bytes { 8192 } else { 1 << 29 },
        gc_policy: "versions = 1".into(),
        sst_cache_bytes: 1 << 26,
        mani_rollover_ratio: 2,
    }
}

fn keys_for(c: &WakeCase, universe: &[Vec<u8>], i: usize) -> Vec<usize> {
    // every file holds the first key, so level-0 files overlap and are relieved by merges
    let mut keys = vec![0usize];
    for j in 0..2 {
        keys.push(gens::sel((c.key_sel[(i * 3 + j) % c.key_sel.len()] as u16) << 8, universe.len()));
    }
    keys.sort();
    keys.dedup();
    keys
}

fn wait_until(mut f: impl FnMut() -> bool, limit: Duration) -> bool {
    let t0 = Instant::now();
    while t0.elapsed() < limit {
        if f() {
            return true;
        }
        std::thread::sleep(Duration::from_millis(1));
    }
    f()
}

impl Property for Wakeups {
    type Case = WakeCase;
    fn name(&self) -> String {
        "exact-wakeups".into()
    }
    fn cases(&self, tier: Tier) -> u64 {
        tier.pick(40, 1000)
    }
    fn max_shrink_iters(&self) -> u32 {
        30
    }
    fn record_current(&self) -> bool {
        true
    }
    fn strategy(&self, _: &Ctx) -> BoxedStrategy<WakeCase> {
        (1u8..4, 0u8..2, 3u8..10, 4u8..14, prop::collection::vec(any::<u8>(), 32), prop::collection::vec(0u8..4, 16), prop_oneof![2 => Just(0u8), 1 => 1u8..15, 4 => 15u8..20], prop::bool::weighted(0.6))
            .prop_map(|(mandatory_files, extra, nkeys, files, key_sel, steps_between, prefill, tight_bytes)| WakeCase { stall_files: mandatory_files + extra, mandatory_files, nkeys, files, key_sel, steps_between, prefill, tight_bytes })
            .boxed()
    }
    fn run(&self, ctx: &Ctx, c: &WakeCase) -> Outcome {
        use lsmtk::verif;
        let mut o = Outcome::pass();
        let universe = gens::universe(gens::KeyFamily::Dense, (c.nkeys as usize).max(2));
        verif::set_yield_hook(None);
        verif::STOP.store(false, Ordering::SeqCst);

        // ---- scenario Y: a parked ingest must be woken by the compaction that relieves level 0
        {
            verif::set_step_mode(true);
            let root = ctx.fresh_dir("wake-y");
            let tree = match LsmTree::open(wake_cfg(c, c.stall_files.max(1) as u64).options(&root.to_string_lossy())) {
                Ok(t) => Arc::new(t),
                Err(e) => {
                    o.fail("threads:open-error", format!("{e:?}"));
                    return o;
                }
            };
            let mut ts = 1u64;
            let mut relieved_waits = 0;
            let mut relieved_by_merge = 0;
            for i in 0..c.prefill as usize {
                let path = root.join("ingest").join(format!("prefill-{i}.sst"));
                let keys = keys_for(c, &universe, 1000 + i);
                if build_sst_sized(&path, &universe, &keys, ts, &format!("p{i}"), if c.tight_bytes { 2600 } else { 0 }).is_err() {
                    break;
                }
                ts += keys.len() as u64 + 1;
                let mut guard = 0;
                while tree.verif_should_stall() && guard < 200 {
                    let _ = tree.compaction_thread();
                    guard += 1;
                }
                if tree.verif_should_stall() || tree.ingest(&path).is_err() {
                    break;
                }
                let _ = std::fs::remove_file(&path);
                for _ in 0..200 {
                    if tree.compaction_thread().is_err() || verif::last_idle() {
                        break;
                    }
                }
            }
            'files: for i in 0..c.files as usize {
                let path = root.join("ingest").join(format!("y-{i}.sst"));
                let keys = keys_for(c, &universe, i);
                if build_sst_sized(&path, &universe, &keys, ts, &format!("y{i}"), if c.tight_bytes { 2600 } else { 0 }).is_err() {
                    break;
                }
                ts += keys.len() as u64 + 1;
                if !tree.verif_should_stall() {
                    if let Err(e) = tree.ingest(&path) {
                        o.fail("threads:op-error", format!("ingest failed: {e:?}"));
                        break;
                    }
                } else {
                    let parked0 = verif::PARKED.load(Ordering::SeqCst);
                    let t = Arc::clone(&tree);
                    let p = path.clone();
                    let a = std::thread::spawn(move || t.ingest(&p).map_err(|e| format!("{e:?}")));
                    if !wait_until(|| verif::PARKED.load(Ordering::SeqCst) > parked0 || a.is_finished(), Duration::from_secs(3)) {
                        o.inconclusive = true;
                        std::mem::forget(a);
                        break;
                    }
                    // relieve level 0 with harness-driven compaction steps
                    let bound = lsmtk::NUM_LEVELS * 40;
                    let mut relieved = false;
                    let mut last_kind = 0;
                    for _ in 0..bound {
                        if !tree.verif_should_stall() {
                            relieved = true;
                            break;
                        }
                        if tree.compaction_thread().is_err() || verif::last_idle() {
                            break;
                        }
                        last_kind = verif::last_kind();
                    }
                    if relieved && last_kind != verif::KIND_TRIVIAL_MOVE {
                        relieved_by_merge += 1;
                    }
                    if !relieved {
                        // the selector is idle while stalled: the deterministic part owns that
                        verif::STOP.store(true, Ordering::SeqCst);
                        tree.verif_wake_all();
                        let _ = a.join();
                        verif::STOP.store(false, Ordering::SeqCst);
                        o.label("selector-idle-while-stalled");
                        break 'files;
                    }
                    // level 0 is below the threshold, nobody else runs: the ingest must complete
                    // (a woken thread needs microseconds; the generous limit only guards against a
                    // machine so loaded that a runnable thread is not scheduled for seconds)
                    if !wait_until(|| a.is_finished(), Duration::from_secs(12)) {
                        let still_parked = verif::PARKED.load(Ordering::SeqCst) > parked0;
                        if still_parked && !tree.verif_should_stall() {
                            o.fail("wakeup:ingest-not-woken", format!("an ingest parked on the write stall is still parked 12 s after the compaction that brought level 0 below the stall threshold was applied, and no other store thread exists (stall threshold {} files)", c.stall_files));
                        } else {
                            o.inconclusive = true;
                        }
                        verif::STOP.store(true, Ordering::SeqCst);
                        tree.verif_wake_all();
                        let _ = a.join();
                        verif::STOP.store(false, Ordering::SeqCst);
                        break 'files;
                    }
                    match a.join() {
                        Ok(Ok(())) => relieved_waits += 1,
                        Ok(Err(e)) => {
                            o.fail("threads:op-error", format!("a stalled ingest failed after being woken: {e}"));
                            break 'files;
                        }
                        Err(_) => {
                            o.fail("threads:op-error", "ingest thread panicked".to_string());
                            break 'files;
                        }
                    }
                }
                let _ = std::fs::remove_file(&path);
                for _ in 0..c.steps_between[i % c.steps_between.len()] {
                    let _ = tree.compaction_thread();
                }
            }
            if relieved_waits > 0 {
                o.label("parked-ingest-woken-by-compaction");
                o.nontrivial = true;
            }
            if relieved_by_merge > 0 {
                o.label("relieving-compaction-was-a-merge-or-gc");
            }
            drop(tree);
            let _ = std::fs::remove_dir_all(&root);
            if o.failed() || o.inconclusive {
                verif::set_step_mode(false);
                return o;
            }
        }

        // ---- scenario X: a parked compaction thread must be woken by the ingest that creates work
        {
            verif::set_step_mode(false);
            let root = ctx.fresh_dir("wake-x");
            let tree = match LsmTree::open(wake_cfg(c, 1_000_000).options(&root.to_string_lossy())) {
                Ok(t) => Arc::new(t),
                Err(e) => {
                    o.fail("threads:open-error", format!("{e:?}"));
                    return o;
                }
            };
            let parked0 = verif::PARKED.load(Ordering::SeqCst);
            let t = Arc::clone(&tree);
            let b = std::thread::spawn(move || t.compaction_thread().map_err(|e| format!("{e:?}")));
            let quiescent = |limit: Duration| -> bool {
                // parked, and no progress for 20 ms
                let mut last = verif::PROGRESS.load(Ordering::SeqCst);
                let mut stable = Instant::now();
                wait_until(
                    || {
                        let p = verif::PROGRESS.load(Ordering::SeqCst);
                        if p != last {
                            last = p;
                            stable = Instant::now();
                        }
                        verif::PARKED.load(Ordering::SeqCst) > parked0 && stable.elapsed() > Duration::from_millis(20)
                    },
                    limit,
                )
            };
            let mut ts = 1u64;
            let mut woken = 0;
            if quiescent(Duration::from_secs(3)) {
                for i in 0..c.files as usize {
                    let path = root.join("ingest").join(format!("x-{i}.sst"));
                    let keys = keys_for(c, &universe, i);
                    if build_sst(&path, &universe, &keys, ts, &format!("x{i}")).is_err() {
                        break;
                    }
                    ts += keys.len() as u64 + 1;
                    let before = verif::PROGRESS.load(Ordering::SeqCst);
                    if let Err(e) = tree.ingest(&path) {
                        o.fail("threads:op-error", format!("ingest failed: {e:?}"));
                        break;
                    }
                    let _ = std::fs::remove_file(&path);
                    let l0 = tree.verif_levels()[0].len();
                    // one file MORE than the threshold: compaction is mandatory whether the store reads
                    // "maximum number of files permitted before compaction becomes mandatory" as >= or >
                    if l0 > c.mandatory_files.max(1) as usize {
                        // the ingest itself counts as one progress event; the compaction thread
                        // must add another
                        if !wait_until(|| verif::PROGRESS.load(Ordering::SeqCst) > before + 1, Duration::from_secs(12)) {
                            if verif::PARKED.load(Ordering::SeqCst) > parked0 && tree.verif_levels()[0].len() > c.mandatory_files.max(1) as usize {
                                o.fail("wakeup:compaction-not-woken", format!("the compaction thread is still parked 12 s after an ingest brought level 0 to {} files (mandatory threshold {}), and no other store thread exists", l0, c.mandatory_files));
                            } else {
                                o.inconclusive = true;
                            }
                            break;
                        }
                        woken += 1;
                    }
                    if !quiescent(Duration::from_secs(10)) {
                        o.inconclusive = true;
                        break;
                    }
                }
            } else {
                o.inconclusive = true;
            }
            if woken > 0 {
                o.label("parked-compaction-thread-woken-by-ingest");
            }
            verif::STOP.store(true, Ordering::SeqCst);
            let ok = wait_until(
                || {
                    tree.verif_wake_all();
                    b.is_finished()
                },
                Duration::from_secs(10),
            );
            if ok {
                if let Ok(Err(e)) = b.join() {
                    if !o.failed() {
                        o.fail("threads:background-error", vcore::truncate(&e, 300));
                    }
                }
                drop(tree);
                let _ = std::fs::remove_dir_all(&root);
            } else {
                std::mem::forget(b);
                std::mem::forget(tree);
                o.inconclusive = true;
            }
            verif::STOP.store(false, Ordering::SeqCst);
        }
        o
    }
}

/////////////////////////////////// C20: writers behind a rejected write //////////////////////////////

/// Client threads against one KeyValueStore: writers that put small values, and "rejecters" that
/// submit batches the store must refuse (a value or key over the documented maximum, handed in
/// through WriteBatch + write, which checks sizes only after the write took its place in the
/// writers' queue).  A refused batch is an explicit error; every other client must still finish.
/// A fixed amount of work per thread, no time limits in the clients; the verdict "parked for ever"
/// is exact: every unfinished client is in an untimed futex wait, with unchanged context-switch
/// counts over three snapshots, and no client call has completed in between.
#[derive(Clone, Debug, Serialize, Deserialize)]
pub struct RejectCase {
    pub writers: u8,
    pub rejecters: u8,
    pub puts_per_writer: u16,
    pub rejects_per_rejecter: u16,
    /// true: oversize key, false: oversize value
    pub big_key: bool,
    pub batch_keys: u8,
}

pub struct RejectedWrites;

fn in_untimed_futex_wait(syscall_line: &str) -> bool {
    let toks: Vec<&str> = syscall_line.split_whitespace().collect();
    if toks.len() < 5 {
        return false;
    }
    let Ok(nr) = toks[0].parse::<i64>() else { return false };
    if nr != libc::SYS_futex as i64 {
        return false;
    }
    let hex = |s: &str| u64::from_str_radix(s.trim_start_matches("0x"), 16).ok();
    let (Some(op), Some(timeout)) = (hex(toks[2]), hex(toks[4])) else { return false };
    let cmd = op & 0x7f;
    (cmd == libc::FUTEX_WAIT as u64 || cmd == libc::FUTEX_WAIT_BITSET as u64) && timeout == 0
}

fn ctx_switches(tid: i64) -> Option<(char, u64, u64)> {
    let s = std::fs::read_to_string(format!("/proc/self/task/{tid}/status")).ok()?;
    let (mut state, mut vol, mut invol) = (None, None, None);
    for l in s.lines() {
        if let Some(r) = l.strip_prefix("State:") {
            state = r.trim().chars().next();
        } else if let Some(r) = l.strip_prefix("voluntary_ctxt_switches:") {
            vol = r.trim().parse().ok();
        } else if let Some(r) = l.strip_prefix("nonvoluntary_ctxt_switches:") {
            invol = r.trim().parse().ok();
        }
    }
    Some((state?, vol?, invol?))
}

impl Property for RejectedWrites {
    type Case = RejectCase;
    fn name(&self) -> String {
        "rejected-writes".into()
    }
    fn cases(&self, tier: Tier) -> u64 {
        tier.pick(30, 800)
    }
    fn max_shrink_iters(&self) -> u32 {
        10
    }
    fn record_current(&self) -> bool {
        true
    }
    fn strategy(&self, _: &Ctx) -> BoxedStrategy<RejectCase> {
        (1u8..5, 1u8..4, 50u16..400, 20u16..200, any::<bool>(), 1u8..4)
            .prop_map(|(writers, rejecters, puts_per_writer, rejects_per_rejecter, big_key, batch_keys)| RejectCase { writers, rejecters, puts_per_writer, rejects_per_rejecter, big_key, batch_keys })
            .boxed()
    }
    fn run(&self, ctx: &Ctx, c: &RejectCase) -> Outcome {
        use std::sync::atomic::{AtomicI64, AtomicU64};
        let mut o = Outcome::pass();
        lsmtk::verif::set_step_mode(false);
        lsmtk::verif::STOP.store(false, Ordering::SeqCst);
        lsmtk::verif::set_yield_hook(None);
        let root = ctx.fresh_dir("rejects");
        // a memtable that never fills: no flush thread is needed, every thread of the case is a client
        let (opts, _) = { use arrrg::CommandLine; lsmtk::LsmtkOptions::from_arguments_relaxed("x", &["--path", &root.to_string_lossy(), "--memtable-size-bytes", "1073741824"]) };
        let kvs = match KeyValueStore::open(opts) {
            Ok(k) => Arc::new(k),
            Err(e) => {
                o.inconclusive = true;
                o.label(format!("harness:open:{}", vcore::truncate(&format!("{e:?}"), 60)));
                return o;
            }
        };
        let n = (c.writers + c.rejecters) as usize;
        const NOT_STARTED: i64 = -1;
        const DONE: i64 = -2;
        let slots: Arc<Vec<AtomicI64>> = Arc::new((0..n).map(|_| AtomicI64::new(NOT_STARTED)).collect());
        let progress = Arc::new(AtomicU64::new(0));
        let errors: Arc<Mutex<Vec<String>>> = Arc::new(Mutex::new(vec![]));
        let accepted_oversize = Arc::new(AtomicU64::new(0));
        let mut hs = vec![];
        for t in 0..n {
            let (kvs, slots, progress, errors, accepted) = (Arc::clone(&kvs), Arc::clone(&slots), Arc::clone(&progress), Arc::clone(&errors), Arc::clone(&accepted_oversize));
            let c = c.clone();
            hs.push(std::thread::spawn(move || {
                slots[t].store(unsafe { libc::syscall(libc::SYS_gettid) } as i64, Ordering::SeqCst);
                if t < c.writers as usize {
                    for i in 0..c.puts_per_writer {
                        let mut wb = WriteBatch::with_capacity(c.batch_keys as usize);
                        for j in 0..c.batch_keys {
                            wb.put(format!("w{t}-{}-{j}", i % 8).as_bytes(), format!("v{i}").as_bytes());
                        }
                        if let Err(e) = kvs.write(wb) {
                            errors.lock().unwrap().push(format!("a well-formed batch of writer {t} failed: {e:?}"));
                            break;
                        }
                        progress.fetch_add(1, Ordering::SeqCst);
                    }
                } else {
                    let big_key = vec![b'K'; sst::MAX_KEY_LEN + 1];
                    let big_val = vec![b'V'; sst::MAX_VALUE_LEN + 1];
                    for _ in 0..c.rejects_per_rejecter {
                        let mut wb = WriteBatch::with_capacity(2);
                        wb.put(b"fine", b"x");
                        if c.big_key {
                            wb.put(&big_key, b"x");
                        } else {
                            wb.put(b"big", &big_val);
                        }
                        if kvs.write(wb).is_ok() {
                            accepted.fetch_add(1, Ordering::SeqCst);
                        }
                        progress.fetch_add(1, Ordering::SeqCst);
                    }
                }
                slots[t].store(DONE, Ordering::SeqCst);
            }));
        }
        // supervise
        let snapshot = |slots: &Vec<AtomicI64>| -> Option<Vec<(usize, i64, u64, u64)>> {
            let mut out = vec![];
            for (i, s) in slots.iter().enumerate() {
                let tid = s.load(Ordering::SeqCst);
                if tid == DONE {
                    continue;
                }
                if tid == NOT_STARTED {
                    return None;
                }
                let sc = std::fs::read_to_string(format!("/proc/self/task/{tid}/syscall")).ok()?;
                if !in_untimed_futex_wait(&sc) {
                    return None;
                }
                let (state, vol, invol) = ctx_switches(tid)?;
                if state != 'S' {
                    return None;
                }
                out.push((i, tid, vol, invol));
            }
            if out.is_empty() { None } else { Some(out) }
        };
        let t0 = Instant::now();
        let mut last = progress.load(Ordering::SeqCst);
        let mut quiet_since = Instant::now();
        let mut deadlock: Option<String> = None;
        let mut timed_out = false;
        loop {
            if slots.iter().all(|s| s.load(Ordering::SeqCst) == DONE) {
                break;
            }
            std::thread::sleep(Duration::from_millis(2));
            let p = progress.load(Ordering::SeqCst);
            if p != last {
                last = p;
                quiet_since = Instant::now();
            } else if quiet_since.elapsed() > Duration::from_millis(300) {
                if let Some(a) = snapshot(&slots) {
                    std::thread::sleep(Duration::from_millis(100));
                    if let Some(b) = snapshot(&slots) {
                        std::thread::sleep(Duration::from_millis(100));
                        if let Some(cc) = snapshot(&slots) {
                            if a == b && b == cc && progress.load(Ordering::SeqCst) == last {
                                let who: Vec<String> = a.iter().map(|(i, ..)| if *i < c.writers as usize { format!("writer {i}") } else { format!("rejecter {i}") }).collect();
                                deadlock = Some(format!("{} are parked in untimed futex waits for ever (unchanged context-switch counts over three snapshots, no client call completed in between) after {last} client calls had returned; {} writers, {} clients submitting refused batches (oversize {})", who.join(", "), c.writers, c.rejecters, if c.big_key { "key" } else { "value" }));
                                break;
                            }
                        }
                    }
                }
                quiet_since = Instant::now();
            }
            if t0.elapsed() > Duration::from_secs(90) {
                timed_out = true;
                break;
            }
        }
        o.nontrivial = true;
        if let Some(d) = deadlock {
            // the parked threads hold the store: leave them behind
            for h in hs {
                if h.is_finished() {
                    let _ = h.join();
                } else {
                    std::mem::forget(h);
                }
            }
            std::mem::forget(kvs);
            o.fail("threads:clients-parked-for-ever", d);
            return o;
        }
        if timed_out {
            for h in hs {
                std::mem::forget(h);
            }
            std::mem::forget(kvs);
            o.inconclusive = true;
            o.label("watchdog");
            return o;
        }
        for h in hs {
            if h.join().is_err() {
                o.fail("threads:client-panicked", "a client thread panicked".to_string());
            }
        }
        if let Some(e) = errors.lock().unwrap().first() {
            o.fail("threads:op-error", vcore::truncate(e, 300));
        }
        if accepted_oversize.load(Ordering::SeqCst) > 0 {
            o.label("oversize-batch-accepted(not-judged-here)");
        }
        drop(kvs);
        let _ = std::fs::remove_dir_all(&root);
        o
    }
}
