//! E2 — the single-threaded, model-based step driver over `KeyValueStore` and `LsmTree`.
//!
//! A generated `History` (configuration + vector of `Op`s, all selectors) is interpreted against
//! the real store on a private directory and against an in-memory model.  Flushes, compaction
//! steps, verifier passes and reopen are ordinary ops thanks to the step hooks
//! (`lsmtk::verif::set_step_mode`).  Which oracles run after each op is selected by `Probes`; each
//! check (C01, C03, C04, C05, C07, C08, C20) enables the probes of its property.

use std::collections::{BTreeMap, BTreeSet, HashMap};
use std::ops::Bound;
use std::path::{Path, PathBuf};

use arrrg::CommandLine;
use proptest::prelude::*;
use serde::{Deserialize, Serialize};

use lsmtk::{KeyValueStore, LsmTree, LsmVerifier, LsmtkOptions, WriteBatch};
use sst::{Builder, Cursor, SstMetadata};
use vcore::gens::{self, KeyFamily};
use vcore::refcursor::{CursorOp, Entry, RefCursor};
use vcore::{Ctx, Failure, Outcome};
use vsst::c11::B;

////////////////////////////////////////////// config //////////////////////////////////////////////

#[derive(Clone, Debug, Serialize, Deserialize)]
pub struct StoreConfig {
    pub memtable_size: u64,
    pub target_file_size: u32,
    pub minimum_file_size: u32,
    pub target_block_size: u32,
    pub bytes_ri: u32,
    pub pairs_ri: u32,
    pub l0_mandatory_files: u64,
    pub l0_mandatory_bytes: u64,
    pub l0_stall_files: u64,
    pub l0_stall_bytes: u64,
    pub max_compaction_files: u64,
    pub max_compaction_bytes: u64,
    pub gc_policy: String,
    pub sst_cache_bytes: u64,
    pub mani_rollover_ratio: u64,
    /// bloom filter bits per key of every sst the store writes (older replay files lack the field)
    #[serde(default = "default_bloom_bits")]
    pub bloom_bits: u8,
}

fn default_bloom_bits() -> u8 {
    17
}

impl StoreConfig {
    pub fn args(&self, root: &str) -> Vec<String> {
        let mut a: Vec<String> = vec![];
        let mut kv = |k: &str, v: String| {
            a.push(k.to_string());
            a.push(v);
        };
        kv("--path", root.to_string());
        kv("--memtable-size-bytes", self.memtable_size.to_string());
        kv("--sst-target-file-size", self.target_file_size.to_string());
        kv("--sst-minimum-file-size", self.minimum_file_size.to_string());
        kv("--sst-target-block-size", self.target_block_size.to_string());
        kv("--sst-block-bytes-restart-interval", self.bytes_ri.to_string());
        kv("--sst-block-key-value-pairs-restart-interval", self.pairs_ri.to_string());
        kv("--l0-mandatory-compaction-threshold-files", self.l0_mandatory_files.to_string());
        kv("--l0-mandatory-compaction-threshold-bytes", self.l0_mandatory_bytes.to_string());
        kv("--l0-write-stall-threshold-files", self.l0_stall_files.to_string());
        kv("--l0-write-stall-threshold-bytes", self.l0_stall_bytes.to_string());
        kv("--max-compaction-files", self.max_compaction_files.to_string());
        kv("--max-compaction-bytes", self.max_compaction_bytes.to_string());
        kv("--gc-policy", self.gc_policy.clone());
        kv("--sst-cache-bytes", self.sst_cache_bytes.to_string());
        kv("--mani-log-rollover-ratio", self.mani_rollover_ratio.to_string());
        kv("--sst-bloom-filter-bits", self.bloom_bits.to_string());
        a
    }

    pub fn options(&self, root: &str) -> LsmtkOptions {
        let args = self.args(root);
        let refs: Vec<&str> = args.iter().map(|s| s.as_str()).collect();
        let (opts, free) = LsmtkOptions::from_arguments_relaxed("vstore", &refs);
        assert!(free.is_empty(), "unparsed options: {free:?}");
        opts
    }
}

/// Which region of configuration space a check wants.
#[derive(Clone, Copy, Debug, PartialEq, Eq)]
pub enum Profile {
    /// stall thresholds far away (the driver must never block); everything else varied
    Shape,
    /// small stall / mandatory thresholds and tight compaction limits (C20)
    Stall,
}

pub fn gc_policy_strategy() -> BoxedStrategy<String> {
    let leaf = prop_oneof![
        6 => (1u64..4).prop_map(|n| format!("versions = {n}")),
        1 => (1u64..1000).prop_map(|n| format!("ttl_micros = {n}")),
    ];
    let leaf2 = leaf.clone();
    let nested = leaf.prop_recursive(2, 6, 3, |inner| {
        prop_oneof![
            prop::collection::vec(inner.clone(), 1..3).prop_map(|v| format!("any({})", v.join(", "))),
            // `all()` without children parses and retains everything (the identity of "and"); the
            // childless `any()` would allow dropping current values and is left out
            prop::collection::vec(inner, 0..3).prop_map(|v| format!("all({})", v.join(", "))),
        ]
    });
    prop_oneof![3 => leaf2, 2 => nested].boxed()
}

pub fn config_strategy(profile: Profile) -> BoxedStrategy<StoreConfig> {
    let sizes = (
        prop_oneof![4 => Just(1u64), 2 => Just(4096u64), 1 => Just(1u64 << 20)],
        prop_oneof![4 => Just(4096u32), 2 => Just(8192u32), 1 => Just(65536u32)],
        prop_oneof![3 => Just(4096u32), 1 => Just(8192u32)],
        prop_oneof![3 => Just(4096u32), 1 => Just(16384u32)],
        prop_oneof![Just(1u32), Just(2), Just(1024)],
        prop_oneof![Just(1u32), Just(2), Just(16)],
    );
    let thresholds: BoxedStrategy<(u64, u64, u64, u64, u64, u64)> = match profile {
        Profile::Shape => (
            prop_oneof![Just(1u64), Just(2), Just(4)],
            prop_oneof![Just(4096u64), Just(1u64 << 26)],
            prop_oneof![Just(2u64), Just(4), Just(8), Just(64)],
            prop_oneof![Just(8192u64), Just(65536), Just(1u64 << 29)],
        )
            .prop_map(|(mf, mb, cf, cb)| (mf, mb, 1_000_000u64, 1u64 << 40, cf, cb))
            .boxed(),
        Profile::Stall => (
            1u64..5,
            prop_oneof![Just(4096u64), Just(16384), Just(1u64 << 26)],
            // stall threshold = mandatory threshold + (extra - 2): also BELOW the mandatory threshold
            0u64..6,
            prop_oneof![Just(0u64), Just(8192), Just(1u64 << 28)],
            prop_oneof![Just(2u64), Just(3), Just(4), Just(6), Just(8), Just(16), Just(64)],
            prop_oneof![Just(8192u64), Just(65536), Just(1u64 << 29)],
        )
            .prop_map(|(mf, mb, extra, sb_extra, cf, cb)| (mf, mb, (mf + extra).saturating_sub(2).max(1), if sb_extra == 0 { 1u64 << 40 } else { mb + sb_extra }, cf, cb))
            .boxed(),
    };
    (sizes, thresholds, gc_policy_strategy(), prop_oneof![1 => Just(0u64), 1 => Just(8192u64), 3 => Just(1u64 << 26)], prop_oneof![Just(1u64), Just(2), Just(8)], prop_oneof![5 => Just(17u8), 1 => Just(1u8), 1 => Just(3u8), 1 => Just(40u8)])
        .prop_map(|((mem, tf, minf, bs, bri, pri), (mf, mb, sf, sb, cf, cb), gc, cache, roll, bloom_bits)| StoreConfig {
            bloom_bits,
            memtable_size: mem,
            target_file_size: tf,
            minimum_file_size: minf.min(tf),
            target_block_size: bs,
            bytes_ri: bri,
            pairs_ri: pri,
            l0_mandatory_files: mf,
            l0_mandatory_bytes: mb,
            l0_stall_files: sf,
            l0_stall_bytes: sb,
            max_compaction_files: cf,
            max_compaction_bytes: cb,
            gc_policy: gc,
            sst_cache_bytes: cache,
            mani_rollover_ratio: roll,
        })
        .boxed()
}

//////////////////////////////////////////////// ops ///////////////////////////////////////////////

#[derive(Clone, Copy, Debug, PartialEq, Eq, Serialize, Deserialize)]
pub enum Surface {
    Kvs,
    Tree,
}

#[derive(Clone, Debug, Serialize, Deserialize)]
pub struct BSel {
    pub kind: u8,
    pub k: u16,
}

#[derive(Clone, Debug, Serialize, Deserialize)]
pub enum POp {
    SeekToFirst,
    SeekToLast,
    Seek(u16),
    Next,
    Prev,
}

#[derive(Clone, Debug, Serialize, Deserialize)]
pub enum Op {
    Put { k: u16, sz: u8 },
    Del { k: u16 },
    /// items with repeated keys are dropped at interpretation (a batch holds distinct keys)
    Batch { items: Vec<(u16, Option<u8>)> },
    Flush,
    Compact { steps: u8 },
    Verify,
    Reopen,
    /// external sst: per key, versions newest first (Some(size class) = value, None = tombstone)
    Ingest { items: Vec<(u16, Vec<Option<u8>>)> },
    /// oversize key or value: must be rejected and leave the model unchanged
    Oversize { key: bool },
    /// a batch of up to `n` distinct keys with 30 000-byte values (close to the maximum batch), so
    /// that log frames cross the 1 MiB block boundary
    BigBatch { n: u8 },
    /// a memtable flush during which - right after the memtable switch, before the flushed data
    /// reaches the tree - one more put is issued and acknowledged (what a client does while the
    /// flush thread works): two write-ahead logs hold unflushed data at the same time.  When there
    /// is nothing to flush the put simply follows the (idle) flush call.
    PutDuringFlush { k: u16, sz: u8 },
    /// close the store and open the same directory through the other surface (KeyValueStore <-> LsmTree)
    SwitchSurface,
    Scan { lo: BSel, hi: BSel, prog: Vec<POp> },
    CursorOpen { id: u8, lo: BSel, hi: BSel },
    CursorStep { id: u8, prog: Vec<POp> },
    CursorClose { id: u8 },
}

#[derive(Clone, Debug, Serialize, Deserialize)]
pub struct History {
    pub surface: Surface,
    pub config: StoreConfig,
    pub family: KeyFamily,
    pub nkeys: u8,
    /// interpreted without per-op oracles (cheap way to reach deep trees)
    pub warmup: Vec<Op>,
    pub ops: Vec<Op>,
    /// External ssts may carry OLD timestamps (0..8) for keys that were never written before: the
    /// "last completed write" to such a key is the same by ingestion order and by timestamp, but
    /// the sst's timestamp range then contains the ranges of older files (older replay files lack
    /// the field).
    #[serde(default)]
    pub old_ts_ingests: bool,
}

#[derive(Clone, Copy, Debug)]
pub struct OpWeights {
    pub put: u32,
    pub del: u32,
    pub batch: u32,
    pub flush: u32,
    pub compact: u32,
    pub verify: u32,
    pub reopen: u32,
    pub ingest: u32,
    pub oversize: u32,
    pub big_batch: u32,
    pub scan: u32,
    pub cursor: u32,
    pub switch: u32,
}

impl OpWeights {
    pub fn base() -> Self {
        Self { put: 30, del: 10, batch: 8, flush: 14, compact: 28, verify: 3, reopen: 3, ingest: 0, oversize: 1, big_batch: 0, scan: 0, cursor: 0, switch: 0 }
    }
}

fn popvec(max: usize) -> impl Strategy<Value = Vec<POp>> {
    let first = prop_oneof![2 => Just(POp::SeekToFirst), 2 => Just(POp::SeekToLast), 3 => any::<u16>().prop_map(POp::Seek)];
    let rest = prop_oneof![
        35 => Just(POp::Next),
        32 => Just(POp::Prev),
        18 => any::<u16>().prop_map(POp::Seek),
        7 => Just(POp::SeekToFirst),
        8 => Just(POp::SeekToLast),
    ];
    (first, prop::collection::vec(rest, 0..max)).prop_map(|(f, mut r)| {
        r.insert(0, f);
        r
    })
}

fn bsel() -> impl Strategy<Value = BSel> {
    (prop_oneof![3 => Just(0u8), 3 => Just(1u8), 3 => Just(2u8)], any::<u16>()).prop_map(|(kind, k)| BSel { kind, k })
}

pub fn op_strategy(w: OpWeights, surface: Surface) -> BoxedStrategy<Op> {
    let sz = prop_oneof![12 => 1u8..4, 12 => Just(4u8), 12 => Just(5u8), 8 => Just(6u8), 4 => Just(0u8), 1 => Just(8u8)];
    let sz2 = sz.clone();
    let sz3 = sz.clone();
    let mut v: Vec<(u32, BoxedStrategy<Op>)> = vec![];
    if surface == Surface::Kvs {
        v.push((w.put, (any::<u16>(), sz).prop_map(|(k, sz)| Op::Put { k, sz }).boxed()));
        v.push((w.del, any::<u16>().prop_map(|k| Op::Del { k }).boxed()));
        v.push((w.batch, prop::collection::vec((any::<u16>(), prop::option::weighted(0.7, sz2)), 2..12).prop_map(|items| Op::Batch { items }).boxed()));
        v.push((w.flush, Just(Op::Flush).boxed()));
        if surface == Surface::Kvs {
            let szf = prop_oneof![3 => 1u8..4, 2 => Just(4u8), 1 => Just(5u8)];
            v.push(((w.flush / 4).max(1), (any::<u16>(), szf).prop_map(|(k, sz)| Op::PutDuringFlush { k, sz }).boxed()));
        }
        v.push((w.oversize, any::<bool>().prop_map(|key| Op::Oversize { key }).boxed()));
        v.push((w.big_batch, (8u8..31).prop_map(|n| Op::BigBatch { n }).boxed()));
    } else {
        let ing = prop::collection::vec((any::<u16>(), prop::collection::vec(prop::option::weighted(0.7, sz3), 1..4)), 1..10).prop_map(|items| Op::Ingest { items });
        v.push((w.put + w.del + w.batch + w.flush + w.ingest, ing.boxed()));
    }
    v.push((w.compact, prop_oneof![3 => 1u8..5, 2 => 5u8..20].prop_map(|steps| Op::Compact { steps }).boxed()));
    v.push((w.verify, Just(Op::Verify).boxed()));
    v.push((w.reopen, Just(Op::Reopen).boxed()));
    v.push((w.switch, Just(Op::SwitchSurface).boxed()));
    if w.scan > 0 {
        v.push((w.scan, (bsel(), bsel(), popvec(16)).prop_map(|(lo, hi, prog)| Op::Scan { lo, hi, prog }).boxed()));
    }
    if w.cursor > 0 {
        v.push((w.cursor, (0u8..3, bsel(), bsel()).prop_map(|(id, lo, hi)| Op::CursorOpen { id, lo, hi }).boxed()));
        v.push((w.cursor * 2, (0u8..3, popvec(6)).prop_map(|(id, prog)| Op::CursorStep { id, prog }).boxed()));
        v.push((w.cursor / 2 + 1, (0u8..3).prop_map(|id| Op::CursorClose { id }).boxed()));
    }
    let v: Vec<(u32, BoxedStrategy<Op>)> = v.into_iter().filter(|(w, _)| *w > 0).collect();
    proptest::strategy::Union::new_weighted(v).boxed()
}

pub fn history_strategy(profile: Profile, w: OpWeights, tree_surface_weight: u32, warmup: std::ops::Range<usize>, ops: std::ops::Range<usize>) -> BoxedStrategy<History> {
    let surface = if tree_surface_weight == 0 {
        Just(Surface::Kvs).boxed()
    } else {
        prop_oneof![(100 - tree_surface_weight) => Just(Surface::Kvs), tree_surface_weight => Just(Surface::Tree)].boxed()
    };
    surface
        .prop_flat_map(move |surface| {
            (
                Just(surface),
                config_strategy(profile),
                gens::key_family(),
                1u8..41,
                prop::collection::vec(op_strategy(w, surface), warmup.clone()),
                prop::collection::vec(op_strategy(w, surface), ops.clone()),
                prop::bool::weighted(0.35),
            )
        })
        .prop_map(|(surface, config, family, nkeys, warmup, ops, old_ts_ingests)| History { surface, config, family, nkeys, warmup, ops, old_ts_ingests })
        .boxed()
}

////////////////////////////////////////////// probes //////////////////////////////////////////////

#[derive(Clone, Copy, Debug, Default)]
pub struct Probes {
    /// C01: every key's point read equals the model after every op
    pub reads: bool,
    /// C03: scan probes are compared with the model; full scan vs point reads
    pub scans: bool,
    /// C05: multiset conservation around every compaction step
    pub conserve: bool,
    /// C04: manifest balance equations and on-disk setsums after every op; verifier must accept
    pub balance: bool,
    /// C08: files named by the manifest exist; verifier removes only recorded trash
    pub files: bool,
    /// C07: held cursors are compared with the snapshot taken when they were opened
    pub cursors: bool,
    /// C20: a stalled store is relieved by a bounded number of compaction steps
    pub stall: bool,
}

/////////////////////////////////////////////// stats ///////////////////////////////////////////////

#[derive(Clone, Debug, Default)]
pub struct Stats {
    pub flushes: u64,
    pub compaction_steps: u64,
    pub merges: u64,
    pub gcs: u64,
    pub gc_dropped_entries: u64,
    pub moves: u64,
    pub idle_steps: u64,
    pub reopens: u64,
    pub verifies: u64,
    pub verify_backoffs: u64,
    pub verify_unlinked: u64,
    pub verify_unlinked_other: u64,
    pub mid_flush_probes: u64,
    pub surface_switches: u64,
    pub level_order_breaks: u64,
    pub stall_step_bound: u64,
    pub puts_during_flush: u64,
    pub ingest_parked_for_ever: u64,
    pub old_ts_ingested: u64,
    /// stalls seen / relieved in the state of the repaired finding R-P
    pub stalls_over_file_limit: u64,
    pub stalls_over_file_limit_relieved: u64,
    pub oversize_unexpected: u64,
    pub ingests: u64,
    pub max_levels: usize,
    pub max_files: usize,
    pub boundary_sharing: bool,
    pub multi_component_reads: u64,
    pub tombstone_over_value: u64,
    pub stalls_seen: u64,
    pub stalls_relieved: u64,
    pub scans: u64,
    pub scan_reversals: u64,
    pub cursor_held_across_flush: u64,
    pub cursor_held_across_compaction: u64,
    pub rolled_fragments: u64,
    pub split_straddle: u64,
    pub excluded: Vec<String>,
}

/////////////////////////////////////////////// harness //////////////////////////////////////////////

pub type Model = BTreeMap<Vec<u8>, Option<Vec<u8>>>;

struct Held {
    cursor: Box<dyn Cursor>,
    reference: RefCursor,
    positioned: bool,
    flushes_at_open: u64,
    compactions_at_open: u64,
}

pub struct Harness<'a> {
    pub ctx: &'a Ctx,
    pub root: PathBuf,
    pub cfg: StoreConfig,
    pub surface: Surface,
    kvs: Option<Box<KeyValueStore>>,
    tree: Option<Box<LsmTree>>,
    pub universe: Vec<Vec<u8>>,
    pub targets: Vec<Vec<u8>>,
    pub model: Model,
    next_ts: u64,
    tag: u32,
    trace_order_bad: bool,
    removed_by_fragment: BTreeMap<String, BTreeSet<String>>,
    pub stats: Stats,
    pub probes: Probes,
    held: HashMap<u8, Held>,
    ingest_seq: u64,
    old_ts_ingests: bool,
    /// digests listed by the manifest at the previous observation (C04/C08)
    pub checked: bool,
}

pub type Fail = Failure;

fn fail(sig: impl Into<String>, msg: impl Into<String>) -> Fail {
    Failure::new(sig, msg)
}

fn is_backoff(e: &handled::SError) -> bool {
    lsmtk::error_code(e) == Some(lsmtk::CODE_BACKOFF)
}

pub fn flatten(levels: &[Vec<SstMetadata>]) -> Vec<&SstMetadata> {
    levels.iter().flatten().collect()
}

/// The trigger predicate of known finding R-D, computed from the live file set only: two live
/// ssts overlap both in key range and in timestamp range.
pub fn rd_predicate(levels: &[Vec<SstMetadata>]) -> bool {
    let files = flatten(levels);
    for a in 0..files.len() {
        for b in a + 1..files.len() {
            let (x, y) = (files[a], files[b]);
            if x.first_key <= y.last_key && y.first_key <= x.last_key && x.smallest_timestamp <= y.biggest_timestamp && y.smallest_timestamp <= x.biggest_timestamp {
                return true;
            }
        }
    }
    false
}

thread_local! {
    /// The harness whose flush is in progress on this thread (for the mid-flush yield points).
    static MID_FLUSH: std::cell::Cell<*mut ()> = const { std::cell::Cell::new(std::ptr::null_mut()) };
    static MID_FLUSH_FAIL: std::cell::RefCell<Option<Fail>> = const { std::cell::RefCell::new(None) };
    /// the put a PutDuringFlush op issues at yield point 5 of its flush
    static MID_FLUSH_WRITE: std::cell::RefCell<Option<(Vec<u8>, Vec<u8>)>> = const { std::cell::RefCell::new(None) };
    static MID_FLUSH_WRITE_DONE: std::cell::Cell<bool> = const { std::cell::Cell::new(false) };
}

/// Called when the put of a PutDuringFlush op has been acknowledged by the store (the crash
/// enumerator's child records the acknowledgement at that very moment, not when the flush ends).
pub static INNER_ACK: std::sync::Mutex<Option<Box<dyn FnMut() + Send>>> = std::sync::Mutex::new(None);

fn inner_ack() {
    if let Ok(mut g) = INNER_ACK.lock() {
        if let Some(f) = g.as_mut() {
            f();
        }
    }
}

/// Installed as the store's yield hook while the step driver runs a memtable flush.
fn mid_flush_hook(site: u32) {
    if site != 5 && site != 6 {
        return;
    }
    let p = MID_FLUSH.with(|c| c.get());
    if p.is_null() || MID_FLUSH_FAIL.with(|c| c.borrow().is_some()) {
        return;
    }
    // SAFETY: set by Harness::flush on this thread for the duration of the memtable_thread call,
    // which is the only thing that runs meanwhile; the probe only reads through the store's API.
    let h: &mut Harness<'static> = unsafe { &mut *(p as *mut Harness<'static>) };
    if site == 5 {
        // the memtable was just switched: the new memtable is empty, so one put cannot ask for
        // another roll-over (which would wait for this very flush)
        if let Some((k, v)) = MID_FLUSH_WRITE.with(|c| c.borrow_mut().take()) {
            match h.kvs.as_ref().unwrap().put(&k, &v) {
                Ok(()) => {
                    h.model.insert(k, Some(v));
                    MID_FLUSH_WRITE_DONE.with(|c| c.set(true));
                    inner_ack();
                }
                Err(e) => {
                    MID_FLUSH_FAIL.with(|c| *c.borrow_mut() = Some(fail("op-error:put", format!("put during a flush failed: {e:?}"))));
                    return;
                }
            }
        }
    }
    if !(h.probes.reads || h.probes.scans) {
        return;
    }
    if let Err(f) = h.mid_flush_probe(site) {
        MID_FLUSH_FAIL.with(|c| *c.borrow_mut() = Some(f));
    }
}

/// The R-D trigger evaluated on the tree BEFORE a reopen, where the levels are known.  Recovery puts
/// ssts that overlap in key range and in timestamp range into one strongly connected component
/// and hence into one level.  For siblings of one level (>= 1) that merely share a boundary key that
/// is what they were before - harmless.  It goes wrong when the two ssts come from DIFFERENT levels
/// (or both from level 0, or truly overlap): they end up side by side in one level although their
/// key ranges overlap or their order by first key is not their order by age.
/// The deepest level recovery (tree/recover.rs) would assign before its squeeze: the longest path, in
/// edges, through the condensation of the graph it builds over the live ssts.
pub fn recovery_max_level(files: &[&SstMetadata]) -> usize {
    let n = files.len();
    if n == 0 {
        return 0;
    }
    let mut reach = vec![vec![false; n]; n];
    for i in 0..n {
        for j in i + 1..n {
            let (x, y) = (files[i], files[j]);
            if !(x.first_key <= y.last_key && y.first_key <= x.last_key) {
                continue;
            }
            if x.biggest_timestamp < y.smallest_timestamp {
                reach[j][i] = true;
            } else if y.biggest_timestamp < x.smallest_timestamp {
                reach[i][j] = true;
            } else {
                reach[i][j] = true;
                reach[j][i] = true;
            }
        }
    }
    let edge = reach.clone();
    for k in 0..n {
        for i in 0..n {
            if reach[i][k] {
                for j in 0..n {
                    if reach[k][j] {
                        reach[i][j] = true;
                    }
                }
            }
        }
    }
    // component representative: the smallest index mutually reachable
    let comp: Vec<usize> = (0..n).map(|i| (0..n).find(|j| *j == i || (reach[i][*j] && reach[*j][i])).unwrap()).collect();
    // longest path by relaxation (the condensation is acyclic, so n rounds suffice)
    let mut depth = vec![0usize; n];
    for _ in 0..n {
        let mut changed = false;
        for i in 0..n {
            for j in 0..n {
                if edge[i][j] && comp[i] != comp[j] && depth[comp[j]] < depth[comp[i]] + 1 {
                    depth[comp[j]] = depth[comp[i]] + 1;
                    changed = true;
                }
            }
        }
        if !changed {
            break;
        }
    }
    depth.into_iter().max().unwrap_or(0)
}

pub fn rd_predicate_prestate(levels: &[Vec<SstMetadata>]) -> bool {
    let mut files: Vec<(usize, &SstMetadata)> = vec![];
    for (li, l) in levels.iter().enumerate() {
        for m in l.iter() {
            files.push((li, m));
        }
    }
    let n = files.len();
    // Recovery squeezes a dependency graph deeper than NUM_LEVELS into level 0 from the top, which
    // can push one sibling of a component into level 0 and leave the other below it.  The depth
    // is the longest path through the graph recovery builds (an edge from the newer to the older of
    // two ssts whose key ranges touch, both ways when their timestamp ranges overlap) - siblings of
    // one level that share a boundary key add to it, so it is not bounded by the number of levels.
    // When the squeeze would happen every touching pair with overlapping timestamps counts (the
    // broad predicate).
    // + 1: on a KeyValueStore reopen the replayed log becomes one more sst (a root of the graph)
    // before the levels are computed
    if recovery_max_level(&files.iter().map(|(_, m)| *m).collect::<Vec<_>>()) + 1 >= lsmtk::NUM_LEVELS {
        return rd_predicate(levels);
    }
    // union-find over the "same component" relation (key ranges touch and timestamp ranges overlap)
    let mut parent: Vec<usize> = (0..n).collect();
    fn find(p: &mut Vec<usize>, x: usize) -> usize {
        let mut r = x;
        while p[r] != r {
            r = p[r];
        }
        let mut c = x;
        while p[c] != r {
            let next = p[c];
            p[c] = r;
            c = next;
        }
        r
    }
    let touch = |x: &SstMetadata, y: &SstMetadata| x.first_key <= y.last_key && y.first_key <= x.last_key;
    for a in 0..n {
        for b in a + 1..n {
            let ((la, x), (lb, y)) = (files[a], files[b]);
            let ts_overlap = x.smallest_timestamp <= y.biggest_timestamp && y.smallest_timestamp <= x.biggest_timestamp;
            if !ts_overlap || !touch(x, y) {
                continue;
            }
            // different levels, or both in level 0: side by side in one level after recovery
            if la != lb || la == 0 {
                return true;
            }
            // same level: only boundary-sharing siblings are harmless, and only if sorting by first
            // key keeps their order
            let strict = x.first_key < y.last_key && y.first_key < x.last_key;
            if strict || x.first_key == y.first_key {
                return true;
            }
            let (ra, rb) = (find(&mut parent, a), find(&mut parent, b));
            parent[ra] = rb;
        }
    }
    // A component of boundary-sharing siblings that nothing newer overlaps becomes level 0, where
    // a point read takes the first hit by biggest timestamp instead of walking the siblings in order.
    for a in 0..n {
        let ra = find(&mut parent, a);
        let members: Vec<usize> = (0..n).filter(|b| find(&mut parent, *b) == ra).collect();
        if members.len() < 2 || members[0] != a {
            continue;
        }
        let has_newer = (0..n).any(|f| !members.contains(&f) && members.iter().any(|m| touch(files[f].1, files[*m].1) && files[f].1.smallest_timestamp > files[*m].1.biggest_timestamp));
        if !has_newer {
            return true;
        }
    }
    false
}

/// Every entry of one sst file, in order.
pub fn dump_sst(path: &Path) -> Result<Vec<Entry>, String> {
    let s = sst::Sst::<sst::file_manager::FileHandle>::new(sst::SstOptions::default(), path).map_err(|e| format!("open {}: {e:?}", path.display()))?;
    let mut c = s.cursor();
    c.seek_to_first().map_err(|e| format!("{e:?}"))?;
    let mut out = vec![];
    loop {
        c.next().map_err(|e| format!("walk {}: {e:?}", path.display()))?;
        match c.key_value() {
            Some(kv) => out.push((kv.key.to_vec(), kv.timestamp, kv.value.map(|v| v.to_vec()))),
            None => return Ok(out),
        }
    }
}

pub fn sst_path(root: &Path, md: &SstMetadata) -> PathBuf {
    lsmtk::SST_FILE(root, setsum::Setsum::from_digest(md.setsum))
}

impl<'a> Harness<'a> {
    pub fn new(ctx: &'a Ctx, h: &History, probes: Probes) -> Result<Self, Fail> {
        let root = ctx.fresh_dir("store");
        Self::new_at(ctx, h, probes, root)
    }

    /// As `new`, on a given (possibly already populated) directory.
    pub fn new_at(ctx: &'a Ctx, h: &History, probes: Probes, root: PathBuf) -> Result<Self, Fail> {
        lsmtk::verif::set_step_mode(true);
        let universe = gens::universe(h.family, (h.nkeys as usize).max(1));
        let mut targets: Vec<Vec<u8>> = vec![];
        for k in universe.iter() {
            targets.extend(gens::neighbours(k));
        }
        targets.sort();
        targets.dedup();
        targets.retain(|k| k.len() <= sst::MAX_KEY_LEN);
        let mut me = Self {
            ctx,
            root,
            cfg: h.config.clone(),
            surface: h.surface,
            old_ts_ingests: h.old_ts_ingests,
            kvs: None,
            tree: None,
            universe,
            targets,
            model: Model::new(),
            next_ts: 1,
            tag: 0,
            trace_order_bad: false,
            removed_by_fragment: BTreeMap::new(),
            stats: Stats::default(),
            probes,
            held: HashMap::new(),
            ingest_seq: 0,
            checked: false,
        };
        me.open()?;
        Ok(me)
    }

    fn root_str(&self) -> String {
        self.root.to_string_lossy().to_string()
    }

    fn open(&mut self) -> Result<(), Fail> {
        let opts = self.cfg.options(&self.root_str());
        match self.surface {
            Surface::Kvs => {
                let k = KeyValueStore::open(opts).map_err(|e| fail("op-error:open", format!("open failed: {e:?}")))?;
                self.kvs = Some(Box::new(k));
            }
            Surface::Tree => {
                let t = LsmTree::open(opts).map_err(|e| fail("op-error:open", format!("open failed: {e:?}")))?;
                self.tree = Some(Box::new(t));
            }
        }
        Ok(())
    }

    pub fn set_tag(&mut self, tag: u32) {
        self.tag = tag;
    }

    pub fn tree(&self) -> &LsmTree {
        match self.surface {
            Surface::Kvs => self.kvs.as_ref().unwrap().verif_tree(),
            Surface::Tree => self.tree.as_ref().unwrap(),
        }
    }

    pub fn levels(&self) -> Vec<Vec<SstMetadata>> {
        self.tree().verif_levels()
    }

    pub fn shape(&self) -> String {
        self.levels().iter().enumerate().filter(|(_, l)| !l.is_empty()).map(|(i, l)| format!("L{i}:{}", l.len())).collect::<Vec<_>>().join(" ")
    }

    pub fn close(&mut self) {
        self.held.clear();
        self.kvs = None;
        self.tree = None;
    }

    pub fn destroy(mut self) {
        self.close();
        let _ = std::fs::remove_dir_all(&self.root);
    }

    fn key(&self, k: u16) -> Vec<u8> {
        self.universe[gens::sel(k, self.universe.len())].clone()
    }

    fn bound(&self, b: &BSel) -> B {
        let k = self.targets[gens::sel(b.k, self.targets.len())].clone();
        match b.kind {
            0 => B::Unbounded,
            1 => B::Included(k),
            _ => B::Excluded(k),
        }
    }

    fn prog(&self, p: &[POp]) -> Vec<CursorOp> {
        p.iter()
            .map(|o| match o {
                POp::SeekToFirst => CursorOp::SeekToFirst,
                POp::SeekToLast => CursorOp::SeekToLast,
                POp::Seek(k) => CursorOp::Seek(self.targets[gens::sel(*k, self.targets.len())].clone()),
                POp::Next => CursorOp::Next,
                POp::Prev => CursorOp::Prev,
            })
            .collect()
    }

    fn fresh_value(&mut self, sz: u8) -> Vec<u8> {
        self.tag += 1;
        gens::value(self.tag, sz)
    }

    pub fn load(&self, key: &[u8]) -> Result<(Option<Vec<u8>>, bool), handled::SError> {
        let mut tomb = false;
        let v = match self.surface {
            Surface::Kvs => self.kvs.as_ref().unwrap().load(key, &mut tomb)?,
            Surface::Tree => self.tree.as_ref().unwrap().load(key, &mut tomb)?,
        };
        Ok((v, tomb))
    }

    /// A scan cursor that owns its bounds and carries a `'static` lifetime: the store is boxed and
    /// the harness drops every cursor before it drops the store.
    fn scan(&self, lo: &B, hi: &B) -> Result<Box<dyn Cursor>, handled::SError> {
        let lo = Box::new(lo.to_bound());
        let hi = Box::new(hi.to_bound());
        // SAFETY: the boxes live in the returned OwnedScan, which drops the cursor first.
        let lo_ref: &'static Bound<Vec<u8>> = unsafe { &*(lo.as_ref() as *const Bound<Vec<u8>>) };
        let hi_ref: &'static Bound<Vec<u8>> = unsafe { &*(hi.as_ref() as *const Bound<Vec<u8>>) };
        let cursor: Box<dyn Cursor> = match self.surface {
            Surface::Kvs => {
                let s: &'static KeyValueStore = unsafe { &*(self.kvs.as_ref().unwrap().as_ref() as *const KeyValueStore) };
                Box::new(s.range_scan::<Vec<u8>>(lo_ref, hi_ref)?)
            }
            Surface::Tree => {
                let s: &'static LsmTree = unsafe { &*(self.tree.as_ref().unwrap().as_ref() as *const LsmTree) };
                Box::new(s.range_scan::<Vec<u8>>(lo_ref, hi_ref)?)
            }
        };
        Ok(Box::new(OwnedScan { cursor: Some(cursor), _lo: lo, _hi: hi }))
    }

    /// Every live key/value pair by a full forward scan.
    pub fn full_scan(&self) -> Result<Vec<(Vec<u8>, Option<Vec<u8>>)>, String> {
        let mut c = self.scan(&B::Unbounded, &B::Unbounded).map_err(|e| format!("{e:?}"))?;
        Ok(walk(&mut c, true)?.into_iter().map(|e| (e.0, e.2)).collect())
    }

    /// One verifier pass without any oracle; back-off counts as success.
    pub fn verifier_pass_raw(&self) -> Result<(), String> {
        let opts = self.cfg.options(&self.root_str());
        let mut v = LsmVerifier::open(opts).map_err(|e| format!("open: {e:?}"))?;
        match v.verify() {
            Ok(()) => Ok(()),
            Err(e) if is_backoff(&e) => Ok(()),
            Err(e) => Err(vcore::truncate(&format!("{e:?}"), 400)),
        }
    }

    /// Open the store again after `close()`, without exclusions or oracles.
    pub fn reopen_raw(&mut self) -> Result<(), Fail> {
        self.open()
    }

    pub fn live_entries(&self, lo: &B, hi: &B) -> Vec<Entry> {
        self.model
            .iter()
            .filter(|(k, v)| v.is_some() && lo.admits_from_below(k) && hi.admits_from_above(k))
            .map(|(k, v)| (k.clone(), 0u64, v.clone()))
            .collect()
    }

    ////////////////////////////////////////// stepping ///////////////////////////////////////////

    /// One compaction step; returns false when the compaction loop found nothing to do.
    pub fn compaction_step(&mut self) -> Result<bool, Fail> {
        let before = if self.probes.conserve { Some(self.levels()) } else { None };
        let before_dump = match &before {
            Some(l) => Some(self.dump_levels(l)?),
            None => None,
        };
        let shape_before = self.levels();
        let r = match self.surface {
            Surface::Kvs => self.kvs.as_ref().unwrap().compaction_thread(),
            Surface::Tree => self.tree.as_ref().unwrap().compaction_thread(),
        };
        r.map_err(|e| fail("op-error:compaction", format!("compaction step failed: {e:?} (tree {})", self.shape())))?;
        let idle = lsmtk::verif::last_idle();
        self.stats.compaction_steps += 1;
        if idle {
            self.stats.idle_steps += 1;
            return Ok(false);
        }
        let after = self.levels();
        let set = |l: &[Vec<SstMetadata>]| -> BTreeSet<[u8; 32]> { l.iter().flatten().map(|m| m.setsum).collect() };
        let (sb, sa) = (set(&shape_before), set(&after));
        let _ = (&sb, &sa);
        let kind = lsmtk::verif::last_kind();
        let is_gc = kind == lsmtk::verif::KIND_GARBAGE_COLLECTION;
        match kind {
            lsmtk::verif::KIND_TRIVIAL_MOVE => self.stats.moves += 1,
            lsmtk::verif::KIND_GARBAGE_COLLECTION => self.stats.gcs += 1,
            _ => self.stats.merges += 1,
        }
        self.note_shape(&after);
        if std::env::var("VERIF_TRACE").is_ok() {
            let names = ["none", "move", "merge", "gc"];
            eprintln!("  step kind={} -> {}", names[kind as usize % 4], self.shape());
            let mut sorted = self.universe.clone();
            sorted.sort();
            // rank of a key among the sorted universe keys ("7" = equals universe key #7, "7+" = between #7 and #8)
            let rank = |k: &[u8]| match sorted.binary_search_by(|u| u.as_slice().cmp(k)) {
                Ok(i) => format!("{i}"),
                Err(i) => format!("{}+", i as i64 - 1),
            };
            for (li, l) in after.iter().enumerate() {
                for m in l.iter() {
                    eprintln!("     L{li} [{}..{}] keys#[{}..{}] ts {}..{} {}", gens::show(&m.first_key), gens::show(&m.last_key), rank(&m.first_key), rank(&m.last_key), m.smallest_timestamp, m.biggest_timestamp, &setsum::Setsum::from_digest(m.setsum).hexdigest()[..8]);
                }
            }
            // level-order invariant: for every key, everything in a deeper level is older than
            // everything in a shallower level (levels >= 1)
            {
                let mut per_key: BTreeMap<Vec<u8>, Vec<(usize, u64, String)>> = BTreeMap::new();
                for (li, l) in after.iter().enumerate().skip(1) {
                    for m in l.iter() {
                        if let Ok(es) = dump_sst(&sst_path(&self.root, m)) {
                            for e in es {
                                per_key.entry(e.0.clone()).or_default().push((li, e.1, setsum::Setsum::from_digest(m.setsum).hexdigest()[..8].to_string()));
                            }
                        }
                    }
                }
                let was_bad = self.trace_order_bad;
                let mut bad = None;
                for (k, vs) in per_key.iter() {
                    for a in vs.iter() {
                        for b in vs.iter() {
                            if a.0 < b.0 && a.1 < b.1 && bad.is_none() {
                                bad = Some(format!("key #{}: L{} {} holds ts {} but deeper L{} {} holds newer ts {}", rank(k), a.0, a.2, a.1, b.0, b.2, b.1));
                            }
                        }
                    }
                }
                if let Some(b) = &bad {
                    if !was_bad {
                        eprintln!("  ## LEVEL ORDER FIRST BROKEN BY THIS STEP: {b}");
                        let names = |l: &[Vec<SstMetadata>]| -> BTreeSet<String> { l.iter().enumerate().flat_map(|(li, v)| v.iter().map(move |m| format!("L{li}:{}", &setsum::Setsum::from_digest(m.setsum).hexdigest()[..8]))).collect() };
                        let (nb, na) = (names(&shape_before), names(&after));
                        eprintln!("     inputs  {:?}", nb.difference(&na).collect::<Vec<_>>());
                        eprintln!("     outputs {:?}", na.difference(&nb).collect::<Vec<_>>());
                        for (li, l) in shape_before.iter().enumerate() {
                            for m in l.iter() {
                                eprintln!("     before L{li} keys#[{}..{}] ts {}..{} {}", rank(&m.first_key), rank(&m.last_key), m.smallest_timestamp, m.biggest_timestamp, &setsum::Setsum::from_digest(m.setsum).hexdigest()[..8]);
                            }
                        }
                    }
                }
                self.trace_order_bad = bad.is_some();
            }
            if let Err(f) = self.check_reads("step") {
                eprintln!("  !! reads wrong after this step: {}", f.message);
                // every version of every wrongly read key, by level and file
                let keys: Vec<Vec<u8>> = self.universe.iter().cloned().collect();
                for k in keys.iter() {
                    let want = self.model.get(k).cloned().flatten();
                    let got = self.load(k).ok().and_then(|(g, _)| g);
                    if want == got {
                        continue;
                    }
                    eprintln!("     versions of key #{}:", rank(k));
                    for (li, l) in after.iter().enumerate() {
                        for m in l.iter() {
                            if let Ok(es) = dump_sst(&sst_path(&self.root, m)) {
                                for e in es.iter().filter(|e| &e.0 == k) {
                                    eprintln!("        L{li} {} ts {} {}", &setsum::Setsum::from_digest(m.setsum).hexdigest()[..8], e.1, match &e.2 { Some(v) => format!("value[{}B]", v.len()), None => "tombstone".into() });
                                }
                            }
                        }
                    }
                    break;
                }
            }
        }
        if let (Some(_), Some(bd)) = (before, before_dump) {
            let ad = self.dump_levels(&after)?;
            self.check_conservation(&bd, &ad, is_gc, &shape_before, &after)?;
            self.check_level_order(&after)?;
        }
        Ok(true)
    }

    fn note_shape(&mut self, levels: &[Vec<SstMetadata>]) {
        let occupied = levels.iter().filter(|l| !l.is_empty()).count();
        self.stats.max_levels = self.stats.max_levels.max(occupied);
        self.stats.max_files = self.stats.max_files.max(levels.iter().map(|l| l.len()).sum());
        for l in levels.iter().skip(1) {
            if l.windows(2).any(|w| w[0].last_key == w[1].first_key) {
                self.stats.boundary_sharing = true;
            }
        }
    }

    /// VERIF_TRACE helper: the whole tree with key ranks, and every version of each wrongly read key.
    pub fn trace_tree_and_wrong_keys(&mut self) {
        let mut sorted = self.universe.clone();
        sorted.sort();
        let rank = |k: &[u8]| match sorted.binary_search_by(|u| u.as_slice().cmp(k)) {
            Ok(i) => format!("{i}"),
            Err(i) => format!("{}+", i as i64 - 1),
        };
        let levels = self.levels();
        for (li, l) in levels.iter().enumerate() {
            for m in l.iter() {
                eprintln!("     L{li} keys#[{}..{}] ts {}..{} {}", rank(&m.first_key), rank(&m.last_key), m.smallest_timestamp, m.biggest_timestamp, &setsum::Setsum::from_digest(m.setsum).hexdigest()[..8]);
            }
        }
        let keys: Vec<Vec<u8>> = self.universe.iter().cloned().collect();
        for k in keys.iter() {
            let want = self.model.get(k).cloned().flatten();
            let got = self.load(k).ok().and_then(|(g, _)| g);
            if want == got {
                continue;
            }
            eprintln!("     WRONG read of key #{}: got {} want {}; versions:", rank(k), show_val(&got), show_val(&want));
            for (li, l) in levels.iter().enumerate() {
                for m in l.iter() {
                    if let Ok(es) = dump_sst(&sst_path(&self.root, m)) {
                        for e in es.iter().filter(|e| &e.0 == k) {
                            eprintln!("        L{li} {} ts {} {}", &setsum::Setsum::from_digest(m.setsum).hexdigest()[..8], e.1, match &e.2 { Some(v) => format!("value[{}B]", v.len()), None => "tombstone".into() });
                        }
                    }
                }
            }
        }
    }

    pub fn should_stall(&self) -> bool {
        self.tree().verif_should_stall()
    }

    /// The state in which finding R-P (repaired in 2806f7c) used to stall for ever, computed from the
    /// tree shape and the options: the smallest L0 compaction (all of L0 plus the closure of level-1
    /// files touching L0's key range) exceeds max_compaction_files.  Kept as a coverage label: a stall
    /// in this state must be relieved like any other.
    pub fn rp_predicate(&self, levels: &[Vec<SstMetadata>]) -> bool {
        if levels[0].is_empty() {
            return false;
        }
        let mut first = levels[0].iter().map(|m| m.first_key.clone()).min().unwrap();
        let mut last = levels[0].iter().map(|m| m.last_key.clone()).max().unwrap();
        // closure: a level-1 file that touches the range (boundaries inclusive) joins and widens it
        let mut overlapping;
        loop {
            let hit: Vec<&SstMetadata> = levels[1].iter().filter(|m| m.first_key <= last && first <= m.last_key).collect();
            overlapping = hit.len();
            let nf = hit.iter().map(|m| m.first_key.clone()).min().map(|k| k.min(first.clone())).unwrap_or(first.clone());
            let nl = hit.iter().map(|m| m.last_key.clone()).max().map(|k| k.max(last.clone())).unwrap_or(last.clone());
            if nf == first && nl == last {
                break;
            }
            first = nf;
            last = nl;
        }
        (levels[0].len() + overlapping) as u64 > self.cfg.max_compaction_files
    }

    /// Run compaction steps until the store no longer wants to stall ingest.  `Ok(false)` means the
    /// stall could not be relieved (the caller must not flush / ingest).
    pub fn relieve_stall(&mut self) -> Result<bool, Fail> {
        if !self.should_stall() {
            return Ok(true);
        }
        self.stats.stalls_seen += 1;
        let over_limit = self.rp_predicate(&self.levels());
        if over_limit {
            self.stats.stalls_over_file_limit += 1;
        }
        // Trivial moves are preferred by the selector and each file can move down at most
        // NUM_LEVELS - 1 times, so a relieving compaction may legitimately be preceded by that many
        // moves per live file.
        let bound = lsmtk::NUM_LEVELS * (flatten(&self.levels()).len() + 1) + 16;
        let mut went_idle = false;
        for _ in 0..bound {
            if !self.should_stall() {
                self.stats.stalls_relieved += 1;
                if over_limit {
                    self.stats.stalls_over_file_limit_relieved += 1;
                }
                return Ok(true);
            }
            let worked = self.compaction_step()?;
            if !worked {
                went_idle = true;
                break;
            }
        }
        if !self.should_stall() {
            self.stats.stalls_relieved += 1;
            if over_limit {
                self.stats.stalls_over_file_limit_relieved += 1;
            }
            return Ok(true);
        }
        // Held back and nothing runnable (single-threaded: nothing is in progress either).
        let levels = self.levels();
        if self.probes.stall && !went_idle {
            // the step bound ran out while the selector still had work: the bound is a heuristic
            // (merges create files while the loop runs); only "selector idle while stalled" is exact
            self.stats.stall_step_bound += 1;
            return Ok(false);
        }
        if self.probes.stall {
            return Err(fail(
                if self.rp_predicate(&levels) { "stall:unrelieved:l0-exceeds-max-compaction-files" } else if went_idle { "stall:unrelieved:selector-idle" } else { "stall:unrelieved:step-bound" },
                format!(
                    "level 0 is at the write-stall threshold, no compaction is in progress, and {}; tree {}; stall files {} bytes {}; max_compaction_files {} bytes {}",
                    if went_idle { "the compaction selector finds nothing to run".to_string() } else { format!("{bound} compaction steps did not relieve it") },
                    self.shape(), self.cfg.l0_stall_files, self.cfg.l0_stall_bytes, self.cfg.max_compaction_files, self.cfg.max_compaction_bytes
                ),
            ));
        }
        self.stats.excluded.push("stall-unrelieved-not-asserted-by-this-check".into());
        Ok(false)
    }

    /// Reads in the middle of a memtable flush (guard-only yield points 5 and 6 of the store): at 5
    /// the flushed data lives only in the immutable memtable, at 6 it is in the immutable memtable
    /// AND in the freshly ingested sst.
    fn mid_flush_probe(&mut self, site: u32) -> Result<(), Fail> {
        self.stats.mid_flush_probes += 1;
        let what = if site == 5 { "the memtable switch of a flush (data in the immutable memtable only)" } else { "the ingest of a flush (data in the immutable memtable and in the new sst)" };
        if self.probes.reads {
            self.check_reads(what)?;
        }
        if self.probes.scans {
            let got = self.full_scan().map_err(|e| fail("op-error:scan", format!("full scan during {what} failed: {e}")))?;
            let want: Vec<(Vec<u8>, Option<Vec<u8>>)> = self.model.iter().filter(|(_, v)| v.is_some()).map(|(k, v)| (k.clone(), v.clone())).collect();
            if got != want {
                let gk: Vec<String> = got.iter().map(|(k, _)| gens::show(k)).collect();
                let wk: Vec<String> = want.iter().map(|(k, _)| gens::show(k)).collect();
                return Err(fail("scan:mid-flush", format!("a full scan during {what} returned {} entries {:?}, the live keys are {} {:?} (or values differ)", got.len(), vcore::truncate(&format!("{gk:?}"), 300), want.len(), vcore::truncate(&format!("{wk:?}"), 300))));
            }
        }
        Ok(())
    }

    fn flush(&mut self) -> Result<(), Fail> {
        if !self.relieve_stall()? {
            return Ok(());
        }
        let probe = self.probes.reads || self.probes.scans || MID_FLUSH_WRITE.with(|c| c.borrow().is_some());
        if probe {
            MID_FLUSH.with(|c| c.set(self as *mut Harness<'a> as *mut ()));
            MID_FLUSH_FAIL.with(|c| *c.borrow_mut() = None);
            lsmtk::verif::set_yield_hook(Some(mid_flush_hook));
        }
        let r = self.kvs.as_ref().unwrap().memtable_thread();
        if probe {
            lsmtk::verif::set_yield_hook(None);
            MID_FLUSH.with(|c| c.set(std::ptr::null_mut()));
            if let Some(f) = MID_FLUSH_FAIL.with(|c| c.borrow_mut().take()) {
                return Err(f);
            }
        }
        r.map_err(|e| fail("op-error:flush", format!("flush step failed: {e:?}")))?;
        if !lsmtk::verif::last_idle() {
            self.stats.flushes += 1;
        }
        let l = self.levels();
        self.note_shape(&l);
        Ok(())
    }

    fn verify(&mut self) -> Result<(), Fail> {
        // R-R: the verifier unlinks trash/<digest> for an old removal although a later, not yet
        // verified transaction re-created and removed the same digest again.
        if !self.ctx.strict && crate::manifest::readded_after_removal(&self.root).map_err(|e| fail("harness:manifest-parse", e))? {
            self.stats.excluded.push("R-R".into());
            return Ok(());
        }
        let trash_before = self.list_dir("trash");
        let sst_before = self.list_dir("sst");
        let mani_before = self.list_dir("mani");
        // what each fragment records as removed (read before the pass: processed fragments vanish)
        // (accumulated over the history: a pass may finish the unlinks an earlier pass recorded)
        if self.probes.files {
            for f in crate::manifest::fragments(&self.root) {
                if let Ok(txns) = crate::manifest::parse_fragment(&f) {
                    let name = f.file_name().unwrap().to_string_lossy().to_string();
                    self.removed_by_fragment.insert(name, txns.iter().skip(1).flat_map(|t| t.removed.iter().cloned()).collect());
                }
            }
        }
        let opts = self.cfg.options(&self.root_str());
        let mut v = LsmVerifier::open(opts).map_err(|e| fail("op-error:verifier-open", format!("{e:?}")))?;
        let r = v.verify();
        drop(v);
        self.stats.verifies += 1;
        match r {
            Ok(()) => {}
            Err(e) if is_backoff(&e) => self.stats.verify_backoffs += 1,
            Err(e) => {
                return Err(fail("verify:rejected", format!("the offline verifier rejected a fault-free history: {}", vcore::truncate(&format!("{e:?}"), 600))));
            }
        }
        let trash_after = self.list_dir("trash");
        let sst_after = self.list_dir("sst");
        let unlinked = trash_before.difference(&trash_after).count();
        if unlinked > 0 {
            self.stats.verify_unlinked += 1;
        }
        if self.probes.files {
            if sst_after != sst_before {
                return Err(fail("files:verifier-touched-sst-dir", format!("a verifier pass changed sst/: removed {:?} added {:?}", sst_before.difference(&sst_after).collect::<Vec<_>>(), sst_after.difference(&sst_before).collect::<Vec<_>>())));
            }
            // fragments may only disappear oldest-first and never the two newest
            let mani_after = self.list_dir("mani");
            let gone: Vec<&String> = mani_before.difference(&mani_after).collect();
            for g in gone {
                if g == "MANIFEST" || g == "LOCKFILE" {
                    return Err(fail("files:verifier-removed-live-manifest", format!("verifier removed {g}")));
                }
            }
            // the verifier unlinks only trash entries whose removal the manifest recorded and whose
            // fragment it has verified (a verified fragment is unlinked before its files are)
            // fragments that are gone now were processed in this pass or an earlier one
            let processed: BTreeSet<&String> = self.removed_by_fragment.keys().filter(|f| !mani_after.contains(*f)).collect();
            let recorded: BTreeSet<&String> = self.removed_by_fragment.iter().filter(|(f, _)| processed.contains(f)).flat_map(|(_, r)| r.iter()).collect();
            for name in trash_before.difference(&trash_after) {
                let Some(digest) = name.strip_suffix(".sst") else {
                    self.stats.verify_unlinked_other += 1;
                    continue;
                };
                if !recorded.contains(&digest.to_string()) {
                    return Err(fail(
                        "files:verifier-unlinked-unrecorded-trash",
                        format!("a verifier pass unlinked trash/{name} although no fragment it has processed ({processed:?}) records the removal of that sst"),
                    ));
                }
            }
            self.check_files()?;
        }
        Ok(())
    }

    pub fn list_dir(&self, sub: &str) -> BTreeSet<String> {
        let mut out = BTreeSet::new();
        if let Ok(rd) = std::fs::read_dir(self.root.join(sub)) {
            for e in rd.flatten() {
                out.insert(e.file_name().to_string_lossy().to_string());
            }
        }
        out
    }

    /// Close the store and open the same directory through the other surface.  A KeyValueStore is
    /// reopened once more first, so that its logs are replayed into ssts (an LsmTree knows nothing
    /// of logs).  Same R-D exclusion as reopen.
    fn switch_surface(&mut self) -> Result<(), Fail> {
        if !self.ctx.strict && rd_predicate_prestate(&self.levels()) {
            self.stats.excluded.push("R-D".into());
            return Ok(());
        }
        self.finish_cursors()?;
        self.close();
        if self.surface == Surface::Kvs {
            self.open()?;
            if !self.ctx.strict && rd_predicate_prestate(&self.levels()) {
                // the replayed log produced an sst that triggers R-D at the next open: stay
                self.stats.excluded.push("R-D".into());
                return Ok(());
            }
            self.close();
            self.surface = Surface::Tree;
        } else {
            self.surface = Surface::Kvs;
        }
        self.open()?;
        self.stats.surface_switches += 1;
        let l = self.levels();
        self.note_shape(&l);
        Ok(())
    }

    fn reopen(&mut self) -> Result<(), Fail> {
        // R-D: reopen mis-levels files when two live ssts overlap in key range and timestamp range.
        // The log replayed on open adds one more sst whose timestamps are newer than everything,
        // so the predicate over the current live set is the pre-state predicate.
        if !self.ctx.strict && rd_predicate_prestate(&self.levels()) {
            self.stats.excluded.push("R-D".into());
            return Ok(());
        }
        self.finish_cursors()?;
        self.close();
        self.open()?;
        self.stats.reopens += 1;
        let l = self.levels();
        self.note_shape(&l);
        Ok(())
    }

    fn ingest(&mut self, items: &[(u16, Vec<Option<u8>>)]) -> Result<(), Fail> {
        if !self.relieve_stall()? {
            return Ok(());
        }
        // distinct keys, sorted; timestamps fresh and higher than anything ingested before
        let mut per_key: BTreeMap<Vec<u8>, Vec<Option<Vec<u8>>>> = BTreeMap::new();
        for (k, vers) in items {
            let key = self.key(*k);
            if per_key.contains_key(&key) {
                continue;
            }
            let vals: Vec<Option<Vec<u8>>> = vers.iter().map(|v| v.map(|sz| self.fresh_value(sz))).collect();
            per_key.insert(key, vals);
        }
        self.ingest_writes(per_key)
    }

    /// One externally built sst holding the given versions (newest first) of each key, ingested
    /// through LsmTree::ingest; the first version of each key is what the model records.
    fn ingest_writes(&mut self, per_key: BTreeMap<Vec<u8>, Vec<Option<Vec<u8>>>>) -> Result<(), Fail> {
        if !self.relieve_stall()? {
            return Ok(());
        }
        // timestamps must exceed everything in the tree (also what a KeyValueStore phase wrote)
        let tree_max = self.levels().iter().flatten().map(|m| m.biggest_timestamp).max().unwrap_or(0);
        self.next_ts = self.next_ts.max(tree_max + 1);
        let total: u64 = per_key.values().map(|v| v.len() as u64).sum();
        let base = self.next_ts;
        self.next_ts += total + 1;
        self.ingest_seq += 1;
        let path = self.root.join("ingest").join(format!("ext-{}.sst", self.ingest_seq));
        let _ = std::fs::remove_file(&path);
        let opts = vsst::tables::sst_options(&vsst::tables::BuildOpts { bytes_ri: self.cfg.bytes_ri, pairs_ri: self.cfg.pairs_ri, block_size: self.cfg.target_block_size });
        let mut b = sst::SstBuilder::new(opts, &path).map_err(|e| fail("harness:ingest-build", format!("{e:?}")))?;
        let mut ts_hi = base + total;
        let mut updates: Vec<(Vec<u8>, Option<Vec<u8>>)> = vec![];
        for (k, vers) in per_key.iter() {
            // a key nobody ever wrote may arrive with an old timestamp (see History::old_ts_ingests)
            let old_ts = if self.old_ts_ingests && vers.len() == 1 && !self.model.contains_key(k) {
                let h = vcore::hash_str(&format!("{}:{}", self.ingest_seq, gens::show(k)));
                if h % 3 != 0 { Some(h / 3 % 8) } else { None }
            } else {
                None
            };
            if old_ts.is_some() {
                self.stats.old_ts_ingested += 1;
            }
            for (i, v) in vers.iter().enumerate() {
                let ts = old_ts.unwrap_or(ts_hi);
                ts_hi -= 1;
                let val = v.clone();
                match &val {
                    Some(val) => b.put(k, ts, val),
                    None => b.del(k, ts),
                }
                .map_err(|e| fail("harness:ingest-build", format!("{e:?}")))?;
                if i == 0 {
                    updates.push((k.clone(), val));
                }
            }
        }
        b.seal().map_err(|e| fail("harness:ingest-build", format!("{e:?}")))?;
        // The store was just found NOT to want a stall (relieve_stall above), so this ingest must
        // not be held back.  It runs on a helper thread so that an ingest that parks on the stall
        // anyway is seen (exact parked counter of the hooks) instead of hanging the driver: the
        // driver then offers compaction steps; if the selector is idle while the ingest stays parked
        // the writer waits for ever (C20).
        let outcome = {
            use std::sync::atomic::Ordering::SeqCst;
            let tree: &LsmTree = self.tree.as_ref().unwrap();
            // exact: counts ingests that entered the stall wait (threads leaked by earlier threaded
            // cases of this process can move PARKED, not this counter without an ingest of ours)
            let stalls0 = lsmtk::verif::INGEST_STALLS.load(SeqCst);
            let path_ref = &path;
            std::thread::scope(|sc| {
                let h = sc.spawn(move || vcore::guard(|| tree.ingest(path_ref)));
                let t0 = std::time::Instant::now();
                let mut stuck = false;
                let mut comp_err: Option<String> = None;
                loop {
                    if h.is_finished() {
                        break;
                    }
                    if lsmtk::verif::INGEST_STALLS.load(SeqCst) > stalls0 {
                        // held back on the stall: let compaction run until the selector has nothing left
                        let mut idle = false;
                        for _ in 0..lsmtk::NUM_LEVELS * 64 {
                            if h.is_finished() {
                                break;
                            }
                            match tree.compaction_thread() {
                                Err(e) => {
                                    comp_err = Some(format!("{e:?}"));
                                    break;
                                }
                                Ok(()) if lsmtk::verif::last_idle() => {
                                    idle = true;
                                    break;
                                }
                                Ok(()) => {}
                            }
                        }
                        // a woken thread needs microseconds; the limit only guards against a machine so
                        // loaded that a runnable thread is not scheduled for seconds
                        let t1 = std::time::Instant::now();
                        while !h.is_finished() && t1.elapsed() < std::time::Duration::from_secs(12) {
                            std::thread::sleep(std::time::Duration::from_micros(200));
                        }
                        if !h.is_finished() {
                            stuck = idle && comp_err.is_none();
                            lsmtk::verif::STOP.store(true, SeqCst);
                            tree.verif_wake_all();
                        }
                        break;
                    }
                    if t0.elapsed() > std::time::Duration::from_secs(120) {
                        break;
                    }
                    std::thread::sleep(std::time::Duration::from_micros(50));
                }
                let r = h.join();
                lsmtk::verif::STOP.store(false, SeqCst);
                (stuck, comp_err, r)
            })
        };
        match outcome {
            (_, Some(e), _) => return Err(fail("op-error:compaction", format!("a compaction step offered to a held-back ingest failed: {e}"))),
            // the ingest went through after all (woken late): an ordinary ingest
            (_, None, Ok(Ok(Ok(())))) => {}
            (true, None, _) => {
                self.stats.ingest_parked_for_ever += 1;
                let _ = std::fs::remove_file(&path);
                if self.probes.stall {
                    return Err(fail(
                        "stall:ingest-parked-selector-idle",
                        format!("an ingest is held back on the write stall although the store reports that level 0 does not call for a stall, and the compaction selector finds nothing to run: the writer waits for ever; tree {}; stall files {} bytes {}; max_compaction_files {} bytes {}", self.shape(), self.cfg.l0_stall_files, self.cfg.l0_stall_bytes, self.cfg.max_compaction_files, self.cfg.max_compaction_bytes),
                    ));
                }
                self.stats.excluded.push("stall-unrelieved-not-asserted-by-this-check".into());
                return Ok(());
            }
            (false, None, Ok(Ok(Err(e)))) => return Err(fail("op-error:ingest", format!("ingest failed: {e:?}"))),
            (false, None, Ok(Err(f))) => return Err(f),
            (false, None, Err(_)) => return Err(fail("panic@ingest-thread", "the ingest panicked on its helper thread".to_string())),
        }
        let _ = std::fs::remove_file(&path);
        for (k, v) in updates {
            self.model.insert(k, v);
        }
        self.stats.ingests += 1;
        let l = self.levels();
        self.note_shape(&l);
        Ok(())
    }

    ///////////////////////////////////////////// ops /////////////////////////////////////////////

    pub fn apply(&mut self, op: &Op) -> Result<(), Fail> {
        match op {
            Op::Put { .. } | Op::Del { .. } | Op::Batch { .. } | Op::BigBatch { .. } | Op::PutDuringFlush { .. } if self.surface == Surface::Tree => {
                // after a surface switch: the same writes, as one externally built sst
                let writes = write_set(&self.universe, &mut self.tag, op).unwrap();
                self.ingest_writes(writes.into_iter().map(|(k, v)| (k, vec![v])).collect())?;
            }
            Op::Ingest { items } if self.surface == Surface::Kvs => {
                // after a surface switch: the newest version of each key, as one write batch
                let mut seen = BTreeSet::new();
                let mut wb = WriteBatch::with_capacity(items.len());
                let mut writes = vec![];
                for (k, vers) in items {
                    let key = self.key(*k);
                    if !seen.insert(key.clone()) {
                        continue;
                    }
                    let v = vers[0].map(|sz| self.fresh_value(sz));
                    match &v {
                        Some(v) => wb.put(&key, v),
                        None => wb.del(&key),
                    }
                    writes.push((key, v));
                }
                self.kvs.as_ref().unwrap().write(wb).map_err(|e| fail("op-error:batch", format!("batch failed: {e:?}")))?;
                for (k, v) in writes {
                    self.model.insert(k, v);
                }
            }
            Op::Flush | Op::Oversize { .. } if self.surface == Surface::Tree => {}
            Op::SwitchSurface => self.switch_surface()?,
            Op::Put { .. } | Op::Del { .. } | Op::Batch { .. } | Op::BigBatch { .. } => {
                let writes = write_set(&self.universe, &mut self.tag, op).unwrap();
                let kvs = self.kvs.as_ref().unwrap();
                match op {
                    Op::Put { .. } => {
                        let (k, v) = &writes[0];
                        kvs.put(k, v.as_ref().unwrap()).map_err(|e| fail("op-error:put", format!("put failed: {e:?}")))?;
                    }
                    Op::Del { .. } => {
                        kvs.del(&writes[0].0).map_err(|e| fail("op-error:del", format!("del failed: {e:?}")))?;
                    }
                    _ => {
                        let mut wb = WriteBatch::with_capacity(writes.len());
                        for (k, v) in writes.iter() {
                            match v {
                                Some(v) => wb.put(k, v),
                                None => wb.del(k),
                            }
                        }
                        kvs.write(wb).map_err(|e| fail("op-error:batch", format!("batch failed: {e:?}")))?;
                    }
                }
                for (k, v) in writes {
                    self.model.insert(k, v);
                }
            }
            Op::Flush => self.flush()?,
            Op::PutDuringFlush { .. } => {
                let writes = write_set(&self.universe, &mut self.tag, op).unwrap();
                let (k, v) = writes[0].clone();
                MID_FLUSH_WRITE.with(|c| *c.borrow_mut() = Some((k.clone(), v.clone().unwrap())));
                MID_FLUSH_WRITE_DONE.with(|c| c.set(false));
                let r = self.flush();
                let pending = MID_FLUSH_WRITE.with(|c| c.borrow_mut().take());
                r?;
                if let Some((k, v)) = pending {
                    // nothing was flushed (or the stall kept the flush from running): a plain put
                    self.kvs.as_ref().unwrap().put(&k, &v).map_err(|e| fail("op-error:put", format!("put failed: {e:?}")))?;
                    self.model.insert(k, Some(v));
                    inner_ack();
                } else if MID_FLUSH_WRITE_DONE.with(|c| c.get()) {
                    self.stats.puts_during_flush += 1;
                }
            }
            Op::Compact { steps } => {
                for _ in 0..*steps {
                    if !self.compaction_step()? {
                        break;
                    }
                }
            }
            Op::Verify => self.verify()?,
            Op::Reopen => self.reopen()?,
            Op::Ingest { items } => self.ingest(items)?,
            Op::Oversize { key } => {
                let kvs = self.kvs.as_ref().unwrap();
                let (r, want) = if *key {
                    (kvs.put(&vec![b'K'; sst::MAX_KEY_LEN + 1], b"v"), sst::CODE_KEY_TOO_LARGE)
                } else {
                    (kvs.put(b"oversize-value-key", &vec![b'V'; sst::MAX_VALUE_LEN + 1]), sst::CODE_VALUE_TOO_LARGE)
                };
                // outside the text of the store properties (C10 covers the builders): counted only
                match r {
                    Ok(()) => self.stats.oversize_unexpected += 1,
                    Err(e) => {
                        if sst::error_code(&e) != Some(want) {
                            self.stats.oversize_unexpected += 1;
                        }
                    }
                }
            }
            Op::Scan { lo, hi, prog } => {
                if self.probes.scans {
                    self.scan_probe(lo, hi, prog)?;
                }
            }
            Op::CursorOpen { id, lo, hi } => {
                if self.probes.cursors {
                    self.cursor_open(*id, lo, hi)?;
                }
            }
            Op::CursorStep { id, prog } => {
                if self.probes.cursors {
                    self.cursor_step(*id, prog)?;
                }
            }
            Op::CursorClose { id } => {
                if self.probes.cursors {
                    self.cursor_close(*id)?;
                }
            }
        }
        Ok(())
    }

    ////////////////////////////////////////// oracles ////////////////////////////////////////////

    /// C01: every universe key (and never-written neighbours) reads back as the model says.
    pub fn check_reads(&mut self, after: &str) -> Result<(), Fail> {
        let keys: Vec<Vec<u8>> = self.universe.iter().cloned().chain(self.extra_keys()).collect();
        // how many components hold versions of each key (for the non-trivial rule)
        for k in keys.iter() {
            let (got, tomb) = self.load(k).map_err(|e| fail("op-error:load", format!("load({}) after {after} failed: {e:?}", gens::show(k))))?;
            let want = self.model.get(k).cloned().flatten();
            let want_tomb = matches!(self.model.get(k), Some(None));
            if got != want {
                let kind = match (&got, &want) {
                    (Some(_), None) => "resurrected",
                    (None, Some(_)) => "lost",
                    _ => "stale",
                };
                return Err(fail(
                    format!("get:{kind}"),
                    format!("after {after}: load({}) returned {} but the last completed write is {} (tree {})", gens::show(k), show_val(&got), show_val(&want), self.shape()),
                ));
            }
            // LsmTree::get is load without the tombstone flag
            if let Surface::Tree = self.surface {
                let g = self.tree.as_ref().unwrap().get(k).map_err(|e| fail("op-error:get", format!("get({}) after {after} failed: {e:?}", gens::show(k))))?;
                if g != got {
                    return Err(fail("get:get-differs-from-load", format!("after {after}: get({}) returned {} but load returned {}", gens::show(k), show_val(&g), show_val(&got))));
                }
            }
            // is_tombstone must be consistent: set only when the key's latest write is a delete
            if tomb && !want_tomb {
                return Err(fail("get:tombstone-flag", format!("after {after}: load({}) reports a tombstone but the latest write is {}", gens::show(k), show_val(&want))));
            }
        }
        Ok(())
    }

    fn extra_keys(&self) -> Vec<Vec<u8>> {
        let mut out = vec![];
        for t in self.targets.iter() {
            if !self.universe.contains(t) {
                out.push(t.clone());
                if out.len() == 2 {
                    break;
                }
            }
        }
        out
    }

    fn scan_probe(&mut self, lo: &BSel, hi: &BSel, prog: &[POp]) -> Result<(), Fail> {
        let (lo, hi) = (self.bound(lo), self.bound(hi));
        let prog = self.prog(prog);
        let want = self.live_entries(&lo, &hi);
        self.stats.scans += 1;
        if vsst::tables::has_reversal(&prog) {
            self.stats.scan_reversals += 1;
        }
        let mut c = self.scan(&lo, &hi).map_err(|e| fail("op-error:range_scan", format!("{e:?}")))?;
        let mut r = RefCursor::new(want.clone());
        vsst::tables::compare_program_opt("scan", &mut c, &mut r, &prog, true).map_err(|(s, m)| fail(s, format!("{m}; bounds {lo:?}..{hi:?}; tree {}", self.shape())))?;
        drop(c);
        // a full forward and backward walk: strictly ascending / descending, equal to the model
        let mut c = self.scan(&lo, &hi).map_err(|e| fail("op-error:range_scan", format!("{e:?}")))?;
        let fwd = walk(&mut c, true).map_err(|e| fail("scan:walk-error", e))?;
        let bwd = walk(&mut c, false).map_err(|e| fail("scan:walk-error", e))?;
        drop(c);
        let want_kv: Vec<(Vec<u8>, Option<Vec<u8>>)> = want.iter().map(|e| (e.0.clone(), e.2.clone())).collect();
        let strip = |v: &[Entry]| -> Vec<(Vec<u8>, Option<Vec<u8>>)> { v.iter().map(|e| (e.0.clone(), e.2.clone())).collect() };
        if strip(&fwd) != want_kv {
            return Err(fail("scan:forward-walk", format!("forward walk over {lo:?}..{hi:?} returned {:?} but the live keys are {:?}; tree {}", keys_of(&fwd), keys_of(&want), self.shape())));
        }
        let mut rev = strip(&bwd);
        rev.reverse();
        if rev != want_kv {
            return Err(fail("scan:backward-walk", format!("backward walk over {lo:?}..{hi:?} returned {:?} (reversed) but the live keys are {:?}; tree {}", keys_of(&bwd), keys_of(&want), self.shape())));
        }
        // scan and point reads agree for every key
        for (k, _, v) in fwd.iter() {
            let (got, _) = self.load(k).map_err(|e| fail("op-error:load", format!("{e:?}")))?;
            if got != *v {
                return Err(fail("scan:disagrees-with-get", format!("scan returned {} => {} but load returned {}", gens::show(k), show_val(v), show_val(&got))));
            }
        }
        Ok(())
    }

    //////////////////////////////////////// held cursors /////////////////////////////////////////

    fn cursor_open(&mut self, id: u8, lo: &BSel, hi: &BSel) -> Result<(), Fail> {
        self.cursor_close(id)?;
        let (lo, hi) = (self.bound(lo), self.bound(hi));
        let want = self.live_entries(&lo, &hi);
        let c = self.scan(&lo, &hi).map_err(|e| fail("op-error:range_scan", format!("{e:?}")))?;
        self.held.insert(id, Held { cursor: c, reference: RefCursor::new(want), positioned: false, flushes_at_open: self.stats.flushes, compactions_at_open: self.stats.merges + self.stats.gcs + self.stats.moves });
        Ok(())
    }

    fn cursor_step(&mut self, id: u8, prog: &[POp]) -> Result<(), Fail> {
        let mut prog = self.prog(prog);
        let flushes = self.stats.flushes;
        let compactions = self.stats.merges + self.stats.gcs + self.stats.moves;
        let shape = self.shape();
        let Some(h) = self.held.get_mut(&id) else { return Ok(()) };
        if h.positioned {
            // continue from where the cursor stands: drop the leading absolute seek sometimes kept
            if prog.len() > 1 {
                prog.remove(0);
            }
        }
        h.positioned = true;
        if flushes > h.flushes_at_open {
            self.stats.cursor_held_across_flush += 1;
        }
        if compactions > h.compactions_at_open {
            self.stats.cursor_held_across_compaction += 1;
        }
        skipfree::verif::take_use_after_free();
        let r = vsst::tables::compare_program_opt("held-cursor", &mut h.cursor, &mut h.reference, &prog, true);
        if skipfree::verif::take_use_after_free() {
            return Err(fail("held-cursor:use-after-free", format!("a held cursor dereferenced a freed skiplist node (held across {} flushes)", flushes - h.flushes_at_open)));
        }
        r.map_err(|(s, m)| fail(s, format!("{m}; cursor opened {} flushes and {} compactions ago; tree {}", flushes - h.flushes_at_open, compactions - h.compactions_at_open, shape)))
    }

    fn cursor_close(&mut self, id: u8) -> Result<(), Fail> {
        let flushes = self.stats.flushes;
        if let Some(mut h) = self.held.remove(&id) {
            // finish with a complete forward walk against the snapshot
            skipfree::verif::take_use_after_free();
            let fwd = walk(&mut h.cursor, true).map_err(|e| fail("held-cursor:error", format!("final walk of a held cursor failed: {e}")))?;
            if skipfree::verif::take_use_after_free() {
                return Err(fail("held-cursor:use-after-free", format!("a held cursor dereferenced a freed skiplist node (held across {} flushes)", flushes - h.flushes_at_open)));
            }
            let got: Vec<(Vec<u8>, Option<Vec<u8>>)> = fwd.iter().map(|e| (e.0.clone(), e.2.clone())).collect();
            let want: Vec<(Vec<u8>, Option<Vec<u8>>)> = h.reference.entries.iter().map(|e| (e.0.clone(), e.2.clone())).collect();
            if got != want {
                return Err(fail("held-cursor:final-walk", format!("a cursor held across {} flushes returned {:?} on its final walk but the snapshot at open time was {:?}", flushes - h.flushes_at_open, keys_of(&fwd), keys_of(&h.reference.entries))));
            }
        }
        Ok(())
    }

    pub fn finish_cursors(&mut self) -> Result<(), Fail> {
        let ids: Vec<u8> = self.held.keys().copied().collect();
        for id in ids {
            self.cursor_close(id)?;
        }
        Ok(())
    }

    ///////////////////////////////////////// conservation ////////////////////////////////////////

    pub fn dump_levels(&self, levels: &[Vec<SstMetadata>]) -> Result<Vec<Entry>, Fail> {
        let mut all = vec![];
        for md in levels.iter().flatten() {
            let p = sst_path(&self.root, md);
            all.extend(dump_sst(&p).map_err(|e| fail("conserve:unreadable-sst", e))?);
        }
        vcore::refcursor::sort_entries(&mut all);
        Ok(all)
    }

    /// What reads at ANY timestamp rely on: within levels >= 1 every version of a key in a deeper
    /// level is older than every version of that key in a shallower level, and the files of one
    /// level hold a key's versions newest first in file order.  (Level 0 files may overlap freely.)
    /// Not asserted in strict replays: there the R-D exclusion is off and a reopen may have
    /// mis-levelled files (known finding).
    fn check_level_order(&mut self, levels: &[Vec<SstMetadata>]) -> Result<(), Fail> {
        if self.ctx.strict {
            return Ok(());
        }
        // key -> (level, min ts, max ts)
        let mut seen: BTreeMap<Vec<u8>, Vec<(usize, u64, u64)>> = BTreeMap::new();
        for (li, l) in levels.iter().enumerate().skip(1) {
            let mut level: BTreeMap<Vec<u8>, (u64, u64)> = BTreeMap::new();
            for md in l.iter() {
                for e in dump_sst(&sst_path(&self.root, md)).map_err(|e| fail("conserve:unreadable-sst", e))? {
                    let r = level.entry(e.0).or_insert((e.1, e.1));
                    r.0 = r.0.min(e.1);
                    r.1 = r.1.max(e.1);
                }
            }
            for (k, (lo, hi)) in level {
                seen.entry(k).or_default().push((li, lo, hi));
            }
        }
        for (k, v) in seen.iter() {
            for w in v.windows(2) {
                if w[0].1 <= w[1].2 {
                    // An internal invariant of this implementation; it is a violation of the property
                    // only if a read shows it.  The model knows the latest write of every key.
                    self.stats.level_order_breaks += 1;
                    let msg = format!("after a compaction step key {} has a version at timestamp {} in level {} but a version at timestamp {} in the deeper level {} (tree {})", gens::show(k), w[0].1, w[0].0, w[1].2, w[1].0, self.shape());
                    return self.check_reads("a compaction step that put a newer version below an older one").map_err(|f| fail("order:newer-version-below-older", format!("{msg}; {}", f.message)));
                }
            }
        }
        Ok(())
    }

    fn check_conservation(&mut self, before: &[Entry], after: &[Entry], is_gc: bool, lb: &[Vec<SstMetadata>], la: &[Vec<SstMetadata>]) -> Result<(), Fail> {
        // outputs split so that one key's versions straddle two files?
        for l in la.iter().skip(1) {
            if l.windows(2).any(|w| w[0].last_key == w[1].first_key) {
                self.stats.split_straddle += 1;
            }
        }
        let _ = lb;
        if !is_gc {
            if before != after {
                let lost: Vec<String> = before.iter().filter(|e| !after.contains(e)).take(4).map(|e| vsst::tables::show_entry(Some(e))).collect();
                let made: Vec<String> = after.iter().filter(|e| !before.contains(e)).take(4).map(|e| vsst::tables::show_entry(Some(e))).collect();
                return Err(fail("conserve:changed", format!("a non-GC compaction changed the multiset of reachable entries: lost {lost:?} invented {made:?} ({} -> {} entries)", before.len(), after.len())));
            }
            return Ok(());
        }
        // GC: after ⊆ before
        let bset: BTreeSet<&Entry> = before.iter().collect();
        if let Some(e) = after.iter().find(|e| !bset.contains(e)) {
            return Err(fail("gc:invented", format!("garbage collection produced an entry that was not in its input: {}", vsst::tables::show_entry(Some(e)))));
        }
        if after.windows(2).any(|w| w[0] == w[1]) {
            return Err(fail("gc:duplicated", "garbage collection duplicated an entry".to_string()));
        }
        let aset: BTreeSet<&Entry> = after.iter().collect();
        let dropped: Vec<&Entry> = before.iter().filter(|e| !aset.contains(e)).collect();
        self.stats.gc_dropped_entries += dropped.len() as u64;
        // D ∩ R = ∅ where R is the retention set of the configured policy, read independently
        let policy = crate::gcmodel::parse(&self.cfg.gc_policy).map_err(|e| fail("harness:gc-policy-parse", e))?;
        // Only the keys of the files that took part are subject to this GC, but evaluating the
        // policy over a key's whole reachable history is what the property states.
        // Expiry leaves (ttl_micros) require nothing here: what "now" is belongs to the store (today
        // it passes 0, a store passing the wall clock would legitimately drop expired versions), so
        // only the version-count leaves make retention demands at store level.
        let retained = crate::gcmodel::must_retain(&policy, before, u64::MAX);
        for d in dropped.iter() {
            if retained.contains(&(d.0.clone(), d.1)) {
                return Err(fail("gc:dropped-retained", format!("garbage collection dropped {} which policy `{}` requires to be retained", vsst::tables::show_entry(Some(d)), self.cfg.gc_policy)));
            }
        }
        // no resurrection: a tombstone goes only together with everything it shadows
        if let Some(msg) = crate::gcmodel::resurrection(before, after) {
            return Err(fail("gc:resurrected", format!("garbage collection under policy `{}`: {msg}", self.cfg.gc_policy)));
        }
        // never the entry that decides the current value of a key (not asserted for policies with
        // an expiry leaf: an expired current value may go, together with everything older)
        if self.cfg.gc_policy.contains("ttl") {
            return Ok(());
        }
        let mut newest: BTreeMap<&[u8], &Entry> = BTreeMap::new();
        for e in before.iter() {
            newest.entry(e.0.as_slice()).or_insert(e);
        }
        for d in dropped.iter() {
            if let Some(n) = newest.get(d.0.as_slice()) {
                if n.1 == d.1 && n.2.is_some() {
                    return Err(fail("gc:dropped-current-value", format!("garbage collection dropped {} which decides the current value of its key", vsst::tables::show_entry(Some(d)))));
                }
            }
        }
        Ok(())
    }

    //////////////////////////////////////////// files ////////////////////////////////////////////

    /// C08: every sst listed by the live tree exists in sst/; every log the store still needs
    /// exists.
    pub fn check_files(&self) -> Result<(), Fail> {
        let present = self.list_dir("sst");
        for md in self.levels().iter().flatten() {
            let name = format!("{}.sst", setsum::Setsum::from_digest(md.setsum).hexdigest());
            if !present.contains(&name) {
                return Err(fail("files:live-sst-missing", format!("sst {name} is listed by the live tree but is not in sst/ (trash has it: {})", self.list_dir("trash").contains(&name))));
            }
        }
        // the manifest on disk (read-only parse) must list exactly the live tree's files
        let listed = crate::manifest::listed_ssts(&self.root).map_err(|e| fail("files:manifest-unreadable", e))?;
        let live: BTreeSet<String> = self.levels().iter().flatten().map(|md| setsum::Setsum::from_digest(md.setsum).hexdigest()).collect();
        if listed != live {
            return Err(fail("files:manifest-differs-from-tree", format!("manifest lists {} ssts, live tree has {}", listed.len(), live.len())));
        }
        for name in listed.iter() {
            if !present.contains(&format!("{name}.sst")) {
                return Err(fail("files:listed-sst-missing", format!("sst {name} is listed by the manifest but is not in sst/")));
            }
        }
        Ok(())
    }
}

struct OwnedScan {
    cursor: Option<Box<dyn Cursor>>,
    _lo: Box<Bound<Vec<u8>>>,
    _hi: Box<Bound<Vec<u8>>>,
}

impl Drop for OwnedScan {
    fn drop(&mut self) {
        self.cursor = None;
    }
}

impl Cursor for OwnedScan {
    fn seek_to_first(&mut self) -> Result<(), handled::SError> {
        self.cursor.as_mut().unwrap().seek_to_first()
    }
    fn seek_to_last(&mut self) -> Result<(), handled::SError> {
        self.cursor.as_mut().unwrap().seek_to_last()
    }
    fn seek(&mut self, key: &[u8]) -> Result<(), handled::SError> {
        self.cursor.as_mut().unwrap().seek(key)
    }
    fn prev(&mut self) -> Result<(), handled::SError> {
        self.cursor.as_mut().unwrap().prev()
    }
    fn next(&mut self) -> Result<(), handled::SError> {
        self.cursor.as_mut().unwrap().next()
    }
    fn key(&self) -> Option<sst::KeyRef<'_>> {
        self.cursor.as_ref().unwrap().key()
    }
    fn value(&self) -> Option<&[u8]> {
        self.cursor.as_ref().unwrap().value()
    }
}

/// The key/value pairs a client write op puts into the store, with values tagged from `tag`
/// exactly as the interpreter does (shared with the crash enumerator's expected-state model).
/// `None` for ops that are not client writes.
pub fn write_set(universe: &[Vec<u8>], tag: &mut u32, op: &Op) -> Option<Vec<(Vec<u8>, Option<Vec<u8>>)>> {
    let key = |k: u16| universe[gens::sel(k, universe.len())].clone();
    let mut fresh = |sz: u8| {
        *tag += 1;
        gens::value(*tag, sz)
    };
    match op {
        Op::Put { k, sz } | Op::PutDuringFlush { k, sz } => Some(vec![(key(*k), Some(fresh(*sz)))]),
        Op::Del { k } => Some(vec![(key(*k), None)]),
        Op::Batch { items } => {
            let mut seen = BTreeSet::new();
            let mut out = vec![];
            for (k, v) in items {
                let key = key(*k);
                if !seen.insert(key.clone()) {
                    continue;
                }
                out.push((key, v.map(&mut fresh)));
            }
            Some(out)
        }
        Op::BigBatch { n } => {
            let count = (*n as usize).min(universe.len());
            // the whole batch stays within the documented maximum batch size (long keys)
            let mut room = sst::MAX_BATCH_LEN.saturating_sub(64 * 1024);
            let keys: Vec<&Vec<u8>> = universe
                .iter()
                .take(count)
                .take_while(|k| {
                    let need = k.len() + 30_000 + 32;
                    let fits = need <= room;
                    if fits {
                        room -= need;
                    }
                    fits
                })
                .collect();
            Some(keys.into_iter().map(|k| (k.clone(), Some(fresh(7)))).collect())
        }
        _ => None,
    }
}

pub fn show_val(v: &Option<Vec<u8>>) -> String {
    match v {
        None => "nothing".to_string(),
        Some(v) => format!("value[{}B {:?}]", v.len(), String::from_utf8_lossy(&v[..v.len().min(12)])),
    }
}

pub fn keys_of(v: &[Entry]) -> Vec<String> {
    v.iter().map(|e| gens::show(&e.0)).collect()
}

pub fn walk(c: &mut Box<dyn Cursor>, forward: bool) -> Result<Vec<Entry>, String> {
    if forward { c.seek_to_first() } else { c.seek_to_last() }.map_err(|e| format!("{e:?}"))?;
    let mut out = vec![];
    loop {
        if forward { c.next() } else { c.prev() }.map_err(|e| format!("{e:?}"))?;
        match c.key_value() {
            Some(kv) => out.push((kv.key.to_vec(), kv.timestamp, kv.value.map(|v| v.to_vec()))),
            None => return Ok(out),
        }
        if out.len() > 1_000_000 {
            return Err("walk does not terminate".into());
        }
    }
}

/// Interpret a whole history with the given probes.  Warm-up ops run without per-op oracles.
pub fn run_history(ctx: &Ctx, h: &History, probes: Probes, o: &mut Outcome) -> Stats {
    let mut hs = match Harness::new(ctx, h, probes) {
        Ok(h) => h,
        Err(f) => {
            o.failure = Some(f);
            return Stats::default();
        }
    };
    let res = (|| -> Result<(), Fail> {
        for (i, op) in h.warmup.iter().enumerate() {
            // held cursors and scans are not part of the warm-up
            if matches!(op, Op::Scan { .. } | Op::CursorOpen { .. } | Op::CursorStep { .. } | Op::CursorClose { .. }) {
                continue;
            }
            let r = hs.apply(op);
            if std::env::var("VERIF_TRACE").is_ok() {
                eprintln!("warm #{i} {:?} -> {} | sst:{} trash:{:?} mani:{:?}", op, hs.shape(), hs.list_dir("sst").len(), hs.list_dir("trash"), hs.list_dir("mani"));
            }
            r?;
        }
        hs.checked = true;
        if probes.reads && !h.warmup.is_empty() {
            hs.check_reads("warm-up")?;
        }
        let trace = std::env::var("VERIF_TRACE").is_ok();
        for (i, op) in h.ops.iter().enumerate() {
            let r = hs.apply(op);
            if trace {
                eprintln!("op #{i} {:?} -> {} | sst:{} trash:{:?} mani:{:?}", op, hs.shape(), hs.list_dir("sst").len(), hs.list_dir("trash"), hs.list_dir("mani"));
                if matches!(op, Op::Reopen | Op::SwitchSurface) {
                    hs.trace_tree_and_wrong_keys();
                }
            }
            r?;
            let name = format!("op #{i} {}", op_name(op));
            if probes.reads {
                hs.check_reads(&name)?;
            }
            if probes.files {
                hs.check_files()?;
            }
            if probes.balance {
                hs.stats.rolled_fragments = hs.stats.rolled_fragments.max(crate::manifest::fragments(&hs.root).len().saturating_sub(1) as u64);
                crate::manifest::check_balance(&hs.root).map_err(|(s, m)| fail(s, format!("after {name}: {m}")))?;
            }
        }
        hs.finish_cursors()?;
        Ok(())
    })();
    if let Err(f) = res {
        o.failure = Some(f);
    }
    let stats = hs.stats.clone();
    if std::env::var("VERIF_KEEP").is_ok() {
        let keep = PathBuf::from(format!("/tmp/verif-keep-{}", std::process::id()));
        hs.close();
        let _ = std::fs::rename(&hs.root, &keep).or_else(|_| std::process::Command::new("cp").arg("-r").arg(&hs.root).arg(&keep).status().map(|_| ()));
        eprintln!("kept store directory at {}", keep.display());
    }
    hs.destroy();
    for e in stats.excluded.iter() {
        o.excluded.push(e.clone());
    }
    stats
}

pub fn op_name(op: &Op) -> &'static str {
    match op {
        Op::Put { .. } => "put",
        Op::Del { .. } => "del",
        Op::Batch { .. } => "batch",
        Op::Flush => "flush",
        Op::Compact { .. } => "compact",
        Op::Verify => "verify",
        Op::Reopen => "reopen",
        Op::Ingest { .. } => "ingest",
        Op::Oversize { .. } => "oversize",
        Op::BigBatch { .. } => "big-batch",
        Op::PutDuringFlush { .. } => "put-during-flush",
        Op::SwitchSurface => "switch-surface",
        Op::Scan { .. } => "scan",
        Op::CursorOpen { .. } => "cursor-open",
        Op::CursorStep { .. } => "cursor-step",
        Op::CursorClose { .. } => "cursor-close",
    }
}

pub fn label_stats(o: &mut Outcome, s: &Stats) {
    let bucket = |n: u64| match n {
        0 => "0",
        1 => "1",
        2..=4 => "2-4",
        5..=16 => "5-16",
        _ => "17+",
    };
    o.label(format!("levels-occupied:{}", s.max_levels));
    o.label(format!("flushes:{}", bucket(s.flushes + s.ingests)));
    o.label(format!("merges:{}", bucket(s.merges)));
    o.label(format!("gcs:{}", bucket(s.gcs)));
    o.label(format!("trivial-moves:{}", bucket(s.moves)));
    o.label(format!("reopens:{}", bucket(s.reopens)));
    if s.boundary_sharing {
        o.label("boundary-sharing-siblings");
    }
    if s.verify_unlinked > 0 {
        o.label("verifier-unlinked-files");
    }
    if s.stalls_over_file_limit > 0 {
        o.label("stall:level-0-plus-closure-exceeds-max-compaction-files(R-P state)");
    }
    if s.stalls_over_file_limit_relieved > 0 {
        o.label("stall:relieved-in-the-R-P-state");
    }
    if s.old_ts_ingested > 0 {
        o.label("ingest:fresh-key-with-an-old-timestamp(nested-timestamp-ranges)");
    }
    if s.puts_during_flush > 0 {
        o.label("put-acknowledged-during-a-flush(two-logs-with-data)");
    }
    if s.stall_step_bound > 0 {
        o.label("stall-step-bound-exhausted(not-a-verdict)");
    }
    if s.oversize_unexpected > 0 {
        o.label("oversize-write-accepted-or-other-code(not-asserted)");
    }
    if s.level_order_breaks > 0 {
        o.label("level-order-broken-without-a-wrong-read");
    }
    if s.surface_switches > 0 {
        o.label("surface-switched");
    }
    if s.mid_flush_probes > 0 {
        o.label("read-in-the-middle-of-a-flush");
    }
    if s.verify_unlinked_other > 0 {
        o.label("verifier-unlinked-non-sst-trash");
    }
    if s.gc_dropped_entries > 0 {
        o.label("gc-dropped-entries");
    }
}

#[allow(dead_code)]
pub fn bound_of(b: &B) -> Bound<Vec<u8>> {
    b.to_bound()
}
