//! Shared machinery for the property-based checks of rescrv/blue.
//!
//! A *check* decides one listed property (C01 … C20).  It consists of one or more *parts*; a part
//! is either a proptest-driven property (`PbtPart`) or a hand-written explorer implementing
//! `Part`.  `main_with` provides the command line every harness binary shares:
//!
//! ```text
//! <bin> run <ID> [--tier quick|thorough]      parent: spawn workers, merge, evidence, exit code
//! <bin> worker <ID> <idx> <n> <tier> <seed> <out.json>      one worker process
//! <bin> replay <file.json>                    strict re-execution of one saved case
//! <bin> list
//! ```
//!
//! Exit codes of `run`: 0 = held on everything explored, 1 = violation (a line
//! `VIOLATION property=<id> replay=<path>` is printed), 2 = inconclusive (hang, OOM, harness
//! failure) — never reported as a violation.

use std::collections::{BTreeMap, BTreeSet};
use std::fmt::Debug;
use std::io::Write;
use std::path::{Path, PathBuf};
use std::sync::Mutex;
use std::time::{Duration, Instant};

use proptest::strategy::BoxedStrategy;
use proptest::test_runner::{Config, RngSeed, TestCaseError, TestError, TestRunner};
use serde::de::DeserializeOwned;
use serde::{Deserialize, Serialize};
use serde_json::{Value, json};

pub mod gens;
pub mod refcursor;

pub const VERIF_ROOT: &str = "/verif";

/// Where evidence and replay files are written.  Always /verif for the registered commands; the
/// sensitivity tooling (tools/mutant_run.sh) redirects it so that runs against mutated scratch
/// copies never touch the committed evidence.
pub fn out_root() -> PathBuf {
    match std::env::var("VERIF_OUT_DIR") {
        Ok(d) if !d.is_empty() => PathBuf::from(d),
        _ => home_root(),
    }
}

/// The directory holding known_findings.json, regressions/ and regressions-known/: the directory of
/// the `check` script that started this run (so a snapshot of /verif reads its own files), /verif
/// by default.
pub fn home_root() -> PathBuf {
    match std::env::var("VERIF_HOME") {
        Ok(d) if !d.is_empty() => PathBuf::from(d),
        _ => PathBuf::from(VERIF_ROOT),
    }
}

////////////////////////////////////////////// basics //////////////////////////////////////////////

#[derive(Clone, Copy, Debug, PartialEq, Eq, Serialize, Deserialize)]
pub enum Tier {
    Quick,
    Thorough,
}

impl Tier {
    pub fn name(self) -> &'static str {
        match self {
            Tier::Quick => "quick",
            Tier::Thorough => "thorough",
        }
    }
    pub fn parse(s: &str) -> Tier {
        match s {
            "thorough" => Tier::Thorough,
            _ => Tier::Quick,
        }
    }
    /// Pick by tier.
    pub fn pick<T>(self, quick: T, thorough: T) -> T {
        match self {
            Tier::Quick => quick,
            Tier::Thorough => thorough,
        }
    }
}

/// Context of one worker process (or of one replay).
#[derive(Clone, Debug)]
pub struct Ctx {
    pub prop: String,
    pub tier: Tier,
    pub seed: u64,
    pub worker: usize,
    pub nworkers: usize,
    /// Private scratch directory of this worker (on tmpfs); removed by the parent afterwards.
    pub scratch: PathBuf,
    /// Strict mode: no known-finding exclusion (recorded reproductions of known findings).
    pub strict: bool,
    /// True when one saved case is being re-executed (checks that do not own the schedule repeat
    /// the case several times).
    pub replay: bool,
}

impl Ctx {
    /// A fresh, empty directory under the worker's scratch space.
    pub fn fresh_dir(&self, tag: &str) -> PathBuf {
        use std::sync::atomic::{AtomicU64, Ordering};
        static N: AtomicU64 = AtomicU64::new(0);
        let n = N.fetch_add(1, Ordering::SeqCst);
        let p = self.scratch.join(format!("{tag}-{n}"));
        let _ = std::fs::remove_dir_all(&p);
        std::fs::create_dir_all(&p).expect("create scratch dir");
        p
    }
}

/// Deterministic 64-bit mix (splitmix64 finaliser) used for seeds and structural hashes.
pub fn mix(mut x: u64) -> u64 {
    x = x.wrapping_add(0x9E37_79B9_7F4A_7C15);
    x = (x ^ (x >> 30)).wrapping_mul(0xBF58_476D_1CE4_E5B9);
    x = (x ^ (x >> 27)).wrapping_mul(0x94D0_49BB_1331_11EB);
    x ^ (x >> 31)
}

pub fn hash_bytes(b: &[u8]) -> u64 {
    let mut h: u64 = 0xcbf2_9ce4_8422_2325;
    for c in b {
        h ^= *c as u64;
        h = h.wrapping_mul(0x1000_0000_01b3);
    }
    mix(h)
}

pub fn hash_str(s: &str) -> u64 {
    hash_bytes(s.as_bytes())
}

//////////////////////////////////////////// outcomes //////////////////////////////////////////////

/// A failed oracle.  `signature` identifies the *kind* of failure (used to match known findings);
/// `message` is for humans.
#[derive(Clone, Debug, Serialize, Deserialize)]
pub struct Failure {
    pub signature: String,
    pub message: String,
}

impl Failure {
    pub fn new(signature: impl Into<String>, message: impl Into<String>) -> Self {
        Self {
            signature: signature.into(),
            message: message.into(),
        }
    }
}

/// What running one case produced.
#[derive(Clone, Debug, Default)]
pub struct Outcome {
    pub nontrivial: bool,
    pub labels: Vec<String>,
    /// Names of known findings whose trigger was excluded by construction in this case.
    pub excluded: Vec<String>,
    pub inconclusive: bool,
    pub failure: Option<Failure>,
}

impl Outcome {
    pub fn pass() -> Self {
        Self::default()
    }
    pub fn label(&mut self, l: impl Into<String>) {
        self.labels.push(l.into());
    }
    pub fn fail(&mut self, signature: impl Into<String>, message: impl Into<String>) {
        if self.failure.is_none() {
            self.failure = Some(Failure::new(signature, message));
        }
    }
    pub fn failed(&self) -> bool {
        self.failure.is_some()
    }
}

#[derive(Clone, Debug, Serialize, Deserialize)]
pub struct ViolationRec {
    pub part: String,
    pub case: Value,
    pub signature: String,
    pub message: String,
    #[serde(default)]
    pub shrunk: bool,
}

#[derive(Clone, Debug, Default, Serialize, Deserialize)]
pub struct WorkerReport {
    pub evaluations: u64,
    pub nontrivial: BTreeSet<u64>,
    pub labels: BTreeMap<String, u64>,
    pub exclusions: BTreeMap<String, u64>,
    pub samples: Vec<Value>,
    pub violations: Vec<ViolationRec>,
    pub inconclusive: u64,
    pub per_part: BTreeMap<String, u64>,
    #[serde(default)]
    pub notes: Vec<String>,
}

impl WorkerReport {
    pub fn merge(&mut self, o: WorkerReport) {
        self.evaluations += o.evaluations;
        self.nontrivial.extend(o.nontrivial);
        for (k, v) in o.labels {
            *self.labels.entry(k).or_default() += v;
        }
        for (k, v) in o.exclusions {
            *self.exclusions.entry(k).or_default() += v;
        }
        for (k, v) in o.per_part {
            *self.per_part.entry(k).or_default() += v;
        }
        for s in o.samples {
            if self.samples.len() < 6 {
                self.samples.push(s);
            }
        }
        self.violations.extend(o.violations);
        self.inconclusive += o.inconclusive;
        self.notes.extend(o.notes);
    }

    /// Account for one executed case.
    pub fn record(&mut self, part: &str, case_hash: u64, sample: impl FnOnce() -> Value, out: &Outcome) {
        self.evaluations += 1;
        *self.per_part.entry(part.to_string()).or_default() += 1;
        for l in out.labels.iter() {
            *self.labels.entry(format!("{part}:{l}")).or_default() += 1;
        }
        for e in out.excluded.iter() {
            *self.exclusions.entry(e.clone()).or_default() += 1;
        }
        if out.inconclusive {
            self.inconclusive += 1;
        }
        if out.nontrivial {
            let fresh = self.nontrivial.insert(case_hash ^ hash_str(part));
            let have = self.samples.iter().filter(|s| s["part"] == part).count();
            if fresh && have < 2 {
                self.samples.push(json!({"part": part, "case": abbreviate(sample())}));
            }
        }
    }
}

/// Shorten a JSON value so that evidence files stay readable.
pub fn abbreviate(v: Value) -> Value {
    fn go(v: Value, depth: usize) -> Value {
        match v {
            Value::Array(a) => {
                let n = a.len();
                let byteish = n > 24 && a.iter().all(|x| x.as_u64().map(|b| b < 256).unwrap_or(false));
                if byteish {
                    let head: Vec<String> = a.iter().take(12).map(|x| x.to_string()).collect();
                    return Value::String(format!("<{} bytes: {} …>", n, head.join(",")));
                }
                let keep = if depth == 0 { 40 } else { 16 };
                let mut out: Vec<Value> = a.into_iter().take(keep).map(|x| go(x, depth + 1)).collect();
                if n > keep {
                    out.push(Value::String(format!("… {} more", n - keep)));
                }
                Value::Array(out)
            }
            Value::Object(o) => Value::Object(o.into_iter().map(|(k, x)| (k, go(x, depth + 1))).collect()),
            Value::String(s) if s.len() > 200 => {
                Value::String(format!("{}… ({} chars)", s.chars().take(120).collect::<String>(), s.len()))
            }
            x => x,
        }
    }
    go(v, 0)
}

//////////////////////////////////////////////// Part //////////////////////////////////////////////

/// One explorer inside a check.
pub trait Part: Sync {
    fn name(&self) -> String;
    /// Run this part's share of work for worker `ctx.worker`; all randomness derives from
    /// `ctx.seed`, `ctx.worker` and the part name.
    fn worker(&self, ctx: &Ctx) -> WorkerReport;
    /// Re-execute one saved case in strict mode.
    fn replay(&self, ctx: &Ctx, case: &Value) -> Outcome;
}

/// A proptest-driven property.
pub trait Property: Sync {
    type Case: Debug + Clone + Serialize + DeserializeOwned + 'static;
    fn name(&self) -> String;
    /// Cases per worker.
    fn cases(&self, tier: Tier) -> u64;
    fn strategy(&self, ctx: &Ctx) -> BoxedStrategy<Self::Case>;
    fn run(&self, ctx: &Ctx, case: &Self::Case) -> Outcome;
    fn max_shrink_iters(&self) -> u32 {
        2048
    }
    /// Write the case about to run into `<scratch>/current.json` (for parts that can abort the
    /// process, so the parent can still produce a replay file).
    fn record_current(&self) -> bool {
        false
    }
}

pub struct PbtPart<P: Property>(pub P);

thread_local! {
    static LAST_PANIC: std::cell::RefCell<Option<String>> = const { std::cell::RefCell::new(None) };
}

static HOOK_ONCE: std::sync::Once = std::sync::Once::new();

/// Install a panic hook that records the panic location/message instead of printing it.
pub fn quiet_panics() {
    HOOK_ONCE.call_once(|| {
        let verbose = std::env::var("VERIF_VERBOSE").is_ok();
        std::panic::set_hook(Box::new(move |info| {
            let loc = info
                .location()
                .map(|l| format!("{}:{}", l.file(), l.line()))
                .unwrap_or_default();
            let msg = if let Some(s) = info.payload().downcast_ref::<&str>() {
                s.to_string()
            } else if let Some(s) = info.payload().downcast_ref::<String>() {
                s.clone()
            } else {
                "<non-string panic>".to_string()
            };
            if verbose {
                eprintln!("panic at {loc}: {msg}");
            }
            LAST_PANIC.with(|p| *p.borrow_mut() = Some(format!("{loc}: {msg}")));
        }));
    });
}

/// Run `f`, turning a panic into a `Failure` whose signature names the panic site.
pub fn guard<T>(f: impl FnOnce() -> T) -> Result<T, Failure> {
    quiet_panics();
    match std::panic::catch_unwind(std::panic::AssertUnwindSafe(f)) {
        Ok(v) => Ok(v),
        Err(_) => {
            let what = LAST_PANIC.with(|p| p.borrow_mut().take()).unwrap_or_default();
            let site = what.split(": ").next().unwrap_or("").to_string();
            let site = site.rsplit("/repo/").next().unwrap_or(&site).to_string();
            Err(Failure::new(format!("panic@{site}"), format!("panic: {what}")))
        }
    }
}

fn run_guarded<P: Property>(p: &P, ctx: &Ctx, case: &P::Case) -> Outcome {
    match guard(|| p.run(ctx, case)) {
        Ok(o) => o,
        Err(f) => Outcome {
            nontrivial: true,
            failure: Some(f),
            ..Default::default()
        },
    }
}

pub fn case_hash<C: Serialize>(c: &C) -> u64 {
    hash_bytes(&serde_json::to_vec(c).unwrap_or_default())
}

impl<P: Property> Part for PbtPart<P> {
    fn name(&self) -> String {
        self.0.name()
    }

    fn worker(&self, ctx: &Ctx) -> WorkerReport {
        let p = &self.0;
        let name = p.name();
        let cases = p.cases(ctx.tier);
        let seed = mix(ctx.seed ^ mix(ctx.worker as u64 + 1) ^ hash_str(&name));
        let config = Config {
            cases: cases as u32,
            failure_persistence: None,
            rng_seed: RngSeed::Fixed(seed),
            max_shrink_iters: p.max_shrink_iters(),
            max_shrink_time: 60_000,
            max_global_rejects: 1 << 20,
            max_local_rejects: 1 << 20,
            ..Config::default()
        };
        let mut runner = TestRunner::new(config);
        let strategy = p.strategy(ctx);
        struct St {
            report: WorkerReport,
            failed: bool,
            last_failure: Option<Failure>,
        }
        let st = Mutex::new(St {
            report: WorkerReport::default(),
            failed: false,
            last_failure: None,
        });
        let current = ctx.scratch.join("current.json");
        let result = runner.run(&strategy, |case| {
            if p.record_current() {
                let rec = json!({"part": name, "case": serde_json::to_value(&case).unwrap_or(Value::Null)});
                let _ = std::fs::write(&current, serde_json::to_vec(&rec).unwrap_or_default());
            }
            let out = run_guarded(p, ctx, &case);
            let mut st = st.lock().unwrap();
            if !st.failed {
                let h = case_hash(&case);
                st.report.record(&name, h, || serde_json::to_value(&case).unwrap_or(Value::Null), &out);
            }
            match out.failure {
                Some(f) => {
                    st.failed = true;
                    let msg = f.message.clone();
                    st.last_failure = Some(f);
                    Err(TestCaseError::fail(msg))
                }
                None => Ok(()),
            }
        });
        let _ = std::fs::remove_file(&current);
        let mut st = st.into_inner().unwrap();
        match result {
            Ok(()) => {}
            Err(TestError::Fail(_, case)) => {
                // Re-run the minimal case once to get its own signature/message.
                let out = run_guarded(p, ctx, &case);
                let f = out
                    .failure
                    .or(st.last_failure.take())
                    .unwrap_or_else(|| Failure::new("unknown", "failure did not reproduce on re-run"));
                st.report.violations.push(ViolationRec {
                    part: name.clone(),
                    case: serde_json::to_value(&case).unwrap_or(Value::Null),
                    signature: f.signature,
                    message: f.message,
                    shrunk: true,
                });
            }
            Err(TestError::Abort(why)) => {
                st.report.notes.push(format!("{name}: proptest aborted: {why}"));
                st.report.inconclusive += 1;
            }
        }
        st.report
    }

    fn replay(&self, ctx: &Ctx, case: &Value) -> Outcome {
        match serde_json::from_value::<P::Case>(case.clone()) {
            Ok(c) => run_guarded(&self.0, ctx, &c),
            Err(e) => {
                let mut o = Outcome::pass();
                o.inconclusive = true;
                o.label(format!("replay-parse-error: {e}"));
                o
            }
        }
    }
}

/////////////////////////////////////////////// Check //////////////////////////////////////////////

pub struct Check {
    pub id: &'static str,
    /// "exploration" or "fault_enumeration".
    pub level: &'static str,
    /// How cases are generated and what makes one non-trivial.
    pub rule: &'static str,
    pub assumptions: Vec<String>,
    pub parts: Vec<Box<dyn Part>>,
    /// Number of worker processes (0 = number of cores, capped at 16).
    pub workers: usize,
    /// Wall-clock watchdog per worker; expiry is "inconclusive", never a violation.
    pub watchdog_quick_s: u64,
    pub watchdog_thorough_s: u64,
}

impl Check {
    pub fn new(id: &'static str, level: &'static str, rule: &'static str) -> Self {
        Self {
            id,
            level,
            rule,
            assumptions: vec![],
            parts: vec![],
            workers: 0,
            watchdog_quick_s: 900,
            watchdog_thorough_s: 4 * 3600,
        }
    }
    pub fn assume(mut self, s: &str) -> Self {
        self.assumptions.push(s.to_string());
        self
    }
    pub fn part(mut self, p: impl Part + 'static) -> Self {
        self.parts.push(Box::new(p));
        self
    }
    pub fn pbt<P: Property + 'static>(mut self, p: P) -> Self {
        self.parts.push(Box::new(PbtPart(p)));
        self
    }
}

////////////////////////////////////////// known findings //////////////////////////////////////////

#[derive(Clone, Debug, Serialize, Deserialize)]
pub struct KnownFinding {
    pub property: String,
    /// "known" (recorded, not repaired) or "fixed" (repaired by a `fix:` commit; suppresses nothing).
    pub status: String,
    /// Short identifier, e.g. "R-D".
    pub id: String,
    /// Signatures of oracle verdicts that belong to this finding (exact match).
    #[serde(default)]
    pub signatures: Vec<String>,
    pub what: String,
    #[serde(default)]
    pub replay: Option<String>,
    #[serde(default)]
    pub commit: Option<String>,
}

pub fn load_known_findings() -> Vec<KnownFinding> {
    let p = home_root().join("known_findings.json");
    match std::fs::read(&p) {
        Ok(b) => serde_json::from_slice::<Vec<KnownFinding>>(&b).unwrap_or_else(|e| {
            eprintln!("warning: cannot parse {}: {e}", p.display());
            vec![]
        }),
        Err(_) => vec![],
    }
}

/////////////////////////////////////////////// main ///////////////////////////////////////////////

fn usage() -> ! {
    eprintln!("usage: run <ID> [--tier quick|thorough] | worker … | replay <file> | list");
    std::process::exit(2)
}

pub fn env_seed() -> u64 {
    std::env::var("VERIF_SEED")
        .ok()
        .and_then(|s| s.trim().parse::<i64>().ok())
        .map(|x| x as u64)
        .unwrap_or(0)
}

fn scratch_base() -> PathBuf {
    let base = if Path::new("/dev/shm").is_dir() {
        PathBuf::from("/dev/shm")
    } else {
        std::env::temp_dir()
    };
    base.join(format!("verif-{}", std::process::id()))
}

/// Extra subcommands a binary may provide (child processes of fault enumeration etc.).
pub type ExtraCmd = fn(&[String]) -> i32;

pub fn main_with(checks: Vec<Check>, extra: &[(&str, ExtraCmd)]) -> ! {
    let args: Vec<String> = std::env::args().collect();
    if args.len() < 2 {
        usage();
    }
    let code = match args[1].as_str() {
        "list" => {
            for c in checks.iter() {
                println!("{} parts={:?}", c.id, c.parts.iter().map(|p| p.name()).collect::<Vec<_>>());
            }
            0
        }
        "run" => {
            if args.len() < 3 {
                usage();
            }
            let mut tier = std::env::var("VERIF_TIER").map(|t| Tier::parse(&t)).unwrap_or(Tier::Quick);
            let mut i = 3;
            while i < args.len() {
                if args[i] == "--tier" && i + 1 < args.len() {
                    tier = Tier::parse(&args[i + 1]);
                    i += 1;
                }
                i += 1;
            }
            let check = checks.iter().find(|c| c.id == args[2]).unwrap_or_else(|| usage());
            run_parent(check, tier)
        }
        "worker" => {
            if args.len() < 8 {
                usage();
            }
            let check = checks.iter().find(|c| c.id == args[2]).unwrap_or_else(|| usage());
            let ctx = Ctx {
                prop: check.id.to_string(),
                worker: args[3].parse().unwrap(),
                nworkers: args[4].parse().unwrap(),
                tier: Tier::parse(&args[5]),
                seed: args[6].parse().unwrap(),
                scratch: PathBuf::from(&args[7]),
                // tooling only: search without known-finding exclusions to obtain reproductions
                strict: std::env::var("VERIF_STRICT").is_ok(),
                replay: false,
            };
            run_worker(check, &ctx)
        }
        "replay" => {
            if args.len() < 3 {
                usage();
            }
            let strict = args.iter().any(|a| a == "--strict");
            run_replay(&checks, Path::new(&args[2]), true, strict)
        }
        other => {
            if let Some((_, f)) = extra.iter().find(|(n, _)| *n == other) {
                f(&args[2..])
            } else {
                usage()
            }
        }
    };
    std::process::exit(code)
}

fn run_worker(check: &Check, ctx: &Ctx) -> i32 {
    quiet_panics();
    std::fs::create_dir_all(&ctx.scratch).expect("scratch");
    let only = std::env::var("VERIF_PART").ok();
    let mut report = WorkerReport::default();
    for part in check.parts.iter() {
        if let Some(o) = &only {
            if !part.name().contains(o.as_str()) {
                continue;
            }
        }
        let r = part.worker(ctx);
        report.merge(r);
    }
    let out = ctx.scratch.join("report.json");
    let tmp = ctx.scratch.join("report.json.tmp");
    std::fs::write(&tmp, serde_json::to_vec(&report).unwrap()).expect("write report");
    std::fs::rename(&tmp, &out).expect("rename report");
    0
}

#[derive(Serialize, Deserialize)]
pub struct ReplayFile {
    pub property: String,
    pub part: String,
    pub signature: String,
    pub message: String,
    pub seed: u64,
    pub tier: String,
    pub case: Value,
    /// Strict replays disable known-finding exclusions (used for the recorded reproductions of
    /// known findings); ordinary replays run under the conditions of the search that found them.
    #[serde(default)]
    pub strict: bool,
}

/// Returns 1 if the case violates the property, 0 if it passes, 2 if inconclusive.
fn run_replay(checks: &[Check], file: &Path, print: bool, force_strict: bool) -> i32 {
    quiet_panics();
    let rf: ReplayFile = match std::fs::read(file).ok().and_then(|b| serde_json::from_slice(&b).ok()) {
        Some(r) => r,
        None => {
            eprintln!("cannot read replay file {}", file.display());
            return 2;
        }
    };
    let Some(check) = checks.iter().find(|c| c.id == rf.property) else {
        eprintln!("property {} is not served by this binary", rf.property);
        return 2;
    };
    let Some(part) = check.parts.iter().find(|p| p.name() == rf.part) else {
        eprintln!("no part {} in {}", rf.part, rf.property);
        return 2;
    };
    let scratch = scratch_base().join("replay");
    let _ = std::fs::remove_dir_all(&scratch);
    std::fs::create_dir_all(&scratch).expect("scratch");
    let ctx = Ctx {
        prop: rf.property.clone(),
        tier: Tier::parse(&rf.tier),
        seed: rf.seed,
        worker: 0,
        nworkers: 1,
        scratch: scratch.clone(),
        strict: rf.strict || force_strict,
        replay: true,
    };
    let out = part.replay(&ctx, &rf.case);
    if std::env::var("VERIF_KEEP").is_err() {
        let _ = std::fs::remove_dir_all(scratch_base());
    }
    if let Some(f) = out.failure.as_ref().filter(|f| f.signature.starts_with("harness:")) {
        if print {
            println!("REPLAY property={} part={} verdict=inconclusive harness failure {} :: {}", rf.property, rf.part, f.signature, f.message);
        }
        return 2;
    }
    if let Some(f) = out.failure {
        if print {
            println!("REPLAY property={} part={} verdict=violation signature={}", rf.property, rf.part, f.signature);
            println!("  {}", f.message);
        }
        1
    } else if out.inconclusive {
        if print {
            println!("REPLAY property={} part={} verdict=inconclusive {:?}", rf.property, rf.part, out.labels);
        }
        2
    } else {
        if print {
            println!("REPLAY property={} part={} verdict=pass", rf.property, rf.part);
        }
        0
    }
}

fn run_parent(check: &Check, tier: Tier) -> i32 {
    let t0 = Instant::now();
    let seed = env_seed();
    let nworkers = if check.workers > 0 {
        check.workers
    } else {
        std::thread::available_parallelism().map(|n| n.get()).unwrap_or(4).min(16)
    };
    let base = scratch_base();
    let _ = std::fs::remove_dir_all(&base);
    std::fs::create_dir_all(&base).expect("scratch base");
    let exe = std::env::current_exe().expect("current_exe");
    let watchdog = Duration::from_secs(tier.pick(check.watchdog_quick_s, check.watchdog_thorough_s));
    let mut children = vec![];
    for w in 0..nworkers {
        let scratch = base.join(format!("w{w}"));
        std::fs::create_dir_all(&scratch).expect("scratch");
        let log = std::fs::File::create(scratch.join("stderr.log")).expect("log");
        let child = std::process::Command::new(&exe)
            .arg("worker")
            .arg(check.id)
            .arg(w.to_string())
            .arg(nworkers.to_string())
            .arg(tier.name())
            .arg(seed.to_string())
            .arg(&scratch)
            .stdout(std::fs::File::create(scratch.join("stdout.log")).expect("log"))
            .stderr(log)
            .spawn()
            .expect("spawn worker");
        children.push((w, scratch, child));
    }
    let mut merged = WorkerReport::default();
    let mut harness_failures: Vec<String> = vec![];
    let mut aborted: Vec<(String, ViolationRec)> = vec![];
    for (w, scratch, mut child) in children {
        let status = loop {
            match child.try_wait() {
                Ok(Some(st)) => break Some(st),
                Ok(None) => {
                    if t0.elapsed() > watchdog {
                        let _ = child.kill();
                        let _ = child.wait();
                        break None;
                    }
                    std::thread::sleep(Duration::from_millis(20));
                }
                Err(_) => break None,
            }
        };
        let report: Option<WorkerReport> = std::fs::read(scratch.join("report.json"))
            .ok()
            .and_then(|b| serde_json::from_slice(&b).ok());
        match (status, report) {
            (Some(st), Some(r)) if st.success() => merged.merge(r),
            (None, _) => harness_failures.push(format!("worker {w}: watchdog expired after {:?}", watchdog)),
            (Some(st), _) => {
                // Abnormal exit.  If the part recorded the case it was running, that case aborted
                // the process: report it with a replay file; otherwise it is a harness failure.
                let cur: Option<Value> = std::fs::read(scratch.join("current.json"))
                    .ok()
                    .and_then(|b| serde_json::from_slice(&b).ok());
                let tail = std::fs::read_to_string(scratch.join("stderr.log")).unwrap_or_default();
                let tail: String = tail.lines().rev().take(8).collect::<Vec<_>>().into_iter().rev().collect::<Vec<_>>().join(" | ");
                match cur {
                    Some(c) => aborted.push((
                        format!("worker {w} exited with {st}"),
                        ViolationRec {
                            part: c["part"].as_str().unwrap_or("").to_string(),
                            case: c["case"].clone(),
                            signature: format!("abort:{st}"),
                            message: format!("process aborted while running this case ({st}); stderr tail: {tail}"),
                            shrunk: false,
                        },
                    )),
                    None => harness_failures.push(format!("worker {w} exited with {st} without a report; stderr tail: {tail}")),
                }
            }
        }
    }
    for (_, v) in aborted {
        merged.violations.push(v);
    }
    // A failure whose signature starts with "harness:" says that the harness itself could not do
    // its work (scratch space full, cannot spawn, cannot build an input file ...): inconclusive,
    // never a violation.
    let (own, real): (Vec<ViolationRec>, Vec<ViolationRec>) = std::mem::take(&mut merged.violations).into_iter().partition(|v| v.signature.starts_with("harness:"));
    merged.violations = real;
    for v in own.iter().take(5) {
        harness_failures.push(format!("part {}: {} :: {}", v.part, v.signature, truncate(&v.message, 300)));
    }

    // Classify violations against the committed known-findings file (never written here).
    let known = load_known_findings();
    let mine: Vec<&KnownFinding> = known.iter().filter(|k| k.property == check.id).collect();
    let mut new_violations: Vec<(ViolationRec, PathBuf)> = vec![];
    let mut known_hits: BTreeMap<String, u64> = BTreeMap::new();
    let replay_dir = out_root().join("replays").join(check.id);
    // Report each distinct (part, signature) once, keeping the smallest case.
    let mut distinct: BTreeMap<(String, String), ViolationRec> = BTreeMap::new();
    for v in merged.violations.iter() {
        let key = (v.part.clone(), v.signature.clone());
        let size = v.case.to_string().len();
        match distinct.get(&key) {
            Some(old) if old.case.to_string().len() <= size => {}
            _ => {
                distinct.insert(key, v.clone());
            }
        }
    }
    let total_failures = merged.violations.len();
    for v in distinct.values() {
        if let Some(k) = mine
            .iter()
            .find(|k| k.status == "known" && k.signatures.iter().any(|s| *s == v.signature))
        {
            *known_hits.entry(k.id.clone()).or_default() += 1;
            continue;
        }
        let _ = std::fs::create_dir_all(&replay_dir);
        let rf = ReplayFile {
            property: check.id.to_string(),
            part: v.part.clone(),
            signature: v.signature.clone(),
            message: v.message.clone(),
            seed,
            tier: tier.name().to_string(),
            case: v.case.clone(),
            strict: false,
        };
        let bytes = serde_json::to_vec_pretty(&rf).unwrap();
        let path = replay_dir.join(format!("{:016x}.json", hash_bytes(&bytes)));
        let _ = std::fs::write(&path, &bytes);
        new_violations.push((v.clone(), path));
    }

    // Regression tier: every saved case under regressions/<ID>/ is re-executed in strict mode.
    let reg_dir = home_root().join("regressions").join(check.id);
    let mut regressions_run = 0u64;
    if let Ok(rd) = std::fs::read_dir(&reg_dir) {
        let mut files: Vec<PathBuf> = rd.flatten().map(|e| e.path()).filter(|p| p.extension().map(|e| e == "json").unwrap_or(false)).collect();
        files.sort();
        for f in files {
            regressions_run += 1;
            let st = std::process::Command::new(&exe)
                .arg("replay")
                .arg(&f)
                .stdout(std::process::Stdio::null())
                .stderr(std::process::Stdio::null())
                .status();
            match st.map(|s| s.code()) {
                Ok(Some(0)) => {}
                Ok(Some(1)) => {
                    let rf: Option<ReplayFile> = std::fs::read(&f).ok().and_then(|b| serde_json::from_slice(&b).ok());
                    let (part, signature) = rf.map(|r| (r.part, r.signature)).unwrap_or_default();
                    new_violations.push((
                        ViolationRec { part, case: Value::Null, signature, message: format!("saved regression case {} fails again", f.display()), shrunk: true },
                        f.clone(),
                    ));
                }
                Ok(None) => {
                    // killed by a signal: the saved case takes the process down again
                    let rf: Option<ReplayFile> = std::fs::read(&f).ok().and_then(|b| serde_json::from_slice(&b).ok());
                    let (part, signature) = rf.map(|r| (r.part, r.signature)).unwrap_or_default();
                    new_violations.push((
                        ViolationRec { part, case: Value::Null, signature, message: format!("saved regression case {} aborts the process again", f.display()), shrunk: true },
                        f.clone(),
                    ));
                }
                other => harness_failures.push(format!("regression replay {} was inconclusive: {:?}", f.display(), other)),
            }
        }
    }

    // Known findings: print one line each, and re-run the recorded reproduction in strict mode.
    let mut known_lines = vec![];
    for k in mine.iter().filter(|k| k.status == "known") {
        let mut status = String::new();
        if let Some(r) = &k.replay {
            let path = home_root().join(r);
            let st = std::process::Command::new(&exe)
                .arg("replay")
                .arg(&path)
                .arg("--strict")
                .stdout(std::process::Stdio::null())
                .stderr(std::process::Stdio::null())
                .status();
            status = match st.map(|s| s.code()) {
                Ok(Some(1)) => " [reproduction still fails: yes]".to_string(),
                Ok(Some(0)) => " [reproduction still fails: NO - finding no longer reproduces]".to_string(),
                _ => " [reproduction inconclusive]".to_string(),
            };
        }
        let hits = known_hits.get(&k.id).copied().unwrap_or(0);
        let excl = merged.exclusions.get(&k.id).copied().unwrap_or(0);
        let line = format!(
            "KNOWN-FINDING: property={} {} {}{} (excluded by construction in {} cases, matched {} generated failures)",
            check.id, k.id, k.what, status, excl, hits
        );
        println!("{line}");
        known_lines.push(line);
    }

    let wall = t0.elapsed().as_secs_f64();
    // Evidence.
    let mut labels = serde_json::Map::new();
    for (k, v) in merged.labels.iter() {
        labels.insert(k.clone(), json!(v));
    }
    let mut samples = merged.samples.clone();
    if samples.is_empty() {
        samples.push(json!({"note": "no non-trivial case was generated in this run"}));
    }
    let evidence = json!({
        "property_id": check.id,
        "tier": tier.name(),
        "seed": seed as i64,
        "level": check.level,
        "coverage": {
            "evaluations": merged.evaluations,
            "distinct_nontrivial": merged.nontrivial.len(),
            "rule": check.rule,
            "samples": samples,
            "exhaustive": false,
            "per_part_evaluations": merged.per_part,
            "label_histogram": Value::Object(labels),
            "known_finding_exclusions": merged.exclusions,
            "inconclusive_cases": merged.inconclusive,
            "workers": nworkers,
            "regression_cases_replayed": regressions_run,
            "failing_cases_before_dedup": total_failures,
            "harness_failures": harness_failures,
            "known_findings_reported": known_lines,
            "notes": merged.notes,
        },
        "assumptions": check.assumptions,
        "wall_s": wall,
        "violations": new_violations.len(),
    });
    let evdir = out_root().join("evidence");
    let _ = std::fs::create_dir_all(&evdir);
    let evpath = evdir.join(format!("{}.json", check.id));
    let mut f = std::fs::File::create(&evpath).expect("evidence file");
    f.write_all(serde_json::to_string_pretty(&evidence).unwrap().as_bytes()).unwrap();
    f.write_all(b"\n").unwrap();
    let _ = std::fs::remove_dir_all(&base);

    println!(
        "{} tier={} seed={} evaluations={} distinct_nontrivial={} violations={} inconclusive={} wall={:.1}s",
        check.id,
        tier.name(),
        seed,
        merged.evaluations,
        merged.nontrivial.len(),
        new_violations.len(),
        merged.inconclusive,
        wall
    );
    if !new_violations.is_empty() {
        for (v, path) in new_violations.iter() {
            println!("VIOLATION property={} replay={}", check.id, path.display());
            println!("  part={} signature={} :: {}", v.part, v.signature, truncate(&v.message, 600));
        }
        return 1;
    }
    if !harness_failures.is_empty() {
        for h in harness_failures.iter() {
            println!("INCONCLUSIVE property={} {}", check.id, h);
        }
        return 2;
    }
    0
}

pub fn truncate(s: &str, n: usize) -> String {
    if s.len() <= n {
        s.to_string()
    } else {
        let mut end = n;
        while !s.is_char_boundary(end) {
            end -= 1;
        }
        format!("{}…", &s[..end])
    }
}

/// Convenience for hand-written parts: a deterministic PRNG-free way to split `total` work items
/// among workers.
pub fn my_share(ctx: &Ctx, total: u64) -> std::ops::Range<u64> {
    let n = ctx.nworkers as u64;
    let w = ctx.worker as u64;
    let lo = total * w / n;
    let hi = total * (w + 1) / n;
    lo..hi
}
