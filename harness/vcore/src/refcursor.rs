//! A vector-backed reference cursor with the sentinel semantics documented on `sst::Cursor`:
//! `seek_to_first` = before the first entry, `seek_to_last` = after the last, `seek(k)` = on the
//! first entry whose key is >= k, `next`/`prev` step, and `None` at either sentinel.  Stepping off
//! an end stays at that end's sentinel.

use serde::{Deserialize, Serialize};

/// (key, timestamp, value-or-tombstone); sorted by key ascending then timestamp descending.
pub type Entry = (Vec<u8>, u64, Option<Vec<u8>>);

pub fn sort_entries(v: &mut [Entry]) {
    v.sort_by(|a, b| a.0.cmp(&b.0).then(b.1.cmp(&a.1)));
}

#[derive(Clone, Debug, PartialEq, Eq, Serialize, Deserialize)]
pub enum CursorOp {
    SeekToFirst,
    SeekToLast,
    Seek(Vec<u8>),
    Next,
    Prev,
}

#[derive(Clone, Copy, Debug, PartialEq, Eq)]
pub enum Pos {
    BeforeFirst,
    At(usize),
    AfterLast,
}

#[derive(Clone, Debug)]
pub struct RefCursor {
    pub entries: Vec<Entry>,
    pub pos: Pos,
}

impl RefCursor {
    pub fn new(mut entries: Vec<Entry>) -> Self {
        sort_entries(&mut entries);
        Self {
            entries,
            pos: Pos::BeforeFirst,
        }
    }

    pub fn apply(&mut self, op: &CursorOp) {
        let n = self.entries.len();
        self.pos = match (op, self.pos) {
            (CursorOp::SeekToFirst, _) => Pos::BeforeFirst,
            (CursorOp::SeekToLast, _) => Pos::AfterLast,
            (CursorOp::Seek(k), _) => {
                let i = self.entries.partition_point(|e| e.0.as_slice() < k.as_slice());
                if i < n { Pos::At(i) } else { Pos::AfterLast }
            }
            (CursorOp::Next, Pos::BeforeFirst) => {
                if n > 0 { Pos::At(0) } else { Pos::AfterLast }
            }
            (CursorOp::Next, Pos::At(i)) => {
                if i + 1 < n { Pos::At(i + 1) } else { Pos::AfterLast }
            }
            (CursorOp::Next, Pos::AfterLast) => Pos::AfterLast,
            (CursorOp::Prev, Pos::AfterLast) => {
                if n > 0 { Pos::At(n - 1) } else { Pos::BeforeFirst }
            }
            (CursorOp::Prev, Pos::At(i)) => {
                if i > 0 { Pos::At(i - 1) } else { Pos::BeforeFirst }
            }
            (CursorOp::Prev, Pos::BeforeFirst) => Pos::BeforeFirst,
        };
    }

    pub fn current(&self) -> Option<&Entry> {
        match self.pos {
            Pos::At(i) => self.entries.get(i),
            _ => None,
        }
    }
}

/// Latest version of each key at or below `ts`, tombstones removed: the definition of a pruning
/// cursor / of a store scan.
pub fn prune(entries: &[Entry], ts: u64) -> Vec<Entry> {
    let mut sorted = entries.to_vec();
    sort_entries(&mut sorted);
    let mut out: Vec<Entry> = vec![];
    let mut last_key: Option<Vec<u8>> = None;
    for e in sorted.into_iter() {
        if e.1 > ts {
            continue;
        }
        if last_key.as_deref() == Some(e.0.as_slice()) {
            continue;
        }
        last_key = Some(e.0.clone());
        if e.2.is_some() {
            out.push(e);
        }
    }
    out
}
