//! Generator helpers shared by the checks.

use proptest::prelude::*;
use serde::{Deserialize, Serialize};

/// Map a generated selector monotonically into `0..len` (shrinks towards 0; never uses `%`).
pub fn sel(i: u16, len: usize) -> usize {
    if len == 0 {
        0
    } else {
        ((i as usize) * len) >> 16
    }
}

/// Families of small key universes that stress prefix compression, block boundaries and
/// comparison edge cases.
#[derive(Clone, Copy, Debug, PartialEq, Eq, Serialize, Deserialize)]
pub enum KeyFamily {
    /// `k00`, `k01`, …
    Dense,
    /// a 40-byte common prefix followed by a short suffix
    SharedPrefix,
    /// each key is a prefix of the next: `a`, `aa`, `aaa`, …
    PrefixChain,
    /// empty key, runs of 0x00 / 0xff, keys differing in the last byte
    Adversarial,
    /// keys at and just below the documented maximum key length (16 KiB), and around half of it;
    /// neighbours differ in the last byte or are prefixes of each other
    Long,
}

pub fn key_family() -> impl Strategy<Value = KeyFamily> {
    prop_oneof![
        4 => Just(KeyFamily::Dense),
        2 => Just(KeyFamily::SharedPrefix),
        2 => Just(KeyFamily::PrefixChain),
        3 => Just(KeyFamily::Adversarial),
        1 => Just(KeyFamily::Long),
    ]
}

/// The `n` keys of a family, sorted ascending and distinct.
pub fn universe(f: KeyFamily, n: usize) -> Vec<Vec<u8>> {
    let mut keys: Vec<Vec<u8>> = match f {
        KeyFamily::Dense => (0..n).map(|i| format!("k{i:02}").into_bytes()).collect(),
        KeyFamily::SharedPrefix => (0..n)
            .map(|i| {
                let mut k = b"shared/prefix/that/is/rather/long/and/eq/".to_vec();
                k.extend_from_slice(format!("{:03}", i * 7).as_bytes());
                k
            })
            .collect(),
        KeyFamily::PrefixChain => (0..n).map(|i| vec![b'a'; i + 1]).collect(),
        KeyFamily::Adversarial => {
            let pool: Vec<Vec<u8>> = vec![
                vec![],
                vec![0],
                vec![0, 0],
                vec![0, 0, 0],
                vec![0, 1],
                vec![0, 0xff],
                vec![1],
                vec![b'a'],
                vec![b'a', 0],
                vec![b'a', 0, 0],
                vec![b'a', 0xff],
                vec![b'a', 0xff, 0xff],
                vec![b'a', b'a'],
                vec![b'a', b'b'],
                vec![b'b'],
                vec![0x7f],
                vec![0x80],
                vec![0xfe],
                vec![0xfe, 0xff],
                vec![0xff],
                vec![0xff, 0],
                vec![0xff, 0xfe],
                vec![0xff, 0xff],
                vec![0xff; 10],
                vec![0xff; 11],
                vec![0xff; 12],
                { let mut k = vec![0xff; 11]; k.push(0); k },
                { let mut k = vec![0xff; 10]; k.push(0xfe); k },
                vec![b'z'; 300],
                { let mut k = vec![b'z'; 300]; k.push(1); k },
            ];
            pool.into_iter().take(n.max(1)).collect()
        }
        KeyFamily::Long => {
            const MAX: usize = 1 << 14;
            let mut pool: Vec<Vec<u8>> = vec![
                vec![b'L'; MAX],
                vec![b'L'; MAX - 1],
                { let mut k = vec![b'L'; MAX - 1]; k.push(b'K'); k },
                { let mut k = vec![b'L'; MAX - 1]; k.push(0xff); k },
                vec![b'L'; MAX / 2],
                { let mut k = vec![b'L'; MAX / 2]; k.push(0); k },
                vec![b'M'; MAX],
                vec![b'K'],
                vec![b'L'],
                vec![b'M'],
            ];
            for i in 0..n.saturating_sub(pool.len()) {
                let mut k = vec![b'L'; 4000 + 37 * i];
                k.push(b'A' + (i % 26) as u8);
                pool.push(k);
            }
            pool.into_iter().take(n.max(1)).collect()
        }
    };
    keys.sort();
    keys.dedup();
    keys
}

/// A value whose content is recognisable by `tag` (so a stale read is distinguishable from a
/// fresh one) and whose length comes from a size class.
pub fn value(tag: u32, size_class: u8) -> Vec<u8> {
    // class 8 is the documented maximum value length (32 KiB); classes 0..=7 keep their old meaning
    const SIZES: [usize; 9] = [0, 1, 10, 10, 200, 900, 2500, 30_000, 1 << 15];
    let n = SIZES[(size_class as usize) % SIZES.len()];
    let t = format!("<{tag}>");
    let mut v = Vec::with_capacity(n);
    while v.len() < n {
        let take = (n - v.len()).min(t.len());
        v.extend_from_slice(&t.as_bytes()[..take]);
    }
    v
}

/// Keys near `k` in byte order: predecessor-ish and successor-ish strings.
pub fn neighbours(k: &[u8]) -> Vec<Vec<u8>> {
    let mut out = vec![k.to_vec()];
    let mut succ = k.to_vec();
    succ.push(0);
    out.push(succ);
    if let Some((&last, head)) = k.split_last() {
        out.push(head.to_vec());
        if last > 0 {
            let mut p = head.to_vec();
            p.push(last - 1);
            p.push(0xff);
            out.push(p);
        }
        if last < 0xff {
            let mut p = head.to_vec();
            p.push(last + 1);
            out.push(p);
        }
    }
    out
}

/// Render bytes for messages.
pub fn show(k: &[u8]) -> String {
    if k.len() > 24 {
        format!("{}…({}B)", show(&k[..16]), k.len())
    } else if !k.is_empty() && k.iter().all(|c| c.is_ascii_graphic()) {
        String::from_utf8_lossy(k).to_string()
    } else {
        format!("x{}", k.iter().map(|b| format!("{b:02x}")).collect::<String>())
    }
}
