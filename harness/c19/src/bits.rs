//! Bit-vector parts of C19: every exported `BitVector` implementation vs a `Vec<bool>`.

use proptest::prelude::*;
use scrunch::bit_vector::{BitVector, ReferenceBitVector, cf_rrr, rrr, sparse};
use scrunch::builder::Builder;
use serde::{Deserialize, Serialize};
use vcore::gens::sel;
use vcore::{Ctx, Outcome, Property, Tier};

/// Structure sizes of the implementations (bits unless stated):
/// rrr: 63-bit words, 8 words = 504-bit super blocks, a select sample every 64 set (unset) bits;
/// cf_rrr: 63-bit words, 23 words = 1449-bit blocks, a select sample every 1449 set bits;
/// sparse: 16 set bits per leaf, fan-out 16 (16 / 256 / 4096 set bits per level); 128 elsewhere.
pub const BLOCKS: [usize; 8] = [63, 64, 504, 1449, 16, 128, 256, 4096];

#[derive(Clone, Debug, Serialize, Deserialize)]
pub struct BitCase {
    pub class: String,
    pub len: usize,
    /// little-endian 64-bit words; bits beyond `len` are zero
    pub words: Vec<u64>,
    pub probes: Vec<u16>,
    /// fan-out for `sparse::BitVector::from_indices`
    pub branch: usize,
}

impl BitCase {
    pub fn bits(&self) -> Vec<bool> {
        (0..self.len).map(|i| self.words[i / 64] >> (i % 64) & 1 == 1).collect()
    }
    fn from_bits(class: String, bits: &[bool], probes: Vec<u16>, branch: usize) -> Self {
        let mut words = vec![0u64; bits.len().div_ceil(64)];
        for (i, b) in bits.iter().enumerate() {
            if *b {
                words[i / 64] |= 1 << (i % 64);
            }
        }
        BitCase {
            class,
            len: bits.len(),
            words,
            probes,
            branch,
        }
    }
}

/// Lengths: tiny, on / next to multiples of the structure sizes, medium, large.
fn len_strategy(max: usize) -> BoxedStrategy<usize> {
    prop_oneof![
        3 => 0usize..=130,
        5 => (0usize..BLOCKS.len(), 1usize..=40, 0usize..=2).prop_map(|(b, k, d)| (BLOCKS[b] * k + d).saturating_sub(1)),
        3 => 131usize..=5000,
        1 => 5001usize..=50_000,
    ]
    .prop_map(move |n| n.min(max))
    .boxed()
}

fn bit_vec_strategy(max: usize) -> BoxedStrategy<(String, Vec<bool>)> {
    let constant = (len_strategy(max), any::<bool>()).prop_map(|(n, b)| (if b { "all-ones" } else { "all-zeros" }.to_string(), vec![b; n]));
    // runs whose lengths are multiples of a structure size, or one off
    let aligned_runs = (0usize..BLOCKS.len(), any::<bool>(), prop::collection::vec((0usize..=3, 0usize..=2), 1..=24)).prop_map(move |(b, first, runs)| {
        let mut bits = vec![];
        let mut cur = first;
        for (k, d) in runs {
            let n = (BLOCKS[b] * k + d).saturating_sub(1);
            bits.extend(std::iter::repeat_n(cur, n));
            cur = !cur;
        }
        bits.truncate(max);
        (format!("aligned-runs-{}", BLOCKS[b]), bits)
    });
    // density 1/2, 1/4, 1/8, 3/4, 7/8 from whole random words
    let dense = (len_strategy(max), 0usize..5).prop_flat_map(|(n, mode)| {
        let words = n.div_ceil(64);
        (Just(n), Just(mode), prop::collection::vec((any::<u64>(), any::<u64>(), any::<u64>()), words))
    });
    let dense = dense.prop_map(|(n, mode, ws)| {
        let name = ["random-1/2", "random-1/4", "random-1/8", "random-3/4", "random-7/8"][mode];
        let bits = (0..n)
            .map(|i| {
                let (a, b, c) = ws[i / 64];
                let w = match mode {
                    0 => a,
                    1 => a & b,
                    2 => a & b & c,
                    3 => a | b,
                    _ => a | b | c,
                };
                w >> (i % 64) & 1 == 1
            })
            .collect::<Vec<bool>>();
        (name.to_string(), bits)
    });
    // sparse: ones (or zeros, if inverted) separated by generated gaps; optionally an exact count
    // of them that sits on / next to a structure size of the sparse tree or the select samples
    let gaps = (
        prop_oneof![
            3 => 1usize..=40,
            4 => (0usize..BLOCKS.len(), 1usize..=3, 0usize..=2).prop_map(|(b, k, d)| (BLOCKS[b] * k + d).saturating_sub(1).max(1)),
            1 => 41usize..=6000,
        ],
        prop_oneof![Just(1usize), Just(2), Just(5), Just(40), Just(700)],
        any::<bool>(),
        0usize..=200,
    )
        .prop_flat_map(|(count, mean, invert, tail)| (prop::collection::vec(any::<u16>(), count), Just(mean), Just(invert), Just(tail)));
    let gaps = gaps.prop_map(move |(gs, mean, invert, tail)| {
        let mut bits: Vec<bool> = vec![];
        let count = gs.len();
        for g in gs {
            let gap = sel(g, 2 * mean);
            if bits.len() + gap + 1 > max {
                break;
            }
            bits.extend(std::iter::repeat_n(invert, gap));
            bits.push(!invert);
        }
        let t = tail.min(max - bits.len());
        bits.extend(std::iter::repeat_n(invert, t));
        (format!("{}-{}-gap~{}", if invert { "zeros-at-gaps" } else { "ones-at-gaps" }, count_class(count), mean), bits)
    });
    prop_oneof![
        2 => constant,
        4 => aligned_runs,
        4 => dense,
        5 => gaps,
    ]
    .boxed()
}

fn count_class(n: usize) -> &'static str {
    match n {
        0..=15 => "<16",
        16..=17 => "16-17",
        18..=62 => "18-62",
        63..=65 => "63-65",
        66..=126 => "66-126",
        127..=129 => "127-129",
        130..=254 => "130-254",
        255..=257 => "255-257",
        258..=1447 => "258-1447",
        1448..=1450 => "1448-1450",
        1451..=4094 => "1451-4094",
        4095..=4097 => "4095-4097",
        _ => ">4097",
    }
}

pub fn bit_case(max: usize) -> BoxedStrategy<BitCase> {
    (
        bit_vec_strategy(max),
        prop::collection::vec(any::<u16>(), 64),
        prop_oneof![Just(4usize), Just(5), Just(16), Just(17), Just(128), Just(255)],
    )
        .prop_map(|((class, bits), probes, branch)| BitCase::from_bits(class, &bits, probes, branch))
        .boxed()
}

/// The plain model: prefix counts and positions of ones / zeros.
struct Plain {
    bits: Vec<bool>,
    rank: Vec<usize>,
    ones: Vec<usize>,
    zeros: Vec<usize>,
}

impl Plain {
    fn new(bits: Vec<bool>) -> Self {
        let mut rank = Vec::with_capacity(bits.len() + 1);
        let mut ones = vec![];
        let mut zeros = vec![];
        let mut r = 0;
        for (i, b) in bits.iter().enumerate() {
            rank.push(r);
            if *b {
                r += 1;
                ones.push(i);
            } else {
                zeros.push(i);
            }
        }
        rank.push(r);
        Plain { bits, rank, ones, zeros }
    }
}

/// Indices to test: everything for short vectors; for long ones the neighbourhood of every
/// structure boundary, of every run edge (sampled), and the generated probes.
fn index_set(limit: usize, probes: &[u16], extra: &[usize]) -> Vec<usize> {
    // indices are in 0..=limit
    if limit <= 4200 {
        return (0..=limit).collect();
    }
    let mut v = vec![0, 1, limit - 1, limit];
    for b in BLOCKS.iter() {
        let mut k = *b;
        let stride = if limit / *b > 200 { (limit / *b / 200 + 1) * *b } else { *b };
        while k <= limit + 1 {
            for d in [k - 1, k, k + 1] {
                if d <= limit {
                    v.push(d);
                }
            }
            k += stride;
        }
    }
    for p in probes {
        v.push(sel(*p, limit + 1));
    }
    for e in extra.iter().take(400) {
        for d in [e.saturating_sub(1), *e, *e + 1] {
            if d <= limit {
                v.push(d);
            }
        }
    }
    v.sort();
    v.dedup();
    v
}

fn check_bitvector<B: BitVector>(tag: &str, bv: &B, c: &BitCase, p: &Plain, o: &mut Outcome) {
    let n = p.bits.len();
    let total = p.ones.len();
    let ctx = || format!("{} vector of {} bits, {} set", c.class, n, total);
    if bv.len() != n {
        o.fail(format!("{tag}:len"), format!("{tag}.len() = {} for a {}", bv.len(), ctx()));
        return;
    }
    if bv.is_empty() != (n == 0) {
        o.fail(format!("{tag}:is_empty"), format!("{tag}.is_empty() = {} for a {}", bv.is_empty(), ctx()));
        return;
    }
    // run edges, for long vectors
    let mut edges = vec![];
    if n > 4200 {
        for i in 1..n {
            if p.bits[i] != p.bits[i - 1] {
                edges.push(i);
                if edges.len() >= 400 {
                    break;
                }
            }
        }
    }
    for i in index_set(n, &c.probes, &edges) {
        if i < n {
            let a = bv.access(i);
            if a != Some(p.bits[i]) {
                o.fail(format!("{tag}:access"), format!("{tag}.access({i}) = {a:?}, bit {i} is {}; {}", p.bits[i], ctx()));
                return;
            }
            let ar = bv.access_rank(i);
            if ar != Some((p.bits[i], p.rank[i])) {
                o.fail(format!("{tag}:access_rank"), format!("{tag}.access_rank({i}) = {ar:?}, expected ({}, {}); {}", p.bits[i], p.rank[i], ctx()));
                return;
            }
        }
        let r = bv.rank(i);
        if r != Some(p.rank[i]) {
            o.fail(format!("{tag}:rank"), format!("{tag}.rank({i}) = {r:?}, {} bits are set below {i}; {}", p.rank[i], ctx()));
            return;
        }
        let r0 = bv.rank0(i);
        if r0 != Some(i - p.rank[i]) {
            o.fail(format!("{tag}:rank0"), format!("{tag}.rank0({i}) = {r0:?}, {} bits are unset below {i}; {}", i - p.rank[i], ctx()));
            return;
        }
    }
    // out of range
    for i in [n, n + 1, n + 63, n + 64, 2 * n + 1500, usize::MAX / 4] {
        let a = bv.access(i);
        if a.is_some() {
            o.fail(format!("{tag}:access-out-of-range"), format!("{tag}.access({i}) = {a:?} beyond the end; {}", ctx()));
            return;
        }
        if i > n {
            let r = bv.rank(i);
            if r.is_some() {
                o.fail(format!("{tag}:rank-out-of-range"), format!("{tag}.rank({i}) = {r:?} beyond the end; {}", ctx()));
                return;
            }
            let ar = bv.access_rank(i);
            if ar.is_some() {
                o.fail(format!("{tag}:access_rank-out-of-range"), format!("{tag}.access_rank({i}) = {ar:?} beyond the end; {}", ctx()));
                return;
            }
        }
    }
    // access_rank(len): the implementations differ (None, or (false, rank)); never a set bit or a
    // wrong rank.
    match bv.access_rank(n) {
        None => {}
        Some((false, r)) if r == total => {}
        other => {
            o.fail(format!("{tag}:access_rank-at-len"), format!("{tag}.access_rank(len) = {other:?}; {}", ctx()));
            return;
        }
    }
    // select / select0: k = 0 is Some(0); k-th set bit at position q gives Some(q + 1);
    // k = count + 1 and beyond give None.
    for (name, positions, zero) in [("select", &p.ones, false), ("select0", &p.zeros, true)] {
        let cnt = positions.len();
        let ks = index_set(cnt, &c.probes, &[]);
        for k in ks {
            let want = if k == 0 { 0 } else { positions[k - 1] + 1 };
            let got = if zero { bv.select0(k) } else { bv.select(k) };
            if got != Some(want) {
                o.fail(
                    format!("{tag}:{name}"),
                    format!("{tag}.{name}({k}) = {got:?}, expected Some({want}) (one past the {k}-th {} bit); {}", if zero { "unset" } else { "set" }, ctx()),
                );
                return;
            }
        }
        for k in [cnt + 1, cnt + 2, cnt + 63, cnt + 64, cnt + 1449, n + 1, n + 2, 2 * n + 1500, (1 << 32) + 1, 1 << 40, usize::MAX / 2, usize::MAX - 1, usize::MAX] {
            if k <= cnt {
                continue;
            }
            let got = if zero { bv.select0(k) } else { bv.select(k) };
            if got.is_some() {
                o.fail(
                    format!("{tag}:{name}-out-of-range"),
                    format!("{tag}.{name}({k}) = {got:?} but only {cnt} bits are {}; {}", if zero { "unset" } else { "set" }, ctx()),
                );
                return;
            }
        }
    }
}

fn describe(c: &BitCase, p: &Plain, o: &mut Outcome) {
    let n = p.bits.len();
    o.label(format!("class:{}", c.class.split("-gap~").next().unwrap_or("")));
    o.label(format!(
        "len:{}",
        match n {
            0 => "0",
            1..=63 => "1-63",
            64..=504 => "64-504",
            505..=1449 => "505-1449",
            1450..=4200 => "1450-4200",
            4201..=20000 => "4201-20000",
            _ => ">20000",
        }
    ));
    if n > 0 && BLOCKS.iter().any(|b| n % b == 0) {
        o.label("len-is-block-multiple");
    }
    o.label(format!("set-bits:{}", count_class(p.ones.len())));
    let both = !p.ones.is_empty() && !p.zeros.is_empty();
    // spans at least two 63-bit words / two sparse leaves and has both values
    o.nontrivial = n >= 127 && both && p.ones.len() > 16;
}

#[derive(Clone, Copy, Debug)]
pub enum Impl {
    Reference,
    Rrr,
    CfRrr,
    Sparse,
    SparseIndices,
}

pub struct BitVectors(pub Impl);

fn via_trait<B: BitVector>(tag: &str, c: &BitCase, p: &Plain, o: &mut Outcome) {
    let mut buf = Vec::new();
    let mut builder = Builder::new(&mut buf);
    if let Err(e) = B::construct(&p.bits, &mut builder) {
        o.fail(format!("{tag}:construct-error"), format!("{tag}::construct = Err({e:?}) for a {} vector of {} bits", c.class, p.bits.len()));
        return;
    }
    drop(builder);
    match B::parse(&buf) {
        Ok((bv, _)) => check_bitvector(tag, &bv, c, p, o),
        Err(e) => o.fail(format!("{tag}:parse-error"), format!("{tag}::parse of freshly constructed bytes = Err({e:?}) for a {} vector of {} bits", c.class, p.bits.len())),
    }
}

impl Property for BitVectors {
    type Case = BitCase;
    fn name(&self) -> String {
        match self.0 {
            Impl::Reference => "bitvector-reference",
            Impl::Rrr => "bitvector-rrr",
            Impl::CfRrr => "bitvector-cf_rrr",
            Impl::Sparse => "bitvector-sparse",
            Impl::SparseIndices => "bitvector-sparse-from_indices",
        }
        .into()
    }
    fn cases(&self, tier: Tier) -> u64 {
        match self.0 {
            Impl::Reference => tier.pick(300, 6_000),
            Impl::Rrr => tier.pick(1500, 60_000),
            Impl::CfRrr => tier.pick(1000, 30_000),
            Impl::Sparse | Impl::SparseIndices => tier.pick(700, 20_000),
        }
    }
    fn strategy(&self, ctx: &Ctx) -> BoxedStrategy<BitCase> {
        let max = match self.0 {
            Impl::Reference => 20_000,
            _ => 50_000,
        };
        let _ = ctx;
        bit_case(max)
    }
    fn run(&self, _: &Ctx, c: &BitCase) -> Outcome {
        let mut o = Outcome::pass();
        let p = Plain::new(c.bits());
        describe(c, &p, &mut o);
        match self.0 {
            Impl::Reference => via_trait::<ReferenceBitVector>("reference", c, &p, &mut o),
            Impl::Rrr => via_trait::<rrr::BitVector>("rrr", c, &p, &mut o),
            Impl::CfRrr => via_trait::<cf_rrr::BitVector>("cf_rrr", c, &p, &mut o),
            Impl::Sparse => via_trait::<sparse::BitVector>("sparse", c, &p, &mut o),
            Impl::SparseIndices => {
                o.label(format!("branch:{}", c.branch));
                let mut buf = Vec::new();
                let mut builder = Builder::new(&mut buf);
                if sparse::BitVector::from_indices(c.branch, p.bits.len(), &p.ones, &mut builder).is_none() {
                    o.fail("sparse-indices:construct-error", format!("from_indices(branch {}) refused {} ascending indices below {}", c.branch, p.ones.len(), p.bits.len()));
                    return o;
                }
                drop(builder);
                match sparse::BitVector::new(&buf) {
                    Some(bv) => check_bitvector("sparse-indices", &bv, c, &p, &mut o),
                    None => o.fail("sparse-indices:parse-error", format!("BitVector::new refused freshly built bytes (branch {})", c.branch)),
                }
            }
        }
        o
    }
}
