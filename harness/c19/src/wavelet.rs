//! Secondary part of C19: the wavelet trees under the psi structure vs a plain symbol vector.

use std::collections::BTreeMap;

use buffertk::Unpackable;
use proptest::prelude::*;
use scrunch::builder::Builder;
use scrunch::encoder::{FixedWidthEncoder, HuffmanEncoder};
use scrunch::wavelet_tree::prefix::WaveletTree as PrefixWaveletTree;
use scrunch::wavelet_tree::{ReferenceWaveletTree, WaveletTree};
use serde::{Deserialize, Serialize};
use vcore::gens::sel;
use vcore::{Ctx, Outcome, Property, Tier};

use crate::docs::show_syms;
use crate::textgen::{absent_symbols, distinct_symbols, text_strategy};

#[derive(Clone, Debug, Serialize, Deserialize)]
pub struct WtCase {
    pub class: String,
    pub alpha: String,
    pub text: Vec<u32>,
    pub probes: Vec<u16>,
}

#[derive(Clone, Copy, Debug)]
pub enum Wt {
    Reference,
    Huffman,
    Fixed,
}

pub struct WaveletTrees(pub Wt);

fn check_wt<W: WaveletTree>(tag: &str, wt: &W, c: &WtCase, o: &mut Outcome) {
    let t = &c.text;
    let n = t.len();
    let ctx = || format!("text[{}]={}", n, show_syms(t));
    if wt.len() != n || wt.is_empty() != (n == 0) {
        o.fail(format!("{tag}:len"), format!("{tag}.len() = {} / is_empty() = {}; {}", wt.len(), wt.is_empty(), ctx()));
        return;
    }
    for (i, s) in t.iter().enumerate() {
        let a = wt.access(i);
        if a != Some(*s) {
            o.fail(format!("{tag}:access"), format!("{tag}.access({i}) = {a:?}, symbol {i} is {s}; {}", ctx()));
            return;
        }
    }
    for i in [n, n + 1, n + 63, 2 * n + 504] {
        let a = wt.access(i);
        if a.is_some() {
            o.fail(format!("{tag}:access-out-of-range"), format!("{tag}.access({i}) = {a:?} beyond the end; {}", ctx()));
            return;
        }
    }
    // positions of every symbol
    let mut pos: BTreeMap<u32, Vec<usize>> = BTreeMap::new();
    for (i, s) in t.iter().enumerate() {
        pos.entry(*s).or_default().push(i);
    }
    let distinct: Vec<u32> = pos.keys().copied().collect();
    // all symbols of a small alphabet, a generated sample of a large one (always first and last)
    let mut qs: Vec<u32> = if distinct.len() <= 24 {
        distinct.clone()
    } else {
        let mut v = vec![distinct[0], distinct[distinct.len() - 1]];
        v.extend(c.probes.iter().take(20).map(|p| distinct[sel(*p, distinct.len())]));
        v
    };
    qs.sort();
    qs.dedup();
    let xs: Vec<usize> = if n <= 700 {
        (0..=n).collect()
    } else {
        let mut v: Vec<usize> = (0..=n).step_by(n / 300).collect();
        v.push(n);
        for b in [63usize, 504] {
            let mut k = b;
            while k <= n {
                v.extend([k - 1, k, (k + 1).min(n)]);
                k += b * (n / b / 40 + 1);
            }
        }
        v.extend(c.probes.iter().map(|p| sel(*p, n + 1)));
        v.sort();
        v.dedup();
        v
    };
    for q in qs.iter() {
        let ps = &pos[q];
        for x in xs.iter() {
            let want = ps.partition_point(|p| *p < *x);
            let got = wt.rank_q(*q, *x);
            if got != Some(want) {
                o.fail(format!("{tag}:rank_q"), format!("{tag}.rank_q({q}, {x}) = {got:?}, {want} occurrences lie below {x}; {}", ctx()));
                return;
            }
        }
        let got = wt.rank_q(*q, n + 1);
        if got.is_some() {
            o.fail(format!("{tag}:rank_q-out-of-range"), format!("{tag}.rank_q({q}, {}) = {got:?} beyond the end; {}", n + 1, ctx()));
            return;
        }
        let ks: Vec<usize> = if ps.len() <= 700 {
            (0..=ps.len()).collect()
        } else {
            let mut v: Vec<usize> = (0..=ps.len()).step_by(ps.len() / 300).collect();
            v.push(ps.len());
            v.extend([63, 64, 65, 127, 128, 129].iter().filter(|k| **k <= ps.len()));
            v.sort();
            v.dedup();
            v
        };
        for k in ks {
            let want = if k == 0 { 0 } else { ps[k - 1] + 1 };
            let got = wt.select_q(*q, k);
            if got != Some(want) {
                o.fail(format!("{tag}:select_q"), format!("{tag}.select_q({q}, {k}) = {got:?}, expected Some({want}) (one past the {k}-th occurrence); {}", ctx()));
                return;
            }
        }
        for k in [ps.len() + 1, ps.len() + 2, n + 1, n + 64] {
            let got = wt.select_q(*q, k);
            if got.is_some() {
                o.fail(format!("{tag}:select_q-out-of-range"), format!("{tag}.select_q({q}, {k}) = {got:?} but {q} occurs {} times; {}", ps.len(), ctx()));
                return;
            }
        }
    }
    // symbols that do not occur: the docs are silent and the implementations differ; a count of
    // occurrences, if given, must be zero and no occurrence may be found
    for q in absent_symbols(&distinct).into_iter().take(3) {
        for x in [0, n / 2, n] {
            if let Some(r) = wt.rank_q(q, x) {
                if r != 0 {
                    o.fail(format!("{tag}:rank_q-absent"), format!("{tag}.rank_q({q}, {x}) = Some({r}) for a symbol that does not occur; {}", ctx()));
                    return;
                }
            }
        }
        if let Some(p) = wt.select_q(q, 1) {
            o.fail(format!("{tag}:select_q-absent"), format!("{tag}.select_q({q}, 1) = Some({p}) for a symbol that does not occur; {}", ctx()));
            return;
        }
    }
    // symbol_rank_ranges over generated windows
    let mut ranges = vec![];
    for w in c.probes.chunks(2).take(12) {
        if w.len() < 2 {
            break;
        }
        let mut lo = sel(w[0], n + 1);
        let mut hi = sel(w[1], n + 1);
        if lo > hi {
            std::mem::swap(&mut lo, &mut hi);
        }
        // keep windows short half of the time so that single-symbol windows occur
        if w[0] % 2 == 0 {
            hi = hi.min(lo + 1 + (w[1] % 7) as usize).min(n);
        }
        let got = wt.symbol_rank_ranges(lo, hi, &mut ranges);
        let mut want: Vec<(u32, (usize, usize))> = vec![];
        for s in distinct_symbols(&t[lo..hi]) {
            let ps = &pos[&s];
            want.push((s, (ps.partition_point(|p| *p < lo), ps.partition_point(|p| *p < hi))));
        }
        let mut g = ranges.clone();
        g.sort();
        if got.is_none() || g != want {
            o.fail(
                format!("{tag}:symbol_rank_ranges"),
                format!("{tag}.symbol_rank_ranges({lo}, {hi}) = {got:?} {:?}, expected {:?}; {}", &g[..g.len().min(12)], &want[..want.len().min(12)], ctx()),
            );
            return;
        }
    }
    if wt.symbol_rank_ranges(0, n + 1, &mut ranges).is_some() {
        o.fail(format!("{tag}:symbol_rank_ranges-out-of-range"), format!("{tag}.symbol_rank_ranges(0, {}) succeeded beyond the end; {}", n + 1, ctx()));
    }
}

macro_rules! build_and_check {
    ($ty:ty, $tag:expr, $c:expr, $o:expr) => {{
        let mut buf = Vec::new();
        let mut builder = Builder::new(&mut buf);
        match <$ty as WaveletTree>::construct(&$c.text, &mut builder) {
            Err(e) => $o.fail(format!("{}:construct-error", $tag), format!("{}::construct = Err({e:?}); text[{}]={}", $tag, $c.text.len(), show_syms(&$c.text))),
            Ok(()) => {
                drop(builder);
                match <$ty as Unpackable>::unpack(&buf) {
                    Ok((wt, _)) => check_wt($tag, &wt, $c, $o),
                    Err(_) => $o.fail(format!("{}:unpack-error", $tag), format!("{}::unpack of freshly constructed bytes failed; text[{}]={}", $tag, $c.text.len(), show_syms(&$c.text))),
                }
            }
        }
    }};
}

impl Property for WaveletTrees {
    type Case = WtCase;
    fn name(&self) -> String {
        match self.0 {
            Wt::Reference => "wavelet-reference",
            Wt::Huffman => "wavelet-prefix-huffman",
            Wt::Fixed => "wavelet-prefix-fixed",
        }
        .into()
    }
    fn cases(&self, tier: Tier) -> u64 {
        match self.0 {
            Wt::Reference => tier.pick(100, 2_000),
            Wt::Huffman => tier.pick(700, 20_000),
            Wt::Fixed => tier.pick(300, 8_000),
        }
    }
    fn strategy(&self, ctx: &Ctx) -> BoxedStrategy<WtCase> {
        let max_len = match self.0 {
            Wt::Reference => 400,
            _ => ctx.tier.pick(3000, 6000),
        };
        (text_strategy(max_len, 4000), prop::collection::vec(any::<u16>(), 40))
            .prop_map(|((alpha, class, text), probes)| WtCase {
                class,
                alpha,
                // the psi structure never builds an empty tree; one symbol is the smallest input
                text: if text.is_empty() { vec![7] } else { text },
                probes,
            })
            .boxed()
    }
    fn run(&self, _: &Ctx, c: &WtCase) -> Outcome {
        let mut o = Outcome::pass();
        let distinct = distinct_symbols(&c.text);
        o.label(format!("text:{}", c.class));
        o.label(format!(
            "alphabet:{}",
            match distinct.len() {
                1 => "1",
                2 => "2",
                3..=16 => "3-16",
                17..=256 => "17-256",
                _ => ">256",
            }
        ));
        o.label(format!(
            "len:{}",
            match c.text.len() {
                1..=63 => "1-63",
                64..=504 => "64-504",
                _ => ">504",
            }
        ));
        o.nontrivial = distinct.len() >= 2 && c.text.len() >= 64;
        match self.0 {
            Wt::Reference => build_and_check!(ReferenceWaveletTree, "wt-reference", c, &mut o),
            Wt::Huffman => build_and_check!(PrefixWaveletTree<HuffmanEncoder>, "wt-huffman", c, &mut o),
            Wt::Fixed => build_and_check!(PrefixWaveletTree<FixedWidthEncoder>, "wt-fixed", c, &mut o),
        }
        o
    }
}
